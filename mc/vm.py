"""
Shared plumbing for the vacancy-mediated checks (C01, C03-C08, C14...):
calculators cached per worker, hash-seed independent class keys, data alphabets (DESIGN §5.2),
node enumeration (all points within k deviations of a base point), package / model evaluation.
"""
import hashlib, itertools
import numpy as np
from onsager import OnsagerCalc, GFcalc
from mc import catalog
from mc.refmodels import pair

_CALC = {}


def calculator(name, icut, Nthermo, NGFmax=4):
    k = (name, icut, Nthermo, NGFmax)
    if k not in _CALC:
        crys, chem, sl, jn = catalog.network(name, icut)
        calc = OnsagerCalc.VacancyMediated(crys, chem, sl, jn, Nthermo, NGFmax)
        _CALC[k] = {'calc': calc, 'crys': crys, 'chem': chem, 'sitelist': sl, 'jumpnetwork': jn,
                    'model': None, 'gf': None, 'keys': None}
    return _CALC[k]


def model_of(ent):
    if ent['model'] is None: ent['model'] = pair.PairModel(ent['calc'])
    return ent['model']


def gf_of(ent):
    """a separate GF calculator (the calculator's own instance keeps the rates of its last *uncached* call)"""
    if ent['gf'] is None:
        ent['gf'] = GFcalc.GFCrystalcalc(ent['crys'], ent['chem'], ent['sitelist'], ent['jumpnetwork'], ent['calc'].NGFmax)
    return ent['gf']


def pskey(PS):
    return (int(PS.i), int(PS.j)) + tuple(int(r) for r in PS.R)


def class_keys(ent):
    """canonical (hash-seed independent) key of every symmetry class, per kind, in the calculator's order"""
    if ent['keys'] is not None: return ent['keys']
    calc = ent['calc']
    kst = calc.kinetic.states
    rd = lambda dx: tuple(int(round(x * 1e4)) for x in dx)
    keys = {
        'V': [('V', min(w)) for w in calc.sitelist],
        'S': [('S', min(w)) for w in calc.sitelist],
        'SV': [('SV',) + min(pskey(calc.thermo.states[s]) for s in star) for star in calc.thermo.stars],
        'T0': [('T0',) + min((i, j) + rd(dx) for (i, j), dx in jl) for jl in calc.om0_jn],
        'T1': [('T1',) + min(pskey(kst[a]) + pskey(kst[b]) for (a, b), dx in jl) for jl in calc.om1_jn],
        'T2': [('T2',) + min(pskey(kst[a]) + pskey(kst[b]) for (a, b), dx in jl) for jl in calc.om2_jn],
    }
    ent['keys'] = keys
    return keys


KINDS = ('V', 'S', 'SV', 'T0', 'T1', 'T2')
ENE = {'V': 'eneV', 'S': 'eneS', 'SV': 'eneSV', 'T0': 'eneT0', 'T1': 'eneT1', 'T2': 'eneT2'}
PRE = {'V': 'preV', 'S': 'preS', 'SV': 'preSV', 'T0': 'preT0', 'T1': 'preT1', 'T2': 'preT2'}

# deviation letters: (which array, operation)
LETTERS = [('ene', -np.log(2.)), ('ene', np.log(3.)), ('ene', 5.0), ('pre', 2.0), ('pre', 1. / 3.)]
LETTER_NAMES = ['E-ln2', 'E+ln3', 'E+5', 'P*2', 'P/3']
XLETTERS = [('ene', 20.0), ('ene', -20.0)]      # extreme set (C03 / C08 only)


def hval(key, salt=''):
    """deterministic generic number in [-0.5, 0.5) attached to a geometric class key (a fixed table, not a sample)"""
    h = hashlib.sha1((repr(key) + salt).encode()).digest()
    return int.from_bytes(h[:6], 'big') / float(1 << 48) - 0.5


def base_data(ent, base):
    """thermodict (package convention: pre*/ene* arrays in the calculator's class order) for a base point"""
    keys = class_keys(ent)
    amp = {'T': 0.0, 'G1': 1.0, 'G2': 6.0, 'X': 18.0}[base]     # |E| <= amp/2 (X: rate ratios up to ~1e8)
    off = {'T': 1.0, 'G1': 1.0, 'G2': 3.0, 'X': 9.0}[base]
    d = {}
    for kind in KINDS:
        n = len(keys[kind])
        # G2 carries generic prefactors exp(+-0.5) as well (G1 and X keep unit prefactors; single prefactors are also varied by letters)
        d[PRE[kind]] = np.exp(np.array([hval(k, 'G2:pre') for k in keys[kind]])) if base == 'G2' else np.ones(n)
        e = np.array([amp * hval(k, base) for k in keys[kind]])
        if kind in ('T0', 'T1', 'T2'): e = e + off
        d[ENE[kind]] = e
    if base == 'T':
        calc = ent['calc']
        d.update(calc.maketracerpreene(**d))
    return d


def coordinates(ent, kinds=KINDS):
    """canonical list of (kind, position-in-calculator-order), sorted by class key"""
    keys = class_keys(ent)
    out = []
    for kind in kinds:
        order = sorted(range(len(keys[kind])), key=lambda n: keys[kind][n])
        out += [(kind, n) for n in order]
    return out


def apply_devs(ent, d, devs, letters=LETTERS):
    """devs: list of (coordinate index in coordinates(ent), letter index)"""
    coords = coordinates(ent)
    d = {k: v.copy() for k, v in d.items()}
    for ci, li in devs:
        kind, n = coords[ci]
        what, val = letters[li]
        if what == 'ene': d[ENE[kind]][n] += val
        else: d[PRE[kind]][n] *= val
    return d


def dev_sets(ncoord, nletters, k, kinds_filter=None):
    """all deviation sets with at most k deviations on distinct coordinates (simplest first)"""
    idx = range(ncoord) if kinds_filter is None else kinds_filter
    out = [()]
    for r in range(1, k + 1):
        for cs in itertools.combinations(idx, r):
            for ls in itertools.product(range(nletters), repeat=r):
                out.append(tuple(zip(cs, ls)))
    return out


def dev_name(ent, devs, names=LETTER_NAMES):
    coords = coordinates(ent); keys = class_keys(ent)
    return '+'.join('{}:{}'.format('.'.join(str(x) for x in keys[coords[c][0]][coords[c][1]]), names[l]) for c, l in devs) or 'base'


def raw_bF(d, kT=1.0):
    """model-side free energies straight from the definition (no reference subtraction at all)"""
    return tuple(np.asarray(d[ENE[k]], float) / kT - np.log(np.asarray(d[PRE[k]], float)) for k in KINDS)


def package_L(ent, d, kT=1.0, **kw):
    calc = ent['calc']
    if len(calc.GFvalues) > 64: calc.clearcache()
    bF = calc.preene2betafree(kT, **d)
    return lij_bF(calc, bF, **kw)


def lij_bF(calc, bF, **kw):
    """Lij on the given free-energy arrays (the documented usage keeps and reuses them).  If the call changed its
    argument arrays, a second call on the same (now changed) arrays is made: a different answer for 'the same
    arrays' is reported (history dependence through the caller's data, C14 / C08)"""
    before = [np.array(x, copy=True) for x in bF]
    L = tuple(np.array(x, dtype=float, copy=True) for x in calc.Lij(*bF, **kw))
    if any(not np.array_equal(a, np.asarray(b)) for a, b in zip(before, bF)):
        L2 = tuple(np.array(x, dtype=float, copy=True) for x in calc.Lij(*bF, **kw))
        sc = tscale(*L)
        if any(np.abs(a - b).max() > 1e-12 * sc for a, b in zip(L, L2)):
            raise AssertionError('Lij modified its argument arrays in place; calling it again with the same arrays changes the '
                                 'result by {:.2e} (relative)'.format(max(float(np.abs(a - b).max()) for a, b in zip(L, L2)) / sc))
    return L


def model_L(ent, d, kT=1.0, gfunc=None):
    m = model_of(ent)
    bFV, bFS, bFSV, bFT0, bFT1, bFT2 = raw_bF(d, kT)
    if gfunc is None:
        # the GF table depends only on the vacancy data; keep the tables of the last few vacancy data sets
        vkey = (bFV - bFV.min()).round(12).tobytes() + (bFT0 - bFV.min()).round(12).tobytes()
        tabs = ent.setdefault('gftabs', {})
        if vkey not in tabs:
            if len(tabs) >= 6: tabs.pop(next(iter(tabs)))
            tabs[vkey] = {}
        cache = tabs[vkey]
        gf = gf_of(ent)
        state = {'set': False}

        def gfunc(i, j, dx):
            key = (i, j) + tuple(int(round(x * 1e6)) for x in dx)
            v = cache.get(key)
            if v is None:
                if not state['set']:
                    gf.SetRates(np.ones_like(bFV), bFV - bFV.min(), np.ones_like(bFT0), bFT0 - bFV.min())
                    state['set'] = True
                v = gf(i, j, dx); cache[key] = v
            return v
    return m.solve(bFV, bFS, bFSV, bFT0, bFT1, bFT2, gfunc)


def has_vb(ent):
    crys, chem = ent['crys'], ent['chem']
    return any(crys.VectorBasis((chem, w[0]))[0] > 0 for w in ent['sitelist'])


def tscale(*tensors):
    return max(1e-300, max(float(np.abs(t).max()) for t in tensors))


def gf_residual(ent, d, kT=1.0):
    """max |sum_t omega(s,t) g(t,u) - delta_su| of the bare lattice GF (own GFCrystalcalc instance, same mesh as the
    calculator) for u = one site per Wyckoff set in cell 0 and s = u and every site one jump away from u"""
    bFV, bFS, bFSV, bFT0, bFT1, bFT2 = raw_bF(d, kT)
    vkey = (bFV - bFV.min()).round(12).tobytes() + (bFT0 - bFV.min()).round(12).tobytes()
    rc = ent.setdefault('gfres', {})
    if vkey in rc: return rc[vkey]
    net = model_of(ent).net
    gf = gf_of(ent)
    gf.SetRates(np.ones_like(bFV), bFV - bFV.min(), np.ones_like(bFT0), bFT0 - bFV.min())
    w = net.w
    worst = 0.
    for wl in ent['sitelist']:
        u = wl[0]
        rows = [(u, np.zeros(net.dim))] + [(j, dx) for (j, dx, c) in net.jumps[u]]
        for (sj, sx) in rows:
            tot = 0.
            for (tj, dx, c) in net.jumps[sj]:
                tot += np.exp(-bFT0[c] + 0.5 * (bFV[w[sj]] + bFV[w[tj]])) * gf(tj, u, -(sx + dx))
                tot -= np.exp(-bFT0[c] + bFV[w[sj]]) * gf(sj, u, -sx)
            if sj == u and np.allclose(sx, 0): tot -= 1.
            worst = max(worst, abs(tot))
    if len(rc) > 256: rc.clear()
    rc[vkey] = worst
    return worst


def bz_tol(ent, d, kT=1.0, floor=1e-7):
    """BZ-limited tolerance (DESIGN section 4): 20 x the measured diffusion-equation residual of the bare GF
    for this vacancy data on this calculator's mesh; returns (tol, residual)"""
    r = gf_residual(ent, d, kT)
    return max(floor, 20. * r), r


def rate_span(ent, d, kT=1.0):
    """(min, max) over all omega0/omega1/omega2 transition rates (both directions) implied by the data: the dynamic
    range kappa = max/min bounds the amplification of round-off and of the bare-GF error in any result"""
    calc = ent['calc']
    bFV, bFS, bFSV, bFT0, bFT1, bFT2 = raw_bF(d, kT)
    bFkin = np.array([bFS[s] + bFV[v] for (s, v) in calc.kineticsvWyckoff])
    for t, k in enumerate(calc.thermo2kin): bFkin[k] += bFSV[t]
    lr = []
    for j, (v1, v2) in enumerate(calc.omega0vacancyWyckoff): lr += [-bFT0[j] + bFV[v1], -bFT0[j] + bFV[v2]]
    for j, (s1, s2) in enumerate(calc.om1_SP): lr += [-bFT1[j] + bFkin[s1], -bFT1[j] + bFkin[s2]]
    for j, (s1, s2) in enumerate(calc.om2_SP): lr += [-bFT2[j] + bFkin[s1], -bFT2[j] + bFkin[s2]]
    return float(np.exp(min(lr))), float(np.exp(max(lr)))


EPS = 2.3e-16


def roundoff_tol(ent, d, kT=1.0, floor=1e-9):
    lo, hi = rate_span(ent, d, kT)
    return max(floor, 50. * EPS * hi / lo)


def conditioned_tol(ent, d, kT=1.0, floor=1e-9):
    """tolerance for statements whose error is (bare-GF residual) x (dynamic range of the rates): semidefiniteness,
    comparisons between different GF evaluations; returns (tol, kappa, residual)"""
    lo, hi = rate_span(ent, d, kT)
    kappa = hi / lo
    r = gf_residual(ent, d, kT)
    return max(floor, 50. * EPS * kappa, 20. * r * kappa), kappa, r
