"""
R-geom — brute-force geometry reference model (DESIGN §3).

Plain NumPy, no symmetry reduction, nothing imported from onsager.  Conventions follow the package only
where they are part of its *interface*: a lattice is a (dim, dim) array whose COLUMNS are the lattice
vectors; positions are in direct (unit-cell) coordinates; a space-group operation is x -> rot.x + trans
in direct coordinates (rot integer), cartrot = L rot L^-1.

Contents
  * Bravais tables (all 14 3D types, all 5 2D types, fixed generic parameters), strain table
  * the position / spin / species alphabets of the generated family (DESIGN §5.1) and its enumeration
  * lattice-point enumeration in a range computed from the reciprocal-lattice heights (safe for skewed cells)
  * lattice point group (all integer matrices preserving the metric, candidates from equal-length lattice points)
  * brute-force space group of a decorated crystal (species + spins), atom orbits by union-find
  * Reynolds (group-average) projectors on vectors, symmetric tensors and site vector fields
  * subgroup lattice of a finite matrix group by closure
  * Hermite-normal-form supercells, supercell re-descriptions
"""
import itertools, math
import numpy as np

s3 = math.sqrt(3.)
_BCC = np.array([[-0.5, 0.5, 0.5], [0.5, -0.5, 0.5], [0.5, 0.5, -0.5]])
_FCC = np.array([[0., 0.5, 0.5], [0.5, 0., 0.5], [0.5, 0.5, 0.]])
_HEX = np.array([[0.5, 0.5, 0.], [-s3 / 2, s3 / 2, 0.], [0., 0., 1.]])
_b100 = math.radians(100.)


def _scale(L, abc):
    """scale Cartesian axes x,y,z of lattice L (columns = vectors) by a,b,c"""
    return np.array(abc, dtype=float)[:, None] * np.array(L, dtype=float)


# ---- the 14 three-dimensional Bravais lattice types, fixed generic parameters (columns = lattice vectors)
BRAVAIS3 = {
    'aP': np.array([[1., 0.21, 0.17], [0., 1.1, 0.33], [0., 0., 1.23]]),
    'mP': np.array([[1., 0., 1.2 * math.cos(_b100)], [0., 1.1, 0.], [0., 0., 1.2 * math.sin(_b100)]]),
    'mC': np.array([[0.5, -0.5, 1.3 * math.cos(_b100)], [0.575, 0.575, 0.], [0., 0., 1.3 * math.sin(_b100)]]),
    'oP': np.diag([1., 1.1, 1.25]),
    'oC': np.array([[0.5, -0.5, 0.], [0.6, 0.6, 0.], [0., 0., 1.35]]),
    'oI': _scale(_BCC, (1., 1.1, 1.25)),
    'oF': _scale(_FCC, (1., 1.1, 1.25)),
    'tP': np.diag([1., 1., 1.2]),
    'tI': _scale(_BCC, (1., 1., 1.3)),
    'hR': np.array([[1., 0.3, 0.3], [0.3, 1., 0.3], [0.3, 0.3, 1.]]),
    'hP': np.dot(_HEX, np.diag([1., 1., 1.1])),
    'cP': np.eye(3),
    'cI': _BCC.copy(),
    'cF': _FCC.copy(),
}
# ---- the 5 two-dimensional Bravais lattice types
BRAVAIS2 = {
    'mp': np.array([[1., 0.3], [0., 1.1]]),
    'op': np.diag([1., 1.2]),
    'oc': np.array([[0.5, 0.5], [-0.65, 0.65]]),
    'tp': np.eye(2),
    'hp': np.array([[0.5, 0.5], [-s3 / 2, s3 / 2]]),
}
# extra re-description (not a 15th type): the hexagonal P lattice with a = sqrt 2, c = sqrt 3/4 (c/a = 0.612, all
# coordinates exact in binary) presented by a1, a2, c + a1 + a2.  All pairwise reductions a_i.a_j / a_i.a_i are exact
# ties (+-1/2), so a pairwise-only cell reduction leaves it as it is although c is much shorter than the third vector.
EXTRA3 = {'hP_skew': np.array([[1., -1., 0.5], [1., 0., 0.5], [0., 1., 1.5]])}
# order of the full lattice point group (holohedry) of each type: harness self-check of lattice_point_group
HOLOHEDRY_ORDER = {'aP': 2, 'mP': 4, 'mC': 4, 'oP': 8, 'oC': 8, 'oI': 8, 'oF': 8, 'tP': 16, 'tI': 16, 'hR': 12,
                   'hP': 24, 'hP_skew': 24, 'cP': 48, 'cI': 48, 'cF': 48, 'mp': 2, 'op': 4, 'oc': 4, 'tp': 8, 'hp': 12}
STRAINABLE = ('cP', 'cI', 'cF', 'hP', 'tp', 'hp')   # cubic / hexagonal members get the three small strains
STRAINS3 = {
    'e1': np.array([[0.01, 0., 0.], [0., 0., 0.], [0., 0., 0.]]),
    'e2': np.array([[0., 0.01, 0.], [0.01, 0., 0.], [0., 0., 0.]]),
    'e3': np.array([[0.01, 0.004, 0.002], [0.004, -0.006, 0.003], [0.002, 0.003, 0.005]]),
}
STRAINS2 = {
    'e1': np.array([[0.01, 0.], [0., 0.]]),
    'e2': np.array([[0., 0.01], [0.01, 0.]]),
    'e3': np.array([[0.01, 0.004], [0.004, -0.006]]),
}


def bravais(name, strain=None):
    """lattice (columns = vectors) of Bravais type `name`, optionally strained by the named small strain"""
    L = (BRAVAIS3[name] if name in BRAVAIS3 else EXTRA3[name] if name in EXTRA3 else BRAVAIS2[name]).copy()
    if strain:
        eps = (STRAINS3 if L.shape[0] == 3 else STRAINS2)[strain]
        L = np.dot(np.eye(L.shape[0]) + eps, L)
    return L


def lattice_names(dim):
    return list(BRAVAIS3) if dim == 3 else list(BRAVAIS2)


# ---- alphabets of the generated family
POS_LETTERS = (0., 0.25, 1. / 3., 0.5, 2. / 3., 0.75, 0.137)
POS_NAMES = ('0', '1/4', '1/3', '1/2', '2/3', '3/4', '.137')


def positions(dim, maxnonzero=None):
    """position alphabet POS_LETTERS^dim as tuples of letter indices, simplest (fewest non-zero letters) first;
    maxnonzero: deterministic cut -- keep positions with at most that many non-zero coordinates"""
    out = [p for p in itertools.product(range(len(POS_LETTERS)), repeat=dim)]
    out.sort(key=lambda p: (sum(1 for x in p if x), p))
    if maxnonzero is not None:
        out = [p for p in out if sum(1 for x in p if x) <= maxnonzero]
    return out


def pos_value(p):
    return np.array([POS_LETTERS[i] for i in p])


def pos_name(p):
    return '(' + ','.join(POS_NAMES[i] for i in p) + ')'


# spin patterns: name -> per-atom spin letters.  's+' / 's-' scalar +1 / -1, '+z','-z','+x','-x' unit vectors
SPIN_PATTERNS = {
    1: {'none': None, 's+': ['s+'], 'vz': ['+z'], 'vx': ['+x']},
    2: {'none': None, 's+-': ['s+', 's-'], 's++': ['s+', 's+'], 'vz+-': ['+z', '-z'], 'vz++': ['+z', '+z'],
        'vx+-': ['+x', '-x'], 'vx++': ['+x', '+x'], 'vzx': ['+z', '+x']},
    3: {'none': None, 's+-+': ['s+', 's-', 's+'], 's++-': ['s+', 's+', 's-'], 'vz+-x': ['+z', '-z', '+x'],
        'vx+-+': ['+x', '-x', '+x']},
}


def spin_value(letter, dim):
    if letter == 's+': return 1
    if letter == 's-': return -1
    sign = 1. if letter[0] == '+' else -1.
    v = np.zeros(dim)
    # in 2D the "z" letter is read as the second axis (there is no out-of-plane component in the package's model)
    v[{'x': 0, 'z': dim - 1}[letter[1]]] = sign
    return v


SPECIES_PATTERNS = {1: ['A'], 2: ['AA', 'AB'], 3: ['AAA', 'AAB', 'ABB']}


def decoration_inputs(dim, poslist, species, spinletters):
    """constructor arguments (basis, chemistry, spins) for a decoration: first atom at the origin, the others at
    poslist (letter-index tuples); species e.g. 'AB'; spinletters None or list of letters per atom.
    Atoms are grouped per species in the order given (the package's input format)."""
    allpos = [np.zeros(dim)] + [pos_value(p) for p in poslist]
    chems = sorted(set(species))
    basis = [[allpos[i] for i in range(len(allpos)) if species[i] == c] for c in chems]
    spins = None
    if spinletters is not None:
        spins = [[spin_value(spinletters[i], dim) for i in range(len(allpos)) if species[i] == c] for c in chems]
    return basis, chems, spins


# ---- lattice points
def lattice_points(L, r):
    """all integer vectors n with |L n| <= r (+1e-9).  n_i = b_i . x with b_i the rows of L^-1, hence
    |n_i| <= |b_i| r: the range comes from the reciprocal-lattice heights and is safe for skewed cells."""
    L = np.asarray(L, dtype=float)
    B = np.linalg.inv(L)
    nmax = [int(math.floor(np.linalg.norm(B[i]) * r + 1e-9)) for i in range(L.shape[0])]
    grid = np.array(list(itertools.product(*[range(-n, n + 1) for n in nmax])), dtype=int)
    x = np.dot(grid, L.T)
    keep = np.sum(x * x, axis=1) <= (r + 1e-9) ** 2
    return grid[keep]


def lattice_point_group(L, tol=1e-8):
    """all integer matrices M with M^T g M = g (g = L^T L): candidates for column i are ALL lattice points of
    the length of a_i (not just coefficients in {-1,0,1})."""
    L = np.asarray(L, dtype=float)
    dim = L.shape[0]
    g = np.dot(L.T, L)
    cands = []
    for i in range(dim):
        ai = math.sqrt(g[i, i])
        pts = lattice_points(L, ai * (1 + 1e-6) + 1e-6)
        n2 = np.einsum('ni,ij,nj->n', pts, g, pts)
        cands.append(pts[np.abs(n2 - g[i, i]) < tol])
    out = []
    for cols in itertools.product(*cands):
        M = np.array(cols, dtype=int).T
        if abs(abs(round(np.linalg.det(M))) - 1) > 0: continue
        if np.all(np.abs(np.dot(M.T, np.dot(g, M)) - g) < tol): out.append(M)
    return out


def _wrap(d):
    """difference modulo the lattice, into [-1/2, 1/2)"""
    return d - np.floor(d + 0.5)


def flatten(basis, spins=None):
    """flat arrays from the package's list-of-lists layout: positions (N,dim), species (N,), spins list or None,
    index (c,i) per flat atom"""
    pos, spec, sp, idx = [], [], [], []
    for c, atoms in enumerate(basis):
        for i, u in enumerate(atoms):
            pos.append(np.asarray(u, dtype=float)); spec.append(c); idx.append((c, i))
            if spins is not None: sp.append(spins[c][i])
    return np.array(pos), np.array(spec), (sp if spins is not None else None), idx


def _spin_image(s, cartrot):
    """how a spin is carried by an operation, before the phase: scalars unchanged, vectors rotated"""
    if np.ndim(s) == 0: return s
    return np.dot(cartrot, s)


def atom_map(L, pos, spec, spins, rot, trans, tol=1e-8, phases=(1, -1)):
    """brute force: permutation p with rot.u_i + trans = u_p[i] (mod lattice), same species, and spins
    s_p[i] = phase * image(s_i) for ONE phase of `phases` (the package's documented spin rule).
    Returns (perm, phase) or (None, None)."""
    N = len(pos)
    img = np.dot(pos, np.asarray(rot).T) + trans
    d = _wrap(img[:, None, :] - pos[None, :, :])            # (i, k)
    close = np.all(np.abs(d) < tol, axis=2) & (spec[:, None] == spec[None, :])
    perm = []
    for i in range(N):
        ks = np.nonzero(close[i])[0]
        if len(ks) != 1: return None, None
        perm.append(int(ks[0]))
    if sorted(perm) != list(range(N)): return None, None
    if spins is None: return perm, 1
    cartrot = np.dot(L, np.dot(rot, np.linalg.inv(L)))
    for ph in phases:
        ok = True
        for i in range(N):
            a, b = spins[perm[i]], ph * _spin_image(spins[i], cartrot)
            if np.ndim(a) != np.ndim(b) or not np.allclose(a, b, atol=tol, rtol=0): ok = False; break
        if ok: return perm, ph
    return None, None


def brute_group(L, basis, spins=None, tol=1e-8, phases=(1, -1), pointgroup=None):
    """the complete space group (modulo lattice translations) of the decorated crystal by brute force:
    every lattice point-group matrix x every translation that carries atom 0 onto an atom of its species.
    Returns list of dicts {rot, trans (wrapped into [0,1)), perm (flat), phase}."""
    L = np.asarray(L, dtype=float)
    pos, spec, sp, idx = flatten(basis, spins)
    PG = lattice_point_group(L, tol) if pointgroup is None else pointgroup
    out = []
    for M in PG:
        r0 = np.dot(M, pos[0])
        seen = []
        for j in range(len(pos)):
            if spec[j] != spec[0]: continue
            t = pos[j] - r0
            t = t - np.floor(t + 1e-9)
            if any(np.all(np.abs(_wrap(t - t2)) < tol) for t2 in seen): continue
            seen.append(t)
            # with spins one rotation+translation can be a symmetry for one phase only; try all, keep first
            perm, ph = atom_map(L, pos, spec, sp, M, t, tol, phases)
            if perm is not None:
                out.append({'rot': M, 'trans': t, 'perm': perm, 'phase': ph})
    return out


def orbits(n, perms):
    """union-find: orbits of range(n) under the permutations (lists p with i -> p[i])"""
    parent = list(range(n))

    def find(a):
        while parent[a] != a:
            parent[a] = parent[parent[a]]; a = parent[a]
        return a
    for p in perms:
        for i, j in enumerate(p):
            a, b = find(i), find(j)
            if a != b: parent[max(a, b)] = min(a, b)
    cl = {}
    for i in range(n): cl.setdefault(find(i), []).append(i)
    return sorted(tuple(v) for v in cl.values())


def cartrot_of(L, rot):
    return np.dot(L, np.dot(rot, np.linalg.inv(L)))


def point_orbit(L, ops, u, tol=1e-8):
    """orbit of the direct-coordinate point u under ops (list of (rot, trans)), as distinct points mod lattice"""
    out = []
    for rot, trans in ops:
        v = np.dot(rot, u) + trans
        if not any(np.all(np.abs(_wrap(v - w)) < tol) for w in out): out.append(v - np.floor(v + tol))
    return out


# ---- Reynolds projectors
def reynolds_vector(cartrots):
    """projector onto the vectors left invariant by all the orthogonal matrices (a group): the group average"""
    return sum(np.asarray(R, dtype=float) for R in cartrots) / len(cartrots)


def symtensor_basis(dim):
    """orthonormal (Frobenius) basis of the symmetric dim x dim tensors"""
    out = []
    for a in range(dim):
        E = np.zeros((dim, dim)); E[a, a] = 1.; out.append(E)
    for a in range(dim):
        for b in range(a + 1, dim):
            E = np.zeros((dim, dim)); E[a, b] = E[b, a] = 1. / math.sqrt(2.); out.append(E)
    return out


def reynolds_symtensor(cartrots):
    """projector (in the symtensor_basis coordinates) onto symmetric tensors with R T R^T = T for all R"""
    dim = np.asarray(cartrots[0]).shape[0]
    B = symtensor_basis(dim)
    P = np.zeros((len(B), len(B)))
    for R in cartrots:
        for j, Ej in enumerate(B):
            T = np.dot(R, np.dot(Ej, np.transpose(R)))
            for i, Ei in enumerate(B): P[i, j] += np.sum(Ei * T)
    return P / len(cartrots)


def symtensor_coords(T):
    return np.array([np.sum(E * T) for E in symtensor_basis(np.asarray(T).shape[0])])


def reynolds_field(perms, cartrots, nsite):
    """projector onto the invariant vector fields on nsite sites: (g v)[p(i)] = R v[i]; flat index i*dim+a"""
    dim = np.asarray(cartrots[0]).shape[0]
    P = np.zeros((nsite * dim, nsite * dim))
    for p, R in zip(perms, cartrots):
        for i in range(nsite):
            P[p[i] * dim:(p[i] + 1) * dim, i * dim:(i + 1) * dim] += R
    return P / len(perms)


def projector_of(vectors, size):
    """sum_k v_k v_k^T of flattened vectors"""
    P = np.zeros((size, size))
    for v in vectors:
        f = np.asarray(v, dtype=float).reshape(-1)
        P += np.outer(f, f)
    return P


def gram(vectors):
    F = np.array([np.asarray(v, dtype=float).reshape(-1) for v in vectors])
    return np.dot(F, F.T)


# ---- finite matrix groups: subgroup lattice by closure
def _mkey(M, nd=6):
    return tuple(int(x) for x in np.round(np.asarray(M, dtype=float).reshape(-1) * 10 ** nd))


def mult_table(mats):
    """table[i][j] = index of mats[i].mats[j]; raises KeyError when the list is not closed"""
    index = {_mkey(M): i for i, M in enumerate(mats)}
    if len(index) != len(mats): raise ValueError('duplicate matrices')
    return [[index[_mkey(np.dot(A, B))] for B in mats] for A in mats]


def _closure(gens, table, ident):
    S = {ident} | set(gens)
    frontier = list(S)
    while frontier:
        a = frontier.pop()
        for b in list(S):
            for c in (table[a][b], table[b][a]):
                if c not in S: S.add(c); frontier.append(c)
    return frozenset(S)


def all_subgroups(mats):
    """every subgroup of the finite matrix group `mats` (as frozensets of indices), by closure: cyclic groups
    first, then repeatedly subgroup + one more element until nothing new appears (this is complete: every
    subgroup is reached by adding its elements one at a time).  Sorted by (order, members)."""
    table = mult_table(mats)
    n = len(mats)
    ident = next(i for i in range(n) if all(table[i][j] == j for j in range(n)))
    subs = set()
    for i in range(n): subs.add(_closure([i], table, ident))
    for i in range(n):
        for j in range(i + 1, n): subs.add(_closure([i, j], table, ident))     # all generator pairs
    pairs_only = len(subs)
    work = list(subs)
    while work:
        H = work.pop()
        for g in range(n):
            if g in H: continue
            K = _closure(list(H) + [g], table, ident)
            if K not in subs: subs.add(K); work.append(K)
    out = sorted(subs, key=lambda H: (len(H), sorted(H)))
    return out, pairs_only


# ---- supercells
def hnf_matrices(dim, det):
    """all (column-style, lower-triangular) Hermite normal forms of the given determinant:
    3D counts 7, 13, 35, 31, 91 for det 2..6; 2D counts 3, 4, 7, 6, 12"""
    out = []
    if dim == 2:
        for a in range(1, det + 1):
            if det % a: continue
            c = det // a
            for b in range(c): out.append(np.array([[a, 0], [b, c]], dtype=int))
    else:
        for a in range(1, det + 1):
            if det % a: continue
            for c in range(1, det // a + 1):
                if (det // a) % c: continue
                f = det // a // c
                for b in range(c):
                    for d in range(f):
                        for e in range(f): out.append(np.array([[a, 0, 0], [b, c, 0], [d, e, f]], dtype=int))
    return out


def supercell_description(L, basis, S):
    """(lattice, basis) of the same crystal described in the supercell L.S (S integer, det>0), built from the
    definition: every atom u + n for the det(S) integer translations n that are inequivalent modulo S"""
    L = np.asarray(L, dtype=float); S = np.asarray(S, dtype=int)
    dim = L.shape[0]
    det = int(round(abs(np.linalg.det(S))))
    Sinv = np.linalg.inv(S)
    # coset representatives of Z^dim / S Z^dim: integer points n with S^-1 n in [0,1)^dim
    rng = range(-det, det + 1)
    reps = []
    for n in itertools.product(rng, repeat=dim):
        f = np.dot(Sinv, n)
        if np.all(f > -1e-9) and np.all(f < 1 - 1e-9): reps.append(np.array(n))
    if len(reps) != det: raise RuntimeError('harness: {} coset representatives for det {}'.format(len(reps), det))
    newbasis = []
    for atoms in basis:
        lis = []
        for n in reps:
            for u in atoms:
                v = np.dot(Sinv, np.asarray(u) + n)
                lis.append(v - np.floor(v + 1e-12))
        newbasis.append(lis)
    return np.dot(L, S), newbasis


def rebase(L, basis, U):
    """the same crystal in the lattice basis L.U (U unimodular integer): positions U^-1 u"""
    Uinv = np.linalg.inv(np.asarray(U, dtype=float))
    return np.dot(L, U), [[(lambda v: v - np.floor(v + 1e-12))(np.dot(Uinv, u)) for u in atoms] for atoms in basis]


REBASES3 = [np.eye(3, dtype=int), np.array([[1, 1, 0], [0, 1, 1], [0, 0, 1]]), np.array([[0, 1, 0], [1, 0, -1], [0, 0, 1]])]
REBASES2 = [np.eye(2, dtype=int), np.array([[1, 1], [0, 1]]), np.array([[0, 1], [1, -1]])]


def opdesc(L, rot, trans, nd=3):
    """hash-seed independent geometric description of an operation: rounded Cartesian rotation + translation
    wrapped into the cell (direct coordinates)"""
    R = cartrot_of(np.asarray(L, dtype=float), np.asarray(rot, dtype=float))
    t = np.asarray(trans, dtype=float)
    t = t - np.floor(t + 1e-6)
    f = lambda x: ('{:.' + str(nd) + 'f}').format(x + 0.0 if abs(x) > 0.5 * 10 ** (-nd) else 0.0)
    return 'R=[' + ';'.join(','.join(f(x) for x in row) for row in R) + ']t=(' + ','.join(f(x) for x in t) + ')'
