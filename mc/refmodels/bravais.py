"""
R-geom helpers for C21 (jump networks) and C22 (k-point meshes): boring brute-force lattice geometry.

Nothing in here calls into onsager.  Everything takes plain arrays:
    latt   (dim x dim) lattice vectors as COLUMNS (onsager convention)
    basis  list (per species) of lists of unit-cell coordinates

Lattice-point enumeration is always done in a range computed from the reciprocal-lattice heights:
for x = latt.n one has n_i = b_i.x with b_i the i-th ROW of inv(latt), hence |n_i| <= |b_i| |x|.  That bound
is valid for any (arbitrarily skewed) description of the lattice.
"""
import itertools
import numpy as np

s3 = np.sqrt(3.)
A = np.array


# ------------------------------------------------------------------------------ lattice points
def nbound(latt, r, offset=None):
    """per-axis integer bound N_i such that every n with |latt.(n+offset)| <= r has |n_i| <= N_i"""
    binv = np.linalg.inv(latt)
    h = np.sqrt(np.sum(binv * binv, axis=1))        # |b_i| = 1/height_i
    off = np.zeros(latt.shape[0]) if offset is None else np.abs(np.asarray(offset, dtype=float))
    return [int(np.floor(r * h[i] + off[i] + 1e-9)) + 1 for i in range(latt.shape[0])]


def lattice_points(latt, r, offset=None, eps=1e-9):
    """all integer vectors n (rows) with |latt.(n+offset)| <= r(1+eps), and the Cartesian vectors latt.(n+offset)"""
    dim = latt.shape[0]
    N = nbound(latt, r, offset)
    grids = np.meshgrid(*[np.arange(-n, n + 1) for n in N], indexing='ij')
    n = np.stack([g.ravel() for g in grids], axis=1)
    off = np.zeros(dim) if offset is None else np.asarray(offset, dtype=float)
    x = np.dot(n + off[None, :], latt.T)
    d2 = np.sum(x * x, axis=1)
    keep = d2 <= (r * (1 + eps)) ** 2
    return n[keep], x[keep]


def distinct_sorted(values, tol=1e-7):
    """sorted distinct values (merge anything closer than tol to the previous kept value)"""
    out = []
    for v in sorted(values):
        if not out or v - out[-1] > tol: out.append(float(v))
    return out


def vkey(x, nd=6):
    """hash-seed independent key of a Cartesian vector (rounded, -0.0 normalised)"""
    return tuple(float(v) + 0.0 for v in np.round(np.asarray(x, dtype=float), nd) + 0.0)


class UnionFind:
    def __init__(self, items):
        self.p = {i: i for i in items}

    def find(self, a):
        p = self.p
        while p[a] != a:
            p[a] = p[p[a]]
            a = p[a]
        return a

    def union(self, a, b):
        ra, rb = self.find(a), self.find(b)
        if ra != rb: self.p[rb] = ra

    def classes(self):
        d = {}
        for i in self.p: d.setdefault(self.find(i), set()).add(i)
        return set(frozenset(s) for s in d.values())


# ------------------------------------------------------------------------------ jumps (C21)
def neighbour_distances(latt, basis_c, nshell, rstart=None):
    """sorted distinct distances between atoms of one species (all pairs i,j and all lattice vectors), at least
    nshell of them.  The search radius is doubled until nshell distinct values lie strictly inside it."""
    r = rstart if rstart is not None else 1.5 * min(np.linalg.norm(latt[:, i]) for i in range(latt.shape[0]))
    while True:
        ds = []
        for u0 in basis_c:
            for u1 in basis_c:
                n, x = lattice_points(latt, r, offset=np.asarray(u1) - np.asarray(u0))
                d = np.sqrt(np.sum(x * x, axis=1))
                ds.extend(d[d > 1e-8].tolist())
        dd = [d for d in distinct_sorted(ds) if d < r * (1 - 1e-6)]
        if len(dd) >= nshell: return dd[:nshell]
        r *= 1.5


def brute_jumps(latt, basis_c, cutoff):
    """dict key -> (i, j, dx, R) of all jumps i -> j (+R) of one species with 0 < |dx| < cutoff,
    dx = latt.(R + u_j - u_i)"""
    out = {}
    for i, u0 in enumerate(basis_c):
        for j, u1 in enumerate(basis_c):
            du = np.asarray(u1) - np.asarray(u0)
            n, x = lattice_points(latt, cutoff, offset=du)
            d2 = np.sum(x * x, axis=1)
            for nn, xx, dd in zip(n, x, d2):
                if dd > 1e-16 and dd < cutoff * cutoff:
                    out[(i, j) + vkey(xx)] = (i, j, xx, nn)
    return out


def perp_table(latt, basis, chem, jumps):
    """for every jump and every atom of another species whose perpendicular foot lies inside the closed
    jump segment: (species, perpendicular distance, lattice vector n, endpoint flag).  The atom sits at
    latt.(n + u_atom - u_i) relative to the start site i of the jump; the endpoint flag is set when the foot
    coincides with the start or end site (t = 0 or 1 to 1e-9), i.e. when a strict comparison in floating point
    could go either way.  Returns dict jumpkey -> list of such tuples.
    Atoms are enumerated within |x - midpoint| <= |dx|/2 + dmax, dmax = longest jump: complete for every
    obstruction distance <= dmax (stated bound)."""
    table = {}
    if not jumps: return table
    dmax = max(np.linalg.norm(v[2]) for v in jumps.values())
    inv = np.linalg.inv(latt)
    for k, (i, j, dx, R) in jumps.items():
        lst = []
        L2 = float(np.dot(dx, dx))
        L = np.sqrt(L2)
        ui = np.asarray(basis[chem][i])
        mid_u = np.dot(inv, 0.5 * dx)
        for c, bc in enumerate(basis):
            if c == chem: continue
            for u0 in bc:
                # positions relative to the start of the jump: latt.(n + u0 - ui); the search is centred on the midpoint
                n, x = lattice_points(latt, 0.5 * L + dmax, offset=np.asarray(u0) - ui - mid_u)
                xr = x + 0.5 * dx[None, :]       # relative to the start site
                t = np.dot(xr, dx) / L2
                inside = (t >= -1e-9) & (t <= 1 + 1e-9)
                d2 = np.sum(xr * xr, axis=1) - t * t * L2
                for nn, tt, dd in zip(n[inside], t[inside], d2[inside]):
                    lst.append((c, float(np.sqrt(max(dd, 0.))), tuple(int(v) for v in nn),
                                bool(abs(tt) < 1e-9 or abs(tt - 1) < 1e-9)))
        table[k] = lst
    return table


# ------------------------------------------------------------------------------ unimodular re-descriptions
def unimodular_small(dim):
    """ALL dim x dim integer matrices with entries in {-1,0,1} and det = +1, in lexicographic order"""
    out = []
    for ent in itertools.product((-1, 0, 1), repeat=dim * dim):
        M = np.array(ent, dtype=int).reshape(dim, dim)
        if round(np.linalg.det(M)) == 1: out.append(M)
    return out


def unitriangular(dim, lower=False, entries=(0, 1, -1)):
    """all upper (or lower) unitriangular matrices with off-diagonal entries from `entries` (identity first)"""
    out = []
    idx_u = [(i, j) for i in range(dim) for j in range(dim) if i < j]
    for ent in itertools.product(entries, repeat=len(idx_u)):
        M = np.eye(dim, dtype=int)
        for (i, j), e in zip(idx_u, ent):
            if lower: M[j, i] = e
            else: M[i, j] = e
        out.append(M)
    return out


# larger shears and dense matrices (det +1), fixed lists
BIG2 = [A([[1, 3], [0, 1]]), A([[1, 0], [2, 1]]), A([[1, 2], [0, 1]]), A([[2, 1], [1, 1]]), A([[1, -3], [0, 1]]),
        A([[2, 3], [1, 2]])]
BIG3 = [A([[1, 2, 0], [0, 1, 2], [0, 0, 1]]), A([[1, 3, 0], [0, 1, 0], [0, 0, 1]]), A([[1, 0, 0], [0, 1, 0], [2, 2, 1]]),
        A([[1, 0, 0], [2, 1, 0], [0, 0, 1]]), A([[2, 1, 0], [1, 1, 0], [0, 0, 1]]), A([[1, 1, 1], [0, 1, 1], [1, 1, 2]]),
        A([[1, 0, -3], [0, 1, 0], [0, 0, 1]])]


def mkey(M):
    return '[' + ','.join('[' + ','.join(str(int(v)) for v in row) + ']' for row in np.asarray(M)) + ']'


def mparse(s):
    import json
    return np.array(json.loads(s), dtype=int)


def redescriptions(dim, tier):
    """the listed (not sampled) re-description matrices, identity first.
    quick: identity + the cyclic elementary shears E_{i,i+1}(+1), one E_ij(-1), the first four of the big list;
    thorough: every upper unitriangular matrix with entries in {-1,0,1} (3D: 27), every lower unitriangular one with
    entries in {0,1} (3D: 8), in 2D additionally every {-1,0,1} matrix of determinant +1, plus the whole big list."""
    big = BIG2 if dim == 2 else BIG3
    ident = np.eye(dim, dtype=int)
    out = [ident]
    if tier == 'quick':
        for i in range(dim):
            M = ident.copy(); M[i, (i + 1) % dim] = 1; out.append(M)      # E_01, E_12, E_20 (2D: E_01, E_10)
        M = ident.copy(); M[0, dim - 1] = -1; out.append(M)
        out += big[:4]
    else:
        out += unitriangular(dim)[1:] + unitriangular(dim, lower=True, entries=(0, 1))[1:]
        if dim == 2: out += unimodular_small(2)
        out += big
    seen, res = set(), []
    for M in out:
        assert round(np.linalg.det(M)) == 1
        k = mkey(M)
        if k not in seen:
            seen.add(k); res.append(M)
    return res


# ------------------------------------------------------------------------------ Bravais table (C22)
def _hex(ca):
    return np.dot(A([[0.5, 0.5, 0.], [-s3 / 2, s3 / 2, 0.], [0., 0., 1.]]), np.diag([1., 1., ca]))


_FCCL = A([[0., 0.5, 0.5], [0.5, 0., 0.5], [0.5, 0.5, 0.]])
_BCCL = A([[-0.5, 0.5, 0.5], [0.5, -0.5, 0.5], [0.5, 0.5, -0.5]])
_b100 = np.radians(100.)

# name: primitive lattice vectors as columns; fixed generic parameters b/a = 1.1, c/a = 1.25 (1.2, 1.3 tetragonal),
# beta = 100 deg.  The 14 three-dimensional Bravais types, then variants with a different zone topology.
BRAVAIS3 = {
    'cP': np.eye(3),
    'cF': _FCCL,
    'cI': _BCCL,
    'tP': np.diag([1., 1., 1.2]),
    'tI': _BCCL * A([1., 1., 1.3])[:, None],
    'oP': np.diag([1., 1.1, 1.25]),
    'oC': A([[0.5, 0.5, 0.], [-0.55, 0.55, 0.], [0., 0., 1.25]]),
    'oI': _BCCL * A([1., 1.1, 1.25])[:, None],
    'oF': _FCCL * A([1., 1.1, 1.25])[:, None],
    'hP': _hex(1.1),
    'hR': A([[1., 0.3, 0.3], [0.3, 1., 0.3], [0.3, 0.3, 1.]]),
    'mP': A([[1., 0., 1.2 * np.cos(_b100)], [0., 1.1, 0.], [0., 0., 1.2 * np.sin(_b100)]]),
    'mC': A([[0.5, 0.5, 1.2 * np.cos(_b100)], [-0.55, 0.55, 0.], [0., 0., 1.2 * np.sin(_b100)]]),
    'aP': A([[1., 0.21, 0.17], [0., 1.1, 0.33], [0., 0., 1.23]]),
}
BRAVAIS3_VARIANTS = {
    'tI_flat': _BCCL * A([1., 1., 0.8])[:, None],            # c/a < 1
    'tI_tall': _BCCL * A([1., 1., 1.7])[:, None],            # c/a > sqrt(2)
    'hR_obtuse': A([[1., -0.25, -0.25], [-0.25, 1., -0.25], [-0.25, -0.25, 1.]]),
    'hP_flat': _hex(0.7),
    'aP_obtuse': A([[1., -0.31, 0.27], [0., 1.1, -0.43], [0., 0., 1.23]]),
    'aP_flat': A([[1., 0.45, 0.4], [0., 0.95, 0.47], [0., 0., 0.8]]),
    'mC_wide': A([[0.5, 0.5, 1.2 * np.cos(np.radians(115.))], [-0.8, 0.8, 0.], [0., 0., 1.2 * np.sin(np.radians(115.))]]),
}
BRAVAIS2 = {
    'sq': np.eye(2),
    'rect': np.diag([1., 1.2]),
    'crect': A([[0.5, 0.5], [-0.65, 0.65]]),
    'hex': A([[0.5, 0.5], [-s3 / 2, s3 / 2]]),
    'obl': A([[1., 0.3], [0., 1.1]]),
}
BRAVAIS2_VARIANTS = {
    'obl_obtuse': A([[1., -0.45], [0., 1.05]]),
    'crect_flat': A([[0.5, 0.5], [-0.4, 0.4]]),
}


def bravais(name):
    for t in (BRAVAIS3, BRAVAIS3_VARIANTS, BRAVAIS2, BRAVAIS2_VARIANTS):
        if name in t: return t[name].copy()
    raise KeyError(name)


# ------------------------------------------------------------------------------ Brillouin zone (C22)
def recip(latt):
    return 2. * np.pi * np.linalg.inv(latt).T


def holohedry(latt, tol=1e-8):
    """all Cartesian orthogonal matrices mapping the lattice onto itself, by brute force: every lattice vector of
    the right length is tried as the image of each basis vector; the Gram matrix decides"""
    dim = latt.shape[0]
    lens = [np.linalg.norm(latt[:, i]) for i in range(dim)]
    n, x = lattice_points(latt, max(lens) * (1 + 1e-6))
    d = np.sqrt(np.sum(x * x, axis=1))
    cands = [[xx for xx, dd in zip(x, d) if abs(dd - lens[i]) < tol] for i in range(dim)]
    gram = np.dot(latt.T, latt)
    inv = np.linalg.inv(latt)
    ops = []
    for tup in itertools.product(*cands):
        img = np.array(tup).T
        if np.max(np.abs(np.dot(img.T, img) - gram)) < tol:
            ops.append(np.dot(img, inv))
    return ops


def relevant_margins(B):
    """for every non-zero vector K of the lattice B (columns) within the safe radius sum_i |b_i| (twice the
    bound 1/2 sum|b_i| on the covering radius; every Voronoi-relevant vector is shorter than that):
       margin(K) = min over K' not in {0, K} of (K'.K' - K.K') / |K|^2
    K is Voronoi-relevant (defines a face of the Brillouin zone) iff margin > 0; margin == 0 are ties
    (K/2 lies on an edge/vertex of the zone), margin < 0 are not relevant.  Returns list of (n, K, margin)."""
    dim = B.shape[0]
    rad = sum(np.linalg.norm(B[:, i]) for i in range(dim))
    n, K = lattice_points(B, rad)
    nz = np.any(n != 0, axis=1)
    n, K = n[nz], K[nz]
    K2 = np.sum(K * K, axis=1)
    out = []
    for a in range(len(K)):
        m = K2 - np.dot(K, K[a])
        m[a] = np.inf
        out.append((n[a], K[a], float(np.min(m) / K2[a])))
    return out


def outside_bz(k, B, rtol=1e-9):
    """brute force: the largest excess (k.K - K.K/2)/|K|^2 over every non-zero reciprocal lattice vector K that can
    possibly be closer to k than the origin is (|K| <= 2|k|); > rtol means k is outside the closed zone.
    Returns (excess, K)"""
    kk = np.linalg.norm(k)
    if kk == 0: return 0., None
    n, K = lattice_points(B, 2 * kk * (1 + 1e-6))
    nz = np.any(n != 0, axis=1)
    K = K[nz]
    if len(K) == 0: return 0., None
    K2 = np.sum(K * K, axis=1)
    ex = (np.dot(K, k) - 0.5 * K2) / K2
    a = int(np.argmax(ex))
    return float(ex[a]), K[a]


def shells(latt, rmax, rots, tol=1e-7):
    """non-zero lattice vectors up to |R| <= rmax grouped into orbits under the Cartesian rotations `rots`
    (union-find; -R is NOT added: cos is even anyway).  Returns list of arrays (one per orbit), sorted by
    (length, key of the smallest member)."""
    n, x = lattice_points(latt, rmax)
    nz = np.any(n != 0, axis=1)
    x = x[nz]
    keys = [vkey(v) for v in x]
    index = {k: i for i, k in enumerate(keys)}
    uf = UnionFind(range(len(x)))
    for R in rots:
        y = np.dot(x, np.asarray(R).T)
        for i, v in enumerate(y):
            j = index.get(vkey(v))
            if j is None:
                raise RuntimeError('shell not closed: rotation takes a lattice vector of length <= rmax off the list')
            uf.union(i, j)
    out = [x[sorted(c)] for c in uf.classes()]
    out.sort(key=lambda s: (round(float(np.linalg.norm(s[0])), 6), min(vkey(v) for v in s)))
    return out


def point_group(latt, basis, tol=1e-6):
    """Cartesian rotations of the space group of (latt, basis), by brute force: every element Q of the holohedry is
    kept iff some translation maps every atom onto an atom of the same species (modulo lattice vectors)"""
    inv = np.linalg.inv(latt)
    ops = []
    u00 = np.asarray(basis[0][0], dtype=float)
    for Q in holohedry(latt):
        Qu = np.dot(inv, np.dot(Q, latt))          # the operation in unit-cell coordinates
        ok = False
        for target in basis[0]:
            t = np.asarray(target, dtype=float) - np.dot(Qu, u00)
            good = True
            for bc in basis:
                for u in bc:
                    v = np.dot(Qu, np.asarray(u, dtype=float)) + t
                    if not any(np.all(np.abs((v - w) - np.round(v - w)) < tol) for w in bc):
                        good = False; break
                if not good: break
            if good: ok = True; break
        if ok: ops.append(Q)
    return ops
