"""
R-occ / R-geom helpers for the supercell checks C27, C29, C30.

Everything here is deliberately "boring": plain dictionaries, brute-force matching of positions,
brute-force enumeration of lattice vectors.  Nothing is taken from the Supercell object except the
arrays it exposes as observables (pos, occ, chemorder, G) -- those are what is being compared.
"""
import itertools, re
import numpy as np

TOL = 1e-8          # position matching, supercell direct coordinates (sites are >= 1e-2 apart)


# --------------------------------------------------------------------------- geometry
def wrap(u):
    """u modulo 1 into [-0.5, 0.5) (difference vectors)"""
    u = np.asarray(u, dtype=float)
    return u - np.floor(u + 0.5)


def same_mod1(u, v, tol=TOL):
    return bool(np.all(np.abs(wrap(np.asarray(u) - np.asarray(v))) < tol))


def independent_sites(crys, superlatt):
    """
    All sites of the supercell from the definition: (c, i, R) with R running over one representative
    of every coset Z^3 / superlatt.Z^3; returns list of ((c, i), R tuple, position in supercell
    direct coordinates modulo 1).  Cosets are found by brute force: enumerate R in a box, keep the
    first R of every distinct inv(superlatt).R modulo 1.
    """
    S = np.array(superlatt, dtype=float)
    Sinv = np.linalg.inv(S)
    size = abs(int(round(np.linalg.det(S))))
    nmax = int(np.abs(np.array(superlatt)).sum())       # box big enough to hit every coset
    reps, seen = [], set()
    # simplest representatives first (sorted by |R|_1, then lexicographically): deterministic
    box = sorted(itertools.product(range(-nmax, nmax + 1), repeat=3), key=lambda R: (sum(abs(x) for x in R), R))
    for R in box:
        f = np.dot(Sinv, R)
        k = tuple(int(round(x)) % size for x in f * size)    # size*inv(S) is an integer matrix: exact coset label
        if k not in seen:
            seen.add(k)
            reps.append((R, f - np.floor(f + TOL)))
            if len(reps) == size: break
    if len(reps) != size:
        raise RuntimeError('refmodel: found {} cosets for a supercell of size {}'.format(len(reps), size))
    out = []
    for R, f in reps:
        for c, ulist in enumerate(crys.basis):
            for i, u in enumerate(ulist):
                p = np.dot(Sinv, np.array(R) + u)
                out.append(((c, i), R, p - np.floor(p)))
    return out


def match_index(poslist, p, tol=TOL):
    """indices n with poslist[n] == p modulo 1"""
    d = np.abs(wrap(np.asarray(poslist) - np.asarray(p)[None, :])).max(axis=1)
    return [int(n) for n in np.nonzero(d < tol)[0]]


def site_labels(sup):
    """
    For every site index of the real supercell: the crystal atom (c, i) it is, decided by geometry
    (matching sup.pos against the independently generated site list).  Returns (labels, problems).
    """
    ref = independent_sites(sup.crys, sup.superlatt)
    labels, problems = [None] * len(sup.pos), []
    if len(ref) != len(sup.pos):
        problems.append('site count {} != N*size {}'.format(len(sup.pos), len(ref)))
    used = set()
    for ci, R, p in ref:
        m = match_index(sup.pos, p)
        if len(m) != 1:
            problems.append('reference site {} R={} matches supercell sites {}'.format(ci, R, m))
            continue
        if m[0] in used: problems.append('supercell site {} matched twice'.format(m[0]))
        used.add(m[0]); labels[m[0]] = ci
    return labels, problems


def geometric_perm(pos, rot, trans):
    """the site permutation induced by x -> rot.x + trans (supercell direct coordinates); None if it is not one"""
    perm = []
    for u in pos:
        m = match_index(pos, np.dot(rot, u) + trans)
        if len(m) != 1: return None
        perm.append(m[0])
    return perm if sorted(perm) == list(range(len(pos))) else None


def compatible_pointops(crys, superlatt):
    """number of operations of crys.G whose rotation maps the superlattice onto itself (brute force, float)"""
    S = np.array(superlatt, dtype=float)
    Sinv = np.linalg.inv(S)
    n = 0
    for g in crys.G:
        M = np.dot(Sinv, np.dot(g.rot, S))
        if np.all(np.abs(M - np.round(M)) < 1e-9): n += 1
    return n


def superlattice_images(lattice, nmax=3):
    """all non-zero superlattice vectors with coefficients in [-nmax, nmax] (Cartesian)"""
    return [np.dot(lattice, n) for n in itertools.product(range(-nmax, nmax + 1), repeat=lattice.shape[0]) if any(n)]


def image_status(lattice, dx, tol=1e-8):
    """'unique' | 'tied' | 'shorter': is dx its own (unique) minimum image in the lattice `lattice`?"""
    d2 = float(np.dot(dx, dx))
    status = 'unique'
    for T in superlattice_images(lattice):
        e2 = float(np.dot(dx - T, dx - T))
        if e2 < d2 - tol: return 'shorter'
        if e2 < d2 + tol: status = 'tied'
    return status


def in_superlattice(lattice, dx, tol=1e-8):
    c = np.linalg.solve(lattice, dx)
    return bool(np.all(np.abs(c - np.round(c)) < tol))


# --------------------------------------------------------------------------- R-occ
class ROcc:
    """dictionary model of a supercell occupation: {site: species} (-1 = empty) + per-species ordered lists"""

    def __init__(self, nsites, nchem):
        self.occ = {n: -1 for n in range(nsites)}
        self.order = [[] for _ in range(nchem)]

    @classmethod
    def of(cls, sup):
        m = cls(len(sup.occ), sup.Nchem)
        m.occ = {n: int(c) for n, c in enumerate(sup.occ)}
        m.order = [[int(i) for i in l] for l in sup.chemorder]
        return m

    def copy(self):
        m = ROcc(len(self.occ), len(self.order))
        m.occ = dict(self.occ); m.order = [list(l) for l in self.order]
        return m

    def set(self, i, c):
        old = self.occ[i]
        if old == c: return
        if old >= 0: self.order[old].remove(i)
        if c >= 0: self.order[c].append(i)
        self.occ[i] = c

    def sane(self):
        seen = {}
        for c, l in enumerate(self.order):
            for i in l:
                if i in seen or self.occ[i] != c: return False
                seen[i] = c
        return all((c == -1) == (i not in seen) for i, c in self.occ.items())

    def permuted(self, perm):
        """image under the site permutation i -> perm[i] (order lists carried along)"""
        m = ROcc(len(self.occ), len(self.order))
        for i, c in self.occ.items(): m.occ[perm[i]] = c
        m.order = [[perm[i] for i in l] for l in self.order]
        return m

    def reordered(self, mapping):
        m = self.copy()
        m.order = [[l[cm[i]] for i in range(len(l))] for l, cm in zip(self.order, mapping)]
        return m

    def occtuple(self):
        return tuple(self.occ[n] for n in range(len(self.occ)))

    def key(self):
        return (self.occtuple(), tuple(tuple(l) for l in self.order))

    def diff(self, ref):
        """{site: (species in ref, species here)} for the sites that differ"""
        return {n: (ref.occ[n], c) for n, c in self.occ.items() if ref.occ[n] != c}


def state_of(sup):
    return (tuple(int(x) for x in sup.occ), tuple(tuple(int(i) for i in l) for l in sup.chemorder))


def perfect_model(sup, labels):
    """the defect-free cell: every non-interstitial site holds its own species, interstitial sites are empty"""
    m = ROcc(len(sup.occ), sup.Nchem)
    for n, ci in enumerate(labels):
        if ci[0] not in sup.interstitial: m.set(n, ci[0])
    return m


def make_perfect(sup):
    """real supercell in the defect-free state (through the public API)"""
    s = sup.copy()
    for n in range(len(s.occ)): s.setocc(n, -1)
    for ci in s.crys.atomindices:
        if ci[0] not in s.interstitial: s.fillperiodic(ci, Wyckoff=False)
    return s


# --------------------------------------------------------------------------- tags
_DEF = re.compile(r'([isv]):([+-]\d+\.\d+),([+-]\d+\.\d+),([+-]\d+\.\d+)')


def parse_side(text):
    """'s:+0.000,+0.000,+0.000-v:+1.000,...' -> [('s', array), ('v', array)]"""
    out = [(m.group(1), np.array([float(m.group(k)) for k in (2, 3, 4)])) for m in _DEF.finditer(text)]
    # the whole text must be accounted for: defects joined by '-'
    rebuilt = '-'.join('{}:{:+06.3f},{:+06.3f},{:+06.3f}'.format(t, *u) for t, u in out)
    if rebuilt != text: raise ValueError('unparsable tag part {!r} (rebuilt {!r})'.format(text, rebuilt))
    return out


def parse_tag(tag):
    """
    -> {'kind': 'state'|'transition', 'jumptype': None|'omega0'|'omega1'|'omega2'|'i',
        'sides': [defects] or [defects_initial, defects_final]}
    Positions are unit-cell coordinates as printed (three decimals).
    """
    jumptype, body = None, tag
    if tag.startswith('omega'):
        jumptype, body = tag.split(':', 1)
    if '^' in body:
        a, b = body.split('^')
        return {'kind': 'transition', 'jumptype': jumptype or 'i', 'sides': [parse_side(a), parse_side(b)]}
    return {'kind': 'state', 'jumptype': None, 'sides': [parse_side(body)]}


def locate(crys, chem, u, tol=2e-3):
    """the crystal site ((chem, i), R) whose unit-cell coordinates are u to the printed precision"""
    hits = []
    for i, b in enumerate(crys.basis[chem]):
        R = np.round(u - b)
        if np.all(np.abs(u - b - R) < tol): hits.append(((chem, i), tuple(int(x) for x in R)))
    if len(hits) != 1: raise ValueError('tag position {} names sites {}'.format(u, hits))
    return hits[0]


def super_index(sup, ci, R):
    """index in the real supercell of crystal site (ci, R): by position, modulo the supercell"""
    p = np.linalg.solve(np.array(sup.superlatt, dtype=float), np.array(R) + sup.crys.basis[ci[0]][ci[1]])
    m = match_index(sup.pos, p)
    if len(m) != 1: raise ValueError('site {} R={} matches supercell sites {}'.format(ci, R, m))
    return m[0]


def cart(crys, ci, R):
    return np.dot(crys.lattice, np.array(R) + crys.basis[ci[0]][ci[1]])


# --------------------------------------------------------------------------- POSCAR
def read_poscar(text):
    """minimal independent POSCAR reader: (name, lattice with columns a_i, counts, positions array (direct))"""
    lines = text.split('\n')
    name = lines[0]
    scale = float(lines[1])
    latt = scale * np.array([[float(x) for x in lines[k].split()] for k in (2, 3, 4)]).T
    k = 5
    if not lines[k].split()[0].isdigit(): k += 1
    counts = [int(x) for x in lines[k].split()]
    k += 1
    if lines[k].strip()[0] in 'sS': k += 1
    if lines[k].strip()[0] not in 'dD': raise ValueError('POSCAR not in direct coordinates: {!r}'.format(lines[k]))
    k += 1
    pos = np.array([[float(x) for x in lines[k + n].split()[:3]] for n in range(sum(counts))]).reshape((sum(counts), 3))
    return name, latt, counts, pos
