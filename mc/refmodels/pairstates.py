"""
Reference model for solute-vacancy pair states (used by C24, C25, C26).

Deliberately boring and independent of onsager.crystalStars:

* a pair state is the plain tuple (i, j, R): solute at basis site i of the mobile sublattice in cell 0,
  vacancy at basis site j in cell R (R a tuple of ints); Cartesian dx = L (R + u_j - u_i);
* the jump network is a list of (i, j, R) "transition" tuples computed from ((i,j),dx) with own arithmetic;
* reachability is an explicit breadth-first search over vacancy moves;
* a space-group operation acts on (i, j, R) through its rot / trans / indexmap only:
      rot u_i + trans = u_{i'} + shift_i   (shift_i integer, checked),   g(i,j,R) = (i', j', rot R + shift_j - shift_i);
* orbits are union-find components under all operations; invariant vector spaces are images of the
  Reynolds (group average) projector.

Nothing here touches PairState, StarSet or VectorStarSet.  The only things read from the Crystal object are
lattice, basis[chem], and (rot, trans, indexmap) of every element of crys.G.  Cartesian rotations are
recomputed as L rot L^-1.  Operations are sorted into a hash-seed independent order.
"""
import numpy as np
import itertools, collections

TOL = 1e-6


class RefError(Exception):
    """the reference model could not be built (inconsistent input data): an explorer error, not a verdict"""


def rnd(x, nd=5):
    """rounded tuple for keys; -0.0 normalised"""
    return tuple(float(v) + 0.0 for v in np.round(np.asarray(x, dtype=float), nd) + 0.0)


class UnionFind:
    def __init__(self, items):
        self.p = {x: x for x in items}

    def find(self, x):
        p = self.p
        r = x
        while p[r] != r: r = p[r]
        while p[x] != r: p[x], x = r, p[x]
        return r

    def union(self, a, b):
        ra, rb = self.find(a), self.find(b)
        if ra != rb:
            if rb < ra: ra, rb = rb, ra     # smallest tuple is the root: canonical representative
            self.p[rb] = ra

    def classes(self):
        d = collections.defaultdict(list)
        for x in self.p: d[self.find(x)].append(x)
        return {r: sorted(v) for r, v in d.items()}


class PairModel:
    def __init__(self, crys, chem, jumpnetwork):
        self.dim = dim = crys.dim
        self.L = np.array(crys.lattice, dtype=float)
        self.Linv = np.linalg.inv(self.L)
        self.u = [np.array(x, dtype=float) for x in crys.basis[chem]]
        self.Ns = len(self.u)
        self.chem = chem
        # ---- jumps as (i, j, R); type = position of the symmetry class in the list that was handed in
        self.jumps, self.jumptype = [], {}
        for t, jl in enumerate(jumpnetwork):
            for (i, j), dx in jl:
                x = np.dot(self.Linv, np.asarray(dx, dtype=float)) - self.u[j] + self.u[i]
                R = np.round(x)
                if np.max(np.abs(x - R)) > TOL: raise RefError('jump ({},{}),{} is not a lattice transition'.format(i, j, dx))
                tr = (int(i), int(j), tuple(int(v) for v in R))
                if tr in self.jumptype: raise RefError('duplicate jump {}'.format(tr))
                self.jumps.append(tr); self.jumptype[tr] = t
        self.jumpsfrom = collections.defaultdict(list)
        for (i, j, R) in self.jumps: self.jumpsfrom[i].append((j, R))
        # ---- group operations, deterministic order
        ops = []
        for g in crys.G:
            rot = np.array(g.rot, dtype=int)
            trans = np.array(g.trans, dtype=float)
            im = tuple(int(k) for k in g.indexmap[chem])
            site, shift = [], []
            for i in range(self.Ns):
                x = np.dot(rot, self.u[i]) + trans - self.u[im[i]]
                s = np.round(x)
                if np.max(np.abs(x - s)) > TOL: raise RefError('group operation does not map site {} onto site {}'.format(i, im[i]))
                site.append(im[i]); shift.append(s.astype(int))
            cart = np.dot(self.L, np.dot(rot, self.Linv))
            if np.max(np.abs(np.dot(cart, cart.T) - np.eye(dim))) > TOL: raise RefError('non-orthogonal operation')
            ops.append((tuple(rot.flatten()), rnd(trans, 6), rot, site, shift, cart))
        ops.sort(key=lambda o: (o[0], o[1]))
        self.ops = [dict(rot=o[2], site=o[3], shift=o[4], cart=o[5]) for o in ops]
        self.nG = len(self.ops)

    # ---------------------------------------------------------------- geometry
    def dx(self, s):
        i, j, R = s
        return np.dot(self.L, np.array(R, dtype=float) + self.u[j] - self.u[i])

    def iszero(self, s):
        return s[0] == s[1] and not any(s[2])

    def zero(self, i):
        return (i, i, (0,) * self.dim)

    def neg(self, s):
        return (s[1], s[0], tuple(-v for v in s[2]))

    def add(self, s, jump):
        """state (i,j,R) followed by the vacancy jump (j,k,R') -> (i,k,R+R'); None if the jump does not start at j"""
        if s[1] != jump[0]: return None
        return (s[0], jump[1], tuple(a + b for a, b in zip(s[2], jump[2])))

    def enddiff(self, s1, s2):
        """difference state pointing from the vacancy of s1 to the vacancy of s2 (same solute site); else None"""
        if s1[0] != s2[0]: return None
        return (s1[1], s2[1], tuple(b - a for a, b in zip(s1[2], s2[2])))

    def act(self, n, s):
        o = self.ops[n]
        i, j, R = s
        gR = np.dot(o['rot'], np.array(R, dtype=int)) + o['shift'][j] - o['shift'][i]
        return (o['site'][i], o['site'][j], tuple(int(v) for v in gR))

    def desc(self, s):
        """hash-seed independent human-readable description of a state"""
        return '{}>{}:dx={}'.format(s[0], s[1], list(rnd(self.dx(s), 4)))

    # ---------------------------------------------------------------- reachability
    def reach(self, N, originstates=False):
        """non-zero states reachable by 1..N vacancy jumps from the solute site (+ origin states on request).
        Literal BFS over (solute site, vacancy position); paths may pass through the solute site."""
        out = set()
        frontier = set(self.zero(i) for i in range(self.Ns))
        for n in range(N):
            nxt = set()
            for s in frontier:
                for (k, R) in self.jumpsfrom[s[1]]:
                    nxt.add((s[0], k, tuple(a + b for a, b in zip(s[2], R))))
            out |= nxt
            frontier = nxt
        out = set(s for s in out if not self.iszero(s))
        if originstates:
            out |= set(self.zero(i) for i in range(self.Ns))
        return out

    # ---------------------------------------------------------------- orbits
    def orbits(self, states):
        """union-find orbits of a set of states under G.  Returns (dict state -> canonical representative,
        dict representative -> sorted members, list of (state, image) with image outside the set)"""
        states = set(states)
        uf = UnionFind(states)
        escaped = []
        for s in states:
            for n in range(self.nG):
                t = self.act(n, s)
                if t in states: uf.union(s, t)
                else: escaped.append((s, t))
        cl = uf.classes()
        rep = {}
        for r, mem in cl.items():
            for s in mem: rep[s] = r
        return rep, cl, escaped

    def stabiliser(self, s):
        return [n for n in range(self.nG) if self.act(n, s) == s]

    def stablabel(self, s):
        """point-group content of the stabiliser of s, e.g. 'E+C2' or 'E+m' (operation types by determinant and trace)"""
        names3 = {(1, 3): 'E', (1, -1): 'C2', (1, 0): 'C3', (1, 1): 'C4', (1, 2): 'C6', (-1, 1): 'm', (-1, -3): 'i',
                  (-1, -1): 'S4', (-1, 0): 'S6', (-1, -2): 'S3'}
        names2 = {(1, 2): 'E', (1, -2): 'C2', (1, -1): 'C3', (1, 0): 'C4', (1, 1): 'C6', (-1, 0): 'm'}
        names = names3 if self.dim == 3 else names2
        cnt = collections.Counter()
        for n in self.stabiliser(s):
            c = self.ops[n]['cart']
            cnt[names.get((int(round(np.linalg.det(c))), int(round(np.trace(c)))), '?')] += 1
        order = ['E', 'C2', 'C3', 'C4', 'C6', 'm', 'i', 'S4', 'S6', 'S3', '?']
        return '+'.join(('{}{}'.format(cnt[k], k) if cnt[k] > 1 else k) for k in order if cnt[k])

    def reynolds(self, s):
        """projector onto the vectors left invariant by every operation fixing state s"""
        H = self.stabiliser(s)
        return sum(self.ops[n]['cart'] for n in H) / len(H)

    def field_projector(self, members):
        """Reynolds projector on vector fields over one orbit (members: ordered list of states):
        (P f)(g s) = 1/|G| sum_g  cart(g) f(s); matrix of size (len*dim)^2"""
        pos = {s: k for k, s in enumerate(members)}
        d = self.dim
        P = np.zeros((len(members) * d, len(members) * d))
        for n in range(self.nG):
            c = self.ops[n]['cart']
            for s, k in pos.items():
                m = pos[self.act(n, s)]
                P[m * d:(m + 1) * d, k * d:(k + 1) * d] += c
        return P / self.nG

    # ---------------------------------------------------------------- transitions between pair states
    def omega1_jumps(self, states):
        """every vacancy jump s -> s' with the solute fixed, both ends non-zero members of `states`.
        list of (s, s', jump) ; the vacancy displacement is dx(s') - dx(s) = dx(jump)"""
        states = set(states)
        out = []
        for s in sorted(states):
            if self.iszero(s): continue
            for (k, R) in self.jumpsfrom[s[1]]:
                t = (s[0], k, tuple(a + b for a, b in zip(s[2], R)))
                if self.iszero(t) or t not in states: continue
                out.append((s, t, (s[1], k, R)))
        return out

    def omega2_jumps(self, states):
        """every solute-vacancy exchange s -> -s for s in `states` (vacancy one jump away from the solute).
        list of (s, -s, jump); the vacancy displacement is -dx(s)"""
        out = []
        for s in sorted(states):
            if self.iszero(s): continue
            jmp = (s[1], s[0], tuple(-v for v in s[2]))   # vacancy moves from its site onto the solute site
            if jmp in self.jumptype: out.append((s, self.neg(s), jmp))
        return out

    def jump_orbits(self, pairs):
        """union-find classes of transitions (s, s') under G and reversal. pairs: iterable of (s, s').
        Returns (dict pair -> canonical representative, dict rep -> sorted members, escaped list)"""
        pairs = set(pairs)
        uf = UnionFind(pairs)
        escaped = []
        for p in pairs:
            q = (p[1], p[0])
            if q in pairs: uf.union(p, q)
            else: escaped.append((p, q))
            for n in range(self.nG):
                q = (self.act(n, p[0]), self.act(n, p[1]))
                if q in pairs: uf.union(p, q)
                else: escaped.append((p, q))
        cl = uf.classes()
        rep = {}
        for r, mem in cl.items():
            for p in mem: rep[p] = r
        return rep, cl, escaped

    def jump0_orbits(self):
        """classes of the bare vacancy jumps (i,j,R) under G and reversal: canonical representative per jump"""
        js = set(self.jumps)
        uf = UnionFind(js)
        for t in js:
            r = self.neg(t)
            if r in js: uf.union(t, r)
            for n in range(self.nG):
                q = self.act(n, t)     # a transition transforms like a pair state
                if q in js: uf.union(t, q)
        return {t: uf.find(t) for t in js}


# -------------------------------------------------------------------- deterministic generic numbers
def generic(key, salt=0.0):
    """a fixed 'generic' positive number in (0.37, 1] attached to a canonical key (tuple of ints / nested tuples).
    No randomness: a quasi-periodic function of the integers in the key."""
    flat = []

    def walk(o):
        if isinstance(o, (tuple, list)):
            flat.append(17)
            for x in o: walk(x)
            flat.append(23)
        else:
            flat.append(int(o))
    walk(key)
    acc = 0.0
    for n, v in enumerate(flat):
        acc += (v + 0.5) * np.sqrt(2.0 + n) * 0.37
    acc += salt
    return float(np.exp(-(acc % 1.0)))


def from_pairstate(PS):
    """package PairState -> plain tuple (reads only the integer fields)"""
    return (int(PS.i), int(PS.j), tuple(int(v) for v in PS.R))
