"""
R-pair  : unsymmetrised pair-state Dyson solver for the dilute one-solute/one-vacancy chain (DESIGN App. A)
R-torus : brute-force chain on a periodic supercell (the definition at finite size)
R-lone  : lone-vacancy diffusivity in the site basis (L0vv), no GF at all

Nothing here uses stars, vector stars or any expansion of the package.  What is read from a
VacancyMediated object is only the *input convention*: which thermodynamic class a pair state
belongs to (to look up bFSV), and which omega1 / omega2 class a transition belongs to (to look up
bFT1 / bFT2).  The bare Green function is passed in as a callable (package GF, or torus pseudo-inverse).
"""
import numpy as np
import itertools


class Net:
    """flat description of the vacancy network"""

    def __init__(self, crys, chem, sitelist, jumpnetwork):
        self.crys, self.chem = crys, chem
        self.dim = crys.dim
        self.N = sum(len(w) for w in sitelist)
        self.w = np.zeros(self.N, dtype=int)
        for k, wl in enumerate(sitelist):
            for i in wl: self.w[i] = k
        self.u = [np.array(crys.basis[chem][i]) for i in range(self.N)]
        self.cartpos = [crys.lattice @ u for u in self.u]
        self.jumps = [[] for _ in range(self.N)]  # per initial site: (final site, dx, class)
        for c, jl in enumerate(jumpnetwork):
            for (i, j), dx in jl:
                self.jumps[i].append((j, np.array(dx, dtype=float), c))
        self.invlatt = np.linalg.inv(crys.lattice)

    def R_of(self, i, j, x):
        r = self.invlatt @ x - self.u[j] + self.u[i]
        R = np.rint(r).astype(int)
        if not np.allclose(r, R, atol=1e-6): raise ValueError('non-lattice displacement {} for ({},{})'.format(x, i, j))
        return tuple(int(a) for a in R)

    def x_of(self, i, j, R):
        return self.crys.lattice @ (np.array(R) + self.u[j] - self.u[i])


def site_probs(net, bF):
    p = np.exp(-(bF[net.w] - np.min(bF)))
    return p * net.N / p.sum()


def lone_vacancy(net, bFV, bFT0):
    """returns (L0vv, ell[i] site resolved contributions, etatilde, b0tilde, pV)"""
    N, dim = net.N, net.dim
    pV = site_probs(net, bFV)
    om = np.zeros((N, N)); b = np.zeros((N, dim)); D0 = np.zeros((N, dim, dim))
    for i in range(N):
        for (j, dx, c) in net.jumps[i]:
            rate = np.exp(-bFT0[c] + bFV[net.w[i]])
            om[i, j] += np.exp(-bFT0[c] + 0.5 * (bFV[net.w[i]] + bFV[net.w[j]]))
            om[i, i] -= rate
            b[i] += np.sqrt(pV[i]) * rate * dx
            D0[i] += pV[i] * rate * 0.5 * np.outer(dx, dx)
    eta = np.linalg.pinv(om, rcond=1e-12) @ b
    ell = np.array([D0[i] + 0.5 * (np.outer(b[i], eta[i]) + np.outer(eta[i], b[i])) for i in range(N)])
    return ell.sum(axis=0) / N, ell, eta, b, pV


class PairModel:
    def __init__(self, calc):
        """calc: VacancyMediated; only its network, Nthermo and class lookups are read"""
        self.calc = calc
        self.net = net = Net(calc.crys, calc.chem, calc.sitelist, calc.jumpnetwork)
        self.Nthermo = calc.Nthermo
        N = net.N
        key = lambda PS: (int(PS.i), int(PS.j), tuple(int(r) for r in PS.R))
        # ---- own BFS
        shell = {}
        frontier = [(i, i, (0,) * net.dim) for i in range(N)]
        for s in frontier: shell[s] = 0
        for n in range(1, self.Nthermo + 2):
            new = []
            for (i, j, R) in frontier:
                x = net.x_of(i, j, R)
                for (j2, dx, c) in net.jumps[j]:
                    t = (i, j2, net.R_of(i, j2, x + dx))
                    if t not in shell:
                        shell[t] = n; new.append(t)
            frontier = new
        self.states = sorted(shell)
        self.index = {s: n for n, s in enumerate(self.states)}
        self.shell = shell
        self.origin = [self.index[(i, i, (0,) * net.dim)] for i in range(N)]
        self.x = np.array([net.x_of(*s) for s in self.states])
        # ---- input-convention lookups from the calculator
        self.thermoclass = {}
        for n, PS in enumerate(calc.thermo.states):
            self.thermoclass[key(PS)] = int(calc.thermo.index[n])
        kst = calc.kinetic.states
        self.om1class, self.om2class = {}, {}
        for k, jl in enumerate(calc.om1_jn):
            for (a, b), dx in jl: self.om1class[(key(kst[a]), key(kst[b]))] = k
        for k, jl in enumerate(calc.om2_jn):
            for (a, b), dx in jl: self.om2class[(key(kst[a]), key(kst[b]))] = k
        # unique bare-GF arguments (same sector only): g0[n, m] = G(j_n, j_m, x_m - x_n)
        S = len(self.states)
        self.gidx = -np.ones((S, S), dtype=int)
        self.gkeys, kmap = [], {}
        for n in range(S):
            for m in range(S):
                if self.states[n][0] != self.states[m][0]: continue
                dx = self.x[m] - self.x[n]
                k = (self.states[n][1], self.states[m][1]) + tuple(int(round(v * 1e6)) for v in dx)
                if k not in kmap:
                    kmap[k] = len(self.gkeys); self.gkeys.append((self.states[n][1], self.states[m][1], dx))
                self.gidx[n, m] = kmap[k]
        # model-side statement about the state set (reported by C01 as its own oracle)
        pk = set(key(PS) for PS in kst)
        self.stateset_agrees = (pk == set(self.states))
        own_thermo = set(s for s, n in shell.items() if 1 <= n <= self.Nthermo)
        self.thermoset_agrees = (own_thermo == set(self.thermoclass))

    def solve(self, bFV, bFS, bFSV, bFT0, bFT1, bFT2, gfunc, lam=1.0):
        """gfunc(i, j, dx) -> bare GF between vacancy sites; returns dict of tensors (package normalisation)"""
        net, N, dim = self.net, self.net.N, self.net.dim
        S = len(self.states)
        w = net.w
        pV, pS = site_probs(net, bFV), site_probs(net, bFS)
        L0vv, ell, etat, b0t, _ = lone_vacancy(net, bFV, bFT0)
        # Free energies are used exactly as given (any consistent reference: raw E/kT - ln(pre), or the
        # package's min-subtracted convention): rates are exp(-bFT + bF(state)), probabilities are normalised
        # per cell (mean 1 per site), which is the package's stated normalisation of the L's.
        bFV = np.asarray(bFV, float); bFS = np.asarray(bFS, float)
        braw = np.zeros(S); p0 = np.zeros(S); p = np.zeros(S)
        for n, (i, j, R) in enumerate(self.states):
            dSV = bFSV[self.thermoclass[(i, j, R)]] if (i, j, R) in self.thermoclass else 0.
            braw[n] = bFS[w[i]] + bFV[w[j]] + dSV
            p0[n] = pS[i] * pV[j]; p[n] = p0[n] * np.exp(-dSV)
        bF = braw; bF0 = None; shift = 0.
        interacting = np.array([(s in self.thermoclass) and bFSV[self.thermoclass[s]] != 0. for s in self.states])
        isorigin = np.zeros(S, bool); isorigin[self.origin] = True
        p[isorigin] = 0.
        om0 = np.zeros((S, S)); om = np.zeros((S, S))
        b0 = np.zeros((S, dim)); bVv = np.zeros((S, dim)); bSv = np.zeros((S, dim))
        D0ss = np.zeros((dim, dim)); Dfull = np.zeros((dim, dim)); Dref = np.zeros((dim, dim))
        for n, (i, j, R) in enumerate(self.states):
            x = self.x[n]
            for (j2, dx, c) in net.jumps[j]:
                t = (i, j2, net.R_of(i, j2, x + dx))
                m = self.index.get(t)
                r0 = np.exp(-bFT0[c] + bFV[w[j]])              # reference escape rate of this jump
                om0[n, n] -= r0
                b0[n] += np.sqrt(p0[n]) * r0 * dx
                Dref += p0[n] * r0 * 0.5 * np.outer(dx, dx)
                if m is not None:
                    om0[n, m] += np.exp(-bFT0[c] + 0.5 * (bFV[w[j]] + bFV[w[j2]]))
                if isorigin[n]: continue
                if m is not None and isorigin[m]:
                    # vacancy lands on the solute: exchange s -> sbar
                    sb = (j, i, tuple(-a for a in R)); mb = self.index[sb]
                    k = self.om2class[((i, j, R), sb)]
                    rate = np.exp(-bFT2[k] + bF[n] - shift)
                    om[n, mb] += np.exp(-bFT2[k] + 0.5 * (bF[n] + bF[mb]) - shift)
                    om[n, n] -= rate
                    bVv[n] += np.sqrt(p[n]) * rate * (-x)
                    bSv[n] += np.sqrt(p[n]) * rate * (+x)
                    D0ss += p[n] * rate * 0.5 * np.outer(x, x)
                    Dfull += p[n] * rate * 0.5 * np.outer(x, x)
                else:
                    k = self.om1class.get(((i, j, R), t)) if m is not None else None
                    if k is not None:
                        rate = np.exp(-bFT1[k] + bF[n] - shift)
                        om[n, m] += np.exp(-bFT1[k] + 0.5 * (bF[n] + bF[m]) - shift)
                    else:
                        rate = r0        # unlisted jump: both ends outside the thermodynamic range -> omega0
                        if m is not None:
                            if interacting[n] or interacting[m]:
                                raise ValueError('unlisted omega1 jump touches the thermodynamic range')
                            om[n, m] += np.exp(-bFT0[c] + 0.5 * (bFV[w[j]] + bFV[w[j2]]))
                        elif interacting[n]:
                            raise ValueError('jump out of the kinetic set from an interacting state')
                    om[n, n] -= rate
                    bVv[n] += np.sqrt(p[n]) * rate * dx
                    Dfull += p[n] * rate * 0.5 * np.outer(dx, dx)
        for o in self.origin:
            om[o, :] = 0.; om[:, o] = 0.; om[o, o] = -lam
        dom = om - om0
        db = bVv - b0
        sector = np.array([s[0] for s in self.states])
        gvals = np.array([gfunc(i, j, dx) for (i, j, dx) in self.gkeys] + [0.])
        g0 = gvals[self.gidx]          # index -1 (different sectors) -> the appended 0
        # diffusion-equation residual of the supplied bare GF on rows whose neighbours all lie inside S
        interior = np.array([all(self.index.get((i, j2, net.R_of(i, j2, self.x[n] + dx))) is not None for (j2, dx, c) in net.jumps[j])
                             for n, (i, j, R) in enumerate(self.states)])
        resid = float(np.abs(om0[interior] @ g0 - np.eye(S)[interior]).max()) if interior.any() else 0.
        eta0 = np.array([np.sqrt(pS[s[0]]) * etat[s[1]] for s in self.states])
        V = np.zeros((S, N))
        for n in range(S): V[n, sector[n]] = np.sqrt(p0[n])
        A = np.zeros((S + N, S + N))
        A[:S, :S] = np.eye(S) + g0 @ dom
        A[:S, S:] = -V
        A[S:, :S] = V.T @ dom
        rhsV = np.vstack([eta0 + g0 @ db, V.T @ db])
        rhsS = np.vstack([g0 @ bSv, V.T @ bSv])
        sol = np.linalg.solve(A, np.hstack([rhsV, rhsS]))
        eta, etaS = sol[:S, :dim], sol[:S, dim:]
        sym = lambda M: 0.5 * (M + M.T)
        Lss = (D0ss + sym(bSv.T @ etaS)) / N
        Lsv = (-D0ss + sym(bSv.T @ eta)) / N
        L1raw = (Dfull - Dref + sym(db.T @ eta0) * 2 + sym(db.T @ (eta - eta0)) - sym(eta0.T @ dom @ eta)) / N
        blocking = sum(pS[i] * ell[i] for i in range(N)) / N
        return {'L0vv': L0vv, 'Lss': Lss, 'Lsv': Lsv, 'L1vv_raw': L1raw, 'L1vv': L1raw + blocking,
                'Lsv_unsym': (-D0ss + bSv.T @ eta) / N,    # <solute_a vacancy_b>: first index solute, second vacancy

                'uniform_solute': bool(np.allclose(pS, 1.0, atol=1e-12)), 'nstates': S, 'gf_residual': resid,
                'asym': float(max(np.abs(bSv.T @ etaS - (bSv.T @ etaS).T).max(), np.abs(bSv.T @ eta - (bSv.T @ eta).T).max()))}


# ------------------------------------------------------------------------------------------- torus
def torus_sites(net, nsuper):
    cells = list(itertools.product(*[range(n) for n in nsuper]))
    sites = [(c, i) for c in cells for i in range(net.N)]
    return cells, sites, {s: n for n, s in enumerate(sites)}


def torus_gf(net, nsuper, bFV, bFT0):
    """pseudo-inverse of the symmetrised single-vacancy rate matrix on the torus -> callable g(i,j,dx)"""
    cells, sites, sidx = torus_sites(net, nsuper)
    n = len(sites)
    bFV = np.asarray(bFV, float)
    om = np.zeros((n, n))
    ns = np.array(nsuper)
    for a, (c, i) in enumerate(sites):
        for (j, dx, k) in net.jumps[i]:
            R = net.R_of(i, j, dx)
            c2 = tuple((np.array(c) + np.array(R)) % ns)
            b = sidx[(c2, j)]
            om[a, b] += np.exp(-bFT0[k] + 0.5 * (bFV[net.w[i]] + bFV[net.w[j]]))
            om[a, a] -= np.exp(-bFT0[k] + bFV[net.w[i]])
    g = np.linalg.pinv(om, rcond=1e-13)

    def gfunc(i, j, dx):
        R = net.R_of(i, j, np.asarray(dx, float))
        c2 = tuple(np.array(R) % ns)
        return g[sidx[((0,) * net.dim, i)], sidx[(c2, j)]]
    return gfunc


def torus_chain(model, nsuper, bFV, bFS, bFSV, bFT0, bFT1, bFT2):
    """
    Every (solute site a, vacancy site b) configuration on the torus; dense symmetric rate matrix;
    L = sum p W (1/2) dx dx + b^T pinv(omega) b.  Probabilities carry the package normalisation
    (p = pS pV exp(-bFSV), pS/pV with mean 1 per site), so the result is directly comparable with R-pair
    fed with the torus GF (exactly) and with the package (up to finite-size terms O(1/volume)).
    The torus must be large enough that every kinetic pair state is its own minimum image.
    """
    net, N, dim = model.net, model.net.N, model.net.dim
    w = net.w
    ns = np.array(nsuper); M = int(np.prod(ns))
    cells, sites, sidx = torus_sites(net, nsuper)
    pV, pS = site_probs(net, bFV), site_probs(net, bFS)
    bFV = np.asarray(bFV, float); bFS = np.asarray(bFS, float); shift = 0.
    zero = (0,) * dim
    # solute fixed in cell 0 (translation invariance: all cells contribute equally; sectors = solute site i)
    # but exchanges move the solute, so the state space needs every solute position: use relative
    # coordinates: state = (i, j, Rrel mod ns) -- exactly the torus image of the pair state.
    rel = [(i, j, c) for i in range(N) for c in cells for j in range(N)]
    ridx = {s: n for n, s in enumerate(rel)}
    S = len(rel)

    def cls(i, j, c):
        """the unique kinetic pair state whose image is (i,j,c), if any (None otherwise)"""
        return images.get((i, j, c))
    images = {}
    for s in model.states:
        im = (s[0], s[1], tuple(np.array(s[2]) % ns))
        if im in images: raise ValueError('torus too small: two kinetic states share an image')
        images[im] = s
    isorigin = np.array([(i == j and c == zero) for (i, j, c) in rel])
    bF = np.array([bFS[w[i]] + bFV[w[j]] for (i, j, c) in rel])
    p0 = np.array([pS[i] * pV[j] for (i, j, c) in rel]); p = p0.copy()
    for n, s in enumerate(rel):
        ks = cls(*s)
        if ks is not None and ks in model.thermoclass:
            bF[n] += bFSV[model.thermoclass[ks]]; p[n] *= np.exp(-bFSV[model.thermoclass[ks]])
    p[isorigin] = 0.
    om = np.zeros((S, S)); om0 = np.zeros((S, S))
    bV = np.zeros((S, dim)); bS = np.zeros((S, dim)); b0 = np.zeros((S, dim))
    D0ss = np.zeros((dim, dim)); Dfull = np.zeros((dim, dim)); Dref = np.zeros((dim, dim))
    for n, (i, j, c) in enumerate(rel):
        ks = cls(i, j, c)
        for (j2, dx, k0) in net.jumps[j]:
            Rj = net.R_of(j, j2, dx)
            c2 = tuple((np.array(c) + np.array(Rj)) % ns)
            m = ridx[(i, j2, c2)]
            r0 = np.exp(-bFT0[k0] + bFV[w[j]])
            om0[n, n] -= r0
            om0[n, m] += np.exp(-bFT0[k0] + 0.5 * (bFV[w[j]] + bFV[w[j2]]))
            b0[n] += np.sqrt(p0[n]) * r0 * dx
            Dref += p0[n] * r0 * 0.5 * np.outer(dx, dx)
            if isorigin[n]: continue
            if isorigin[m]:
                x = -dx   # vacancy jumps onto the solute: solute-to-vacancy vector is -dx
                mb = ridx[(j, i, tuple((-np.array(c)) % ns))]
                sb = cls(*rel[mb])
                k = model.om2class[(ks, sb)]
                rate = np.exp(-bFT2[k] + bF[n] - shift)
                om[n, mb] += np.exp(-bFT2[k] + 0.5 * (bF[n] + bF[mb]) - shift)
                om[n, n] -= rate
                bV[n] += np.sqrt(p[n]) * rate * (-x); bS[n] += np.sqrt(p[n]) * rate * x
                D0ss += p[n] * rate * 0.5 * np.outer(x, x); Dfull += p[n] * rate * 0.5 * np.outer(x, x)
            else:
                kt = cls(*rel[m])
                k = model.om1class.get((ks, kt)) if (ks is not None and kt is not None) else None
                if k is not None:
                    rate = np.exp(-bFT1[k] + bF[n] - shift)
                    om[n, m] += np.exp(-bFT1[k] + 0.5 * (bF[n] + bF[m]) - shift)
                else:
                    rate = r0
                    om[n, m] += np.exp(-bFT0[k0] + 0.5 * (bFV[w[j]] + bFV[w[j2]]))
                om[n, n] -= rate
                bV[n] += np.sqrt(p[n]) * rate * dx
                Dfull += p[n] * rate * 0.5 * np.outer(dx, dx)
    keep = ~isorigin
    omk = om[np.ix_(keep, keep)]
    gk = np.linalg.pinv(omk, rcond=1e-13)
    g0 = np.linalg.pinv(om0, rcond=1e-13)
    sym = lambda A: 0.5 * (A + A.T)
    Lss = (D0ss + sym(bS[keep].T @ gk @ bS[keep])) / N
    Lsv = (-D0ss + sym(bS[keep].T @ gk @ bV[keep])) / N
    Lvv_full = Dfull + sym(bV[keep].T @ gk @ bV[keep])
    Lvv_ref = Dref + sym(b0.T @ g0 @ b0)
    L1raw = (Lvv_full - Lvv_ref) / N
    return {'Lss': Lss, 'Lsv': Lsv, 'Lsv_unsym': (-D0ss + bS[keep].T @ gk @ bV[keep]) / N, 'L1vv_raw': L1raw, 'L0vv_ref': Lvv_ref / (N * N * M), 'nconfig': int(keep.sum())}
