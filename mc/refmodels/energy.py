"""
R-energy: brute-force cluster-expansion model on a periodic supercell, plus the small geometric
helpers shared by the cluster checks C31-C35.

Deliberately boring:
  * a site of the supercell is identified *by position*: the Cartesian position of (R, (c,i)) is
    computed from the crystal lattice and basis, reduced into the supercell and matched against the
    documented site positions ``ClusterSupercell.mobilepos`` / ``specpos`` (direct supercell
    coordinates; "indexing corresponds to mobilepos and specpos").  ``ClusterSupercell.index``,
    ``transdict``, ``Rveclist`` and ``ciR`` are never used.
  * lattice translations of the supercell = our own enumeration of the |det| cosets Z^3 / S Z^3.
  * an energy is  sum_classes value * #(cluster in class, translation : every site occupied)  +
    constant * size.  A vacancy cluster counts when its distinguished first site sits on the
    supercell's vacancy and all other sites are occupied.  Occupied means occupation == 1.

Only data attributes of the package objects are read (crys.lattice/basis/G, sup.superlatt/mobilepos/
specpos/vacancy, Cluster.sites and its two flags).
"""
import itertools
import numpy as np


# ------------------------------------------------------------------ cluster <-> plain tuples
def cs_tuple(cs):
    """ClusterSite -> (c, i, (R...)) with python ints"""
    return (int(cs.ci[0]), int(cs.ci[1]), tuple(int(round(float(x))) for x in cs.R))


def cluster_kind(cl):
    t, v = bool(cl.__transition__), bool(cl.__vacancy__)
    return ('VTS' if v else 'TS') if t else ('V' if v else 'C')


def cluster_sites(cl):
    """all sites of a Cluster (special sites first, as the constructor stores them)"""
    return [cs_tuple(cs) for cs in cl.sites]


def nspecial(kind):
    return {'C': 0, 'V': 1, 'TS': 2, 'VTS': 2}[kind]


def _shift(sites, R0):
    return [(c, i, tuple(a - b for a, b in zip(R, R0))) for (c, i, R) in sites]


def canon(kind, sites):
    """
    translation-invariant canonical key of a cluster given as a list of (c,i,R); for kind
      'C'   : set of sites
      'V'   : (vacancy site ; set of the others)
      'TS'  : (unordered {initial, final} ; set of the others)     -- a TS cluster equals its reverse
      'VTS' : (initial=vacancy, final ; multiset of the others)    -- ordered
    """
    sites = [(int(c), int(i), tuple(int(x) for x in R)) for (c, i, R) in sites]
    if kind == 'C':
        best = None
        for s0 in sites:
            k = tuple(sorted(_shift(sites, s0[2])))
            if best is None or k < best: best = k
        return ('C', best)
    if kind == 'V':
        sh = _shift(sites, sites[0][2])
        return ('V', sh[0], tuple(sorted(sh[1:])))
    if kind == 'TS':
        best = None
        for a, b in ((0, 1), (1, 0)):
            sh = _shift(sites, sites[a][2])
            k = (sh[a], sh[b], tuple(sorted(sh[2:])))
            if best is None or k < best: best = k
        return ('TS',) + best
    if kind == 'VTS':
        sh = _shift(sites, sites[0][2])
        return ('VTS', sh[0], sh[1], tuple(sorted(sh[2:])))
    raise KeyError(kind)


def cluster_key(cl):
    k = cluster_kind(cl)
    return canon(k, cluster_sites(cl))


def cart(crys, s):
    c, i, R = s
    return np.dot(crys.lattice, np.array(R, dtype=float) + crys.basis[c][i])


def descriptor(crys, kind, sites):
    """
    hash-seed independent description of the *symmetry class* of a cluster: kind, order, species of the
    sites and the sorted rounded pair distances (special sites listed first with their own distances)
    """
    ns = nspecial(kind)
    chem = crys.chemistry
    x = [cart(crys, s) for s in sites]
    sp = [chem[s[0]] for s in sites]
    d = sorted(round(float(np.linalg.norm(x[a] - x[b])), 4) for a in range(len(x)) for b in range(a))
    head = ''
    if ns == 2:
        head = '{}>{}@{:.4f};'.format(sp[0], sp[1], float(np.linalg.norm(x[1] - x[0])))
    elif ns == 1:
        head = 'vac{};'.format(sp[0])
    tail = ''
    if kind == 'TS' and pair_translate_in_cluster(sites): tail = ';ptr'
    return '{}:o{}:{}{}:d={}{}'.format(kind, len(sites) - ns, head, ','.join(sorted(sp[ns:])),
                                      ','.join('{:g}'.format(v) for v in d), tail)


def pair_translate_in_cluster(sites):
    """True when a lattice translate of the TS pair (sites[0] -> sites[1], either direction) joins two sites of the
    cluster other than the pair itself ('ptr' in descriptors): the geometry that distinguishes comparing the TS
    pair in the frame of the cluster from comparing it relative to its own initial site"""
    a, b = sites[0], sites[1]
    v = tuple(x - y for x, y in zip(b[2], a[2]))
    for p in sites:
        for q in sites:
            if p == q or (p == a and q == b) or (p == b and q == a): continue
            if p[:2] == a[:2] and q[:2] == b[:2] and tuple(x - y for x, y in zip(q[2], p[2])) == v: return True
    return False


def class_descriptor(crys, clset):
    """descriptor of a set of symmetry-equivalent clusters (smallest over the members: order independent)"""
    return min(descriptor(crys, cluster_kind(cl), cluster_sites(cl)) for cl in clset)


# ------------------------------------------------------------------ independent group action
class GroupAction:
    """action of crys.G on sites (c,i,R), computed in unit coordinates from rot/trans only"""

    def __init__(self, crys):
        self.crys = crys
        self.ops = [(np.array(g.rot, dtype=int), np.array(g.trans, dtype=float)) for g in crys.G]
        self._cache = {}

    def nops(self):
        return len(self.ops)

    def site(self, n, s):
        key = (n, s)
        r = self._cache.get(key)
        if r is not None: return r
        c, i, R = s
        rot, trans = self.ops[n]
        u = np.dot(rot, np.array(R, dtype=float) + self.crys.basis[c][i]) + trans
        hit = None
        for j, uj in enumerate(self.crys.basis[c]):
            d = u - uj
            dr = np.round(d)
            if np.all(np.abs(d - dr) < 1e-6):
                if hit is not None: raise RuntimeError('ambiguous image of site {}'.format(s))
                hit = (c, j, tuple(int(x) for x in dr))
        if hit is None: raise RuntimeError('group operation does not map site {} onto a site'.format(s))
        self._cache[key] = hit
        return hit

    def cluster(self, n, kind, sites):
        return canon(kind, [self.site(n, s) for s in sites])


def key_sites(key):
    """site list (special first) back from a canonical key"""
    kind = key[0]
    if kind == 'C': return list(key[1])
    if kind == 'V': return [key[1]] + list(key[2])
    return [key[1], key[2]] + list(key[3])


def orbits(ga, keys, extra=None):
    """union-find partition of the set `keys` under the group (and an optional extra map key->key)"""
    keys = list(keys)
    idx = {k: n for n, k in enumerate(keys)}
    parent = list(range(len(keys)))

    def find(a):
        while parent[a] != a:
            parent[a] = parent[parent[a]]
            a = parent[a]
        return a

    escaped = []
    for k in keys:
        sites = key_sites(k)
        imgs = [ga.cluster(n, k[0], sites) for n in range(ga.nops())]
        if extra is not None: imgs.append(extra(k))
        for k2 in imgs:
            if k2 not in idx:
                escaped.append((k, k2)); continue
            a, b = find(idx[k]), find(idx[k2])
            if a != b: parent[a] = b
    out = {}
    for k in keys: out.setdefault(find(idx[k]), set()).add(k)
    return [frozenset(v) for v in out.values()], escaped


# ------------------------------------------------------------------ lattice neighbourhoods
def box_range(lattice, r):
    """per-axis integer range that is guaranteed to contain every lattice+basis vector shorter than r
    (from the reciprocal-lattice heights; +2 covers basis differences in (-1,1) and rounding)"""
    inv = np.linalg.inv(lattice)
    return [int(np.floor(r * np.linalg.norm(inv[i]))) + 2 for i in range(lattice.shape[0])]


def shells(crys, nshell=6, chems=None):
    """sorted distinct inter-site distances (all species unless `chems` given), first nshell of them"""
    r = 1.0
    atoms = [(c, i) for c in range(len(crys.basis)) for i in range(len(crys.basis[c])) if chems is None or c in chems]
    while True:
        nm = box_range(crys.lattice, r)
        ds = []
        for (c0, i0) in atoms:
            for (c1, i1) in atoms:
                du = crys.basis[c1][i1] - crys.basis[c0][i0]
                for R in itertools.product(*[range(-n, n + 1) for n in nm]):
                    dx = np.dot(crys.lattice, np.array(R) + du)
                    d = float(np.sqrt(np.dot(dx, dx)))
                    if 1e-8 < d < r: ds.append(d)
        ds.sort()
        out = []
        for d in ds:
            if not out or d - out[-1] > 1e-6: out.append(d)
        if len(out) >= nshell: return out[:nshell]
        r *= 1.5


def cutoffs(crys, n):
    """one cutoff inside each of the first n neighbour-shell intervals: (0,d1), (d1,d2), ... midpoints"""
    sh = shells(crys, n + 1)
    return [0.5 * sh[0]] + [0.5 * (sh[k] + sh[k + 1]) for k in range(n - 1)]


def neighbours(crys, s0, cutoff, allowed):
    """all sites (c,i,R), c in allowed, at distance 0 < d < cutoff from site s0"""
    x0 = cart(crys, s0)
    nm = box_range(crys.lattice, cutoff)
    out = []
    for c in allowed:
        for i in range(len(crys.basis[c])):
            for dR in itertools.product(*[range(-n, n + 1) for n in nm]):
                R = tuple(a + b for a, b in zip(s0[2], dR))
                s = (c, i, R)
                d = np.linalg.norm(cart(crys, s) - x0)
                if 1e-8 < d < cutoff: out.append(s)
    return out


def brute_clusters(crys, cutoff, maxorder, exclude=()):
    """
    every set of <= maxorder distinct non-excluded sites with all pair distances < cutoff, modulo lattice
    translation: cliques containing a pinned site of cell 0, canonicalised.  returns {order: set(keys)}
    """
    allowed = [c for c in range(len(crys.basis)) if c not in exclude]
    zero = (0,) * crys.lattice.shape[0]
    out = {k: set() for k in range(1, maxorder + 1)}
    for c in allowed:
        for i in range(len(crys.basis[c])):
            pin = (c, i, zero)
            out[1].add(canon('C', [pin]))
            if maxorder < 2: continue
            nb = neighbours(crys, pin, cutoff, allowed)
            xs = {s: cart(crys, s) for s in nb}
            adj = {s: set(t for t in nb if t != s and np.linalg.norm(xs[s] - xs[t]) < cutoff) for s in nb}
            # grow cliques (as sorted tuples of neighbours) order by order
            level = [(s,) for s in sorted(nb)]
            for order in range(2, maxorder + 1):
                for cl in level: out[order].add(canon('C', [pin] + list(cl)))
                if order == maxorder: break
                nxt = []
                for cl in level:
                    common = set.intersection(*[adj[s] for s in cl])
                    for t in sorted(common):
                        if t > cl[-1]: nxt.append(cl + (t,))
                level = nxt
    return out


# ------------------------------------------------------------------ the supercell model
class SupercellModel:
    def __init__(self, sup):
        self.crys = sup.crys
        self.dim = self.crys.lattice.shape[0]
        self.S = np.array(sup.superlatt, dtype=int)
        self.size = abs(int(round(np.linalg.det(self.S))))
        self.Sinv = np.linalg.inv(self.S.astype(float))
        self.mpos = np.array(sup.mobilepos, dtype=float).reshape(-1, self.dim)
        self.spos = np.array(sup.specpos, dtype=float).reshape(-1, self.dim)
        self.nm, self.ns = len(self.mpos), len(self.spos)
        self._site = {}
        # coset representatives of Z^dim / S Z^dim
        seen, self.trans = set(), []
        m = int(np.abs(self.S).sum())
        for R in itertools.product(range(-m, m + 1), repeat=self.dim):
            f = np.dot(self.Sinv, np.array(R, dtype=float))
            k = tuple(int(v) % self.size for v in np.round((f - np.floor(f + 1e-9)) * self.size))
            if k not in seen:
                seen.add(k); self.trans.append(tuple(R))
        if len(self.trans) != self.size:
            raise RuntimeError('model: {} translations for a supercell of size {}'.format(len(self.trans), self.size))

    def site(self, s):
        """('m'|'s', n) of the supercell site on which crystal site s=(c,i,R) falls"""
        c, i, R = s
        f = np.dot(self.Sinv, np.array(R, dtype=float) + self.crys.basis[c][i])   # direct supercell coordinates
        key = (c, i, tuple(int(v) % self.size for v in np.round(np.dot(self.Sinv, np.array(R, dtype=float)) * self.size)))
        r = self._site.get(key)
        if r is not None: return r
        hits = []
        for tag, pos in (('m', self.mpos), ('s', self.spos)):
            if len(pos) == 0: continue
            d = pos - f[None, :]
            d -= np.round(d)
            for n in np.nonzero(np.all(np.abs(d) < 1e-6, axis=1))[0]: hits.append((tag, int(n)))
        if len(hits) != 1: raise RuntimeError('model: site {} matches {} supercell positions'.format(s, hits))
        self._site[key] = hits[0]
        return hits[0]

    def shifted(self, s, t):
        return (s[0], s[1], tuple(a + b for a, b in zip(s[2], t)))

    def prepare(self, clusterexp):
        """per class: list of (vacancy-site index or None, mobile indices, spectator indices) over clusters x translations"""
        out = []
        for clset in clusterexp:
            terms = []
            for cl in clset:
                kind = cluster_kind(cl)
                if kind not in ('C', 'V'): raise ValueError('energy clusters only')
                sites = cluster_sites(cl)
                for t in self.trans:
                    vac, mob, spec = None, [], []
                    for n, s in enumerate(sites):
                        tag, ind = self.site(self.shifted(s, t))
                        if kind == 'V' and n == 0:
                            if tag != 'm': vac = -2   # vacancy on a spectator site: can never match
                            else: vac = ind
                        elif tag == 'm': mob.append(ind)
                        else: spec.append(ind)
                    terms.append((vac, tuple(mob), tuple(spec)))
            out.append(terms)
        return out

    def counts(self, prepared, mocc, socc, vacancy):
        """count vector (one per class) + [size] for one occupation; vacancy = index or None"""
        res = []
        for terms in prepared:
            n = 0
            for vac, mob, spec in terms:
                if vac is not None and vac != vacancy: continue
                if all(mocc[i] == 1 for i in mob) and all(socc[i] == 1 for i in spec): n += 1
            res.append(n)
        res.append(self.size)
        return res

    # ---- transition states -------------------------------------------------------------------
    def lattice_disp(self, ci, cj, dx):
        """lattice vector R such that x(cj, R) - x(ci, 0) = dx"""
        u = np.dot(np.linalg.inv(self.crys.lattice), dx) - self.crys.basis[cj[0]][cj[1]] + self.crys.basis[ci[0]][ci[1]]
        r = np.round(u)
        if np.max(np.abs(u - r)) > 1e-6: raise RuntimeError('displacement {} does not join {} and {}'.format(dx, ci, cj))
        return tuple(int(v) for v in r)

    def prepare_ts(self, tsexp):
        """{(initial index, final index, rounded displacement): [(class, mobile indices, spectator indices)]} over
        clusters x translations; a plain TS cluster (no vacancy) is entered for both directions of its transition"""
        out = {}
        for nc, clset in enumerate(tsexp):
            for cl in clset:
                kind = cluster_kind(cl)
                if kind not in ('TS', 'VTS'): raise ValueError('TS clusters only')
                sites = cluster_sites(cl)
                dx = cart(self.crys, sites[1]) - cart(self.crys, sites[0])
                fwd = tuple(float(x) + 0.0 for x in np.round(dx, 6))
                bwd = tuple(float(x) + 0.0 for x in np.round(-dx, 6))
                for t in self.trans:
                    ta, a = self.site(self.shifted(sites[0], t))
                    tb, b = self.site(self.shifted(sites[1], t))
                    if ta != 'm' or tb != 'm': continue
                    mob, spec = [], []
                    for s in sites[2:]:
                        tag, ind = self.site(self.shifted(s, t))
                        (mob if tag == 'm' else spec).append(ind)
                    out.setdefault((a, b, fwd), []).append((nc, tuple(mob), tuple(spec)))
                    if kind == 'TS': out.setdefault((b, a, bwd), []).append((nc, tuple(mob), tuple(spec)))
        return out

    def ts_counts(self, prepared, nclasses, mocc, socc, i, j, dx):
        """TS count vector for the transition i -> j with displacement dx"""
        res = [0] * nclasses
        key = (i, j, tuple(float(x) + 0.0 for x in np.round(np.array(dx, dtype=float), 6)))
        for nc, mob, spec in prepared.get(key, ()):
            if all(mocc[k] == 1 for k in mob) and all(socc[k] == 1 for k in spec): res[nc] += 1
        return res


# ------------------------------------------------------------------ evaluation of documented outputs
def eval_siteinteract(siteinteract, interact, mocc, nenergy=None):
    """
    energy from the (siteinteract, interact) pair returned by clusterevaluator: interaction m is active when
    every site that lists it is occupied (an interaction listed by no site -- the constant -- is always active)
    """
    n = len(interact) if nenergy is None else nenergy
    blocked = [0] * len(interact)
    for site, lst in enumerate(siteinteract):
        if mocc[site] != 1:
            for m in lst: blocked[m] += 1
    return sum(interact[m] for m in range(n) if blocked[m] == 0)


def count_matrices(clustermatrices, mocc):
    """cluster counts from expandcluster_matrices output: a row counts when all its indices are occupied"""
    mocc = np.asarray(mocc)
    res = []
    for mats in clustermatrices:
        n = 0
        for mat in mats:
            mat = np.asarray(mat)
            if mat.ndim == 1:
                # np.array([]) : no active translation at all
                if mat.size != 0: raise RuntimeError('1-d index matrix with entries')
                continue
            for row in mat:
                if all(mocc[k] == 1 for k in row): n += 1
        res.append(n)
    return res


PRIMES = [2, 3, 5, 7, 11, 13, 17, 19, 23, 29, 31, 37, 41, 43, 47, 53, 59, 61, 67, 71, 73, 79, 83, 89, 97, 101, 103,
          107, 109, 113, 127, 131, 137, 139, 149, 151, 157, 163, 167, 173, 179, 181, 191, 193, 197, 199, 211, 223,
          227, 229, 233, 239, 241, 251, 257, 263, 269, 271, 277, 281, 283, 293, 307, 311, 313, 317, 331, 337, 347,
          349, 353, 359, 367, 373, 379, 383, 389, 397, 401, 409, 419, 421, 431, 433, 439, 443, 449, 457, 461, 463]


def generic_values(n, offset=0):
    """deterministic non-degenerate values sqrt(prime_k) with alternating signs (no subset sums coincide)"""
    return np.array([(-1) ** k * np.sqrt(PRIMES[(k + offset) % len(PRIMES)]) for k in range(n)])


def sort_classes(crys, clusterexp):
    """
    hash-seed independent order of the classes of a cluster expansion: by descriptor, ties (distinct classes
    with the same distances, e.g. mirror images) broken by the smallest canonical key of the class
    """
    tagged = [((class_descriptor(crys, s), min(cluster_key(c) for c in s)), s) for s in clusterexp]
    tagged.sort(key=lambda x: x[0])
    return [s for _, s in tagged], [d[0] for d, _ in tagged]


# ------------------------------------------------------------------ shared configuration alphabet (C32-C35)
def _chain():
    from onsager import crystal
    return crystal.Crystal(np.diag([1., 4., 4.3]), [np.zeros(3)], ['A'])


def _chainab():
    from onsager import crystal
    return crystal.Crystal(np.diag([1., 4., 4.3]), [[np.zeros(3)], [np.array([0.5, 0.1, 0.])]], ['A', 'B'])


def _zigzag():
    """zigzag chain: TWO mobile sites of the same species per cell, nearest-neighbour jumps join different basis sites"""
    from onsager import crystal
    return crystal.Crystal(np.diag([1., 4., 4.3]), [[np.zeros(3), np.array([0.5, 0.1, 0.])]], ['A'])


def _p1aab():
    """triclinic P1 cell with three atoms (A, A', B) close together INSIDE the cell: the shortest pairs share a lattice
    vector and have no symmetry image that crosses a cell boundary"""
    from onsager import crystal
    return crystal.Crystal(np.array([[1., 0.21, 0.17], [0., 1.1, 0.33], [0., 0., 1.23]]),
                           [[np.zeros(3), np.array([0.3, 0.1, 0.2])], [np.array([0.1, 0.35, 0.25])]], ['A', 'B'])


def _p1chain():
    """P1 chains: A atoms 1 apart along x (chains ~4 apart), a far B atom at a general position removes the inversion.
    With a cutoff beyond 2 the collinear clusters {0, a, 2a} hold the same jump at two inequivalent placements"""
    from onsager import crystal
    return crystal.Crystal(np.array([[1., 0.2, 0.1], [0., 4., 0.3], [0., 0., 4.3]]),
                           [[np.zeros(3)], [np.array([0.37, 0.5, 0.5])]], ['A', 'B'])


def _sq():
    from onsager import crystal
    return crystal.Crystal(np.diag([1., 1., 3.3]), [np.zeros(3)], ['A'])


def _tri():
    from onsager import crystal
    s3 = np.sqrt(3.)
    return crystal.Crystal(np.array([[0.5, 0.5, 0.], [-s3 / 2, s3 / 2, 0.], [0., 0., 3.3]]), [np.zeros(3)], ['A'])


# widely spaced chains / layers: the only way to keep a supercell larger than twice the interaction range within
# <= 10 sites (needed by C34, whose barrier model presumes the minimum-image situation)
def _skewsq():
    """square layers (a=1, spacing 1.5) described by the skewed cell a1=(1,0,0), a2=(3,1,0): the F9 situation
    (neighbour search range round(r/|a_i|)+1 too small for skewed noreduce cells) for makeclusters"""
    from onsager import crystal
    return crystal.Crystal(np.array([[1., 3., 0.], [0., 1., 0.], [0., 0., 1.5]]), [np.zeros(3)], ['A'], noreduce=True)


LOCAL = {'CHAIN': _chain, 'CHAINAB': _chainab, 'ZIGZAG': _zigzag, 'P1AAB': _p1aab, 'P1CHAIN': _p1chain, 'SQLAYER': _sq, 'TRILAYER': _tri, 'SKEWSQ': _skewsq}

# name: (catalogue crystal, supercell matrix, spectator species)
SUPERCELLS = {
    'B2AB211sB': ('B2AB', [[2, 0, 0], [0, 1, 0], [0, 0, 1]], (1,)),    # 2 mobile A + 2 spectator B
    'HCP211': ('HCP', [[2, 0, 0], [0, 1, 0], [0, 0, 1]], ()),          # 4 mobile
    'FCC2I': ('FCC', [[2, 0, 0], [0, 2, 0], [0, 0, 2]], ()),           # 8 mobile
    'B2AB211sA': ('B2AB', [[2, 0, 0], [0, 1, 0], [0, 0, 1]], (0,)),    # 2 mobile B + 2 spectator A
    'B2AB211m': ('B2AB', [[2, 0, 0], [0, 1, 0], [0, 0, 1]], ()),       # 4 mobile, two mobile species
    'FCCskew4': ('FCC', [[1, 1, 0], [-1, 1, 0], [0, 0, 2]], ()),       # 4 mobile, non-diagonal supercell
    'FCCO211sPd': ('FCC_O', [[2, 0, 0], [0, 1, 0], [0, 0, 1]], (0,)),  # 2 mobile interstitial + 2 spectator host
    'B2AB221sB': ('B2AB', [[2, 0, 0], [0, 2, 0], [0, 0, 1]], (1,)),    # 4 mobile + 4 spectator
    'HCP221': ('HCP', [[2, 0, 0], [0, 2, 0], [0, 0, 1]], ()),          # 8 mobile
    # minimum-image supercells (period >= 2 x cutoff for the expansions used with them)
    'CHAIN8': ('CHAIN', [[8, 0, 0], [0, 1, 0], [0, 0, 1]], ()),         # ring of 8, chains 4 apart
    'CHAINAB5': ('CHAINAB', [[5, 0, 0], [0, 1, 0], [0, 0, 1]], (1,)),   # ring of 5 mobile A + 5 spectator B
    'ZIGZAG4': ('ZIGZAG', [[4, 0, 0], [0, 1, 0], [0, 0, 1]], ()),       # ring of 4 cells x 2 mobile sites (jumps between different basis sites)
    'SQ33': ('SQLAYER', [[3, 0, 0], [0, 3, 0], [0, 0, 1]], ()),         # 3x3 square layer, 9 mobile; cutoff < 1.5
    'TRI33': ('TRILAYER', [[3, 0, 0], [0, 3, 0], [0, 0, 1]], ()),       # 3x3 triangular layer, 9 mobile; cutoff < 1.5
}
SMALL3D = ['B2AB211sB', 'HCP211', 'FCC2I', 'B2AB211sA', 'B2AB211m', 'FCCskew4', 'FCCO211sPd', 'B2AB221sB', 'HCP221']


_CRYS = {}


def get_crystal(cname):
    """catalogue crystal (or one of the layered crystals below), built once per process: Crystal objects are not mutated"""
    if cname not in _CRYS:
        from mc import catalog
        _CRYS[cname] = LOCAL[cname]() if cname in LOCAL else catalog.get(cname)
    return _CRYS[cname]


def build_supercell(name, vacancy=None):
    from onsager import supercell
    cname, sl, spec = SUPERCELLS[name]
    sup = supercell.ClusterSupercell(get_crystal(cname), np.array(sl, dtype=int), spectator=spec)
    if vacancy is not None: sup.addvacancy(vacancy)
    return sup


def mobile_chems(name):
    cname, sl, spec = SUPERCELLS[name]
    return [c for c in range(len(get_crystal(cname).basis)) if c not in spec]


def min_image_ok(sup, r):
    """True when every non-zero lattice vector of the supercell is longer than r"""
    S = np.dot(sup.crys.lattice, np.array(sup.superlatt, dtype=float))
    nm = box_range(S, r + 1.)
    for n in itertools.product(*[range(-k, k + 1) for k in nm]):
        if not any(n): continue
        if float(np.linalg.norm(np.dot(S, np.array(n, dtype=float)))) <= r + 1e-9: return False
    return True


def expansion(crys, icut, order, vac_chems=()):
    """(sorted classes, descriptors): makeclusters at the icut-th shell interval (+ vacancy clusters of the given
    species), classes in hash-seed independent order"""
    from onsager import cluster
    cut = cutoffs(crys, icut + 1)[icut]
    bare = cluster.makeclusters(crys, cut, order)
    full = list(bare)
    for c in vac_chems: full += cluster.makeVacancyClusters(crys, c, bare)
    classes, desc = sort_classes(crys, full)
    return classes, desc, cut


def bits(occ):
    return ''.join('v' if int(o) < 0 else str(int(o)) for o in occ)


def all_occupations(n, fixed=None):
    """every 0/1 vector of length n (site `fixed` held at -1), in counting order"""
    free = [i for i in range(n) if i != fixed]
    for b in itertools.product((0, 1), repeat=len(free)):
        occ = np.zeros(n, dtype=int)
        if fixed is not None: occ[fixed] = -1
        for i, v in zip(free, b): occ[i] = v
        yield occ


def jump_descriptor(crys, chem, jclass):
    """hash-seed independent description of a jump class: species, rounded length, sorted basis-index pairs"""
    (i, j), dx = jclass[0]
    pairs = sorted(set((int(a), int(b)) for (a, b), _ in jclass))
    return 'jump:{}:{:.4f}:{}'.format(crys.chemistry[chem], float(np.linalg.norm(dx)), ','.join('{}{}'.format(a, b) for a, b in pairs))


class Setup:
    """
    geometry of one sampler configuration (supercell, expansion, optional vacancy, optional jump network with TS
    clusters), with every class list in a hash-seed independent order; sampler(...) builds the real MonteCarloSampler
    """

    def __init__(self, name, icut, order, vac=None, jn=False, njshell=1):
        from onsager import cluster
        self.name, self.icut, self.order, self.vac, self.jn = name, icut, order, vac, jn
        self.sup = build_supercell(name, vac)
        crys = self.crys = self.sup.crys
        mch = mobile_chems(name)
        self.cut = cutoffs(crys, icut + 1)[icut]
        bare = cluster.makeclusters(crys, self.cut, order)
        full = list(bare)
        vacsets = {}
        if vac is not None:
            for c in mch:
                vacsets[c] = cluster.makeVacancyClusters(crys, c, bare)
                full += vacsets[c]
        self.classes, self.desc = sort_classes(crys, full)
        self.chem, self.jumpnetwork, self.jdesc, self.ts, self.tsdesc = None, [], [], [], []
        if jn:
            if vac is not None:
                self.chem = self.sup.mobileindices[vac % self.sup.Nmobile][0]
            else:
                self.chem = mch[-1] if len(mch) > 1 and name.startswith('FCCO') else mch[0]
            csh = shells(crys, njshell + 1, chems=[self.chem])
            self.jcut = 0.5 * (csh[njshell - 1] + csh[njshell])
            jnet = crys.jumpnetwork(self.chem, self.jcut)
            tagged = sorted(((jump_descriptor(crys, self.chem, jc), n) for n, jc in enumerate(jnet)))
            self.jumpnetwork = [jnet[n] for _, n in tagged]
            self.jdesc = [d for d, _ in tagged]
            src = vacsets[self.chem] if vac is not None else bare
            ts = cluster.makeTSclusters(crys, self.chem, self.jumpnetwork, src)
            self.ts, self.tsdesc = sort_classes(crys, ts)
        self.nm, self.ns = len(self.sup.mobilepos), len(self.sup.specpos)
        self._model = None

    def model(self):
        """(SupercellModel, prepared energy classes, prepared TS classes), built once"""
        if self._model is None:
            m = SupercellModel(self.sup)
            self._model = (m, m.prepare(self.classes), m.prepare_ts(self.ts))
        return self._model

    def minimage(self):
        """
        minimum-image situation for the barrier model: no cluster next to a jump can contain a second periodic image
        of one of the two end points.  If p (a site of a cluster containing end point i) coincides in the supercell
        with i or with the other end point j without being that site, the supercell vector L between them obeys
        |L| <= diameter(cluster) + |jump|.  So: every supercell vector longer than (largest pair distance below the
        cluster cutoff) + (largest jump length)  =>  minimum image holds.
        """
        diam = max([d for d in shells(self.crys, 8) if d < self.cut] + [0.])
        jl = max([float(np.linalg.norm(dx)) for jc in self.jumpnetwork for _, dx in jc] + [0.])
        return min_image_ok(self.sup, diam + jl)

    def label(self, socc=None):
        s = '{}:cut{}o{}:vac{}:{}'.format(self.name, self.icut, self.order, '-' if self.vac is None else self.vac, 'jn' if self.jn else 'nojn')
        if socc is not None: s += ':s' + (bits(socc) or '-')
        return s

    def nvalues(self):
        return len(self.classes) + 1, len(self.jumpnetwork), len(self.ts)

    def generic(self):
        nv, nj, nt = self.nvalues()
        return generic_values(nv), generic_values(nj, 31) * 0.5 + 3.0, generic_values(nt, 47) * 0.25

    def sampler(self, socc, values=None, kra=None, tsvalues=None):
        from onsager import cluster
        g = self.generic()
        values = g[0] if values is None else values
        socc = np.array(socc, dtype=int)
        if not self.jn:
            return cluster.MonteCarloSampler(self.sup, socc, self.classes, values)
        kra = g[1] if kra is None else kra
        tsvalues = g[2] if tsvalues is None else tsvalues
        return cluster.MonteCarloSampler(self.sup, socc, self.classes, values, self.chem, self.jumpnetwork,
                                         KRAvalues=kra, TSclusters=self.ts, TSvalues=tsvalues)


_SETUPS = {}


def get_setup(name, icut, order, vac=None, jn=False, njshell=1):
    """per-process cache of Setup objects (geometry only; samplers are always built fresh)"""
    k = (name, icut, order, vac, jn, njshell)
    if k not in _SETUPS: _SETUPS[k] = Setup(name, icut, order, vac, jn, njshell)
    return _SETUPS[k]
