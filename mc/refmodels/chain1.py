"""
R-chain1 -- the single-particle periodic chain, in the SITE basis.

A "chain" is: N sites in the unit cell, each with a prefactor and a (beta-scaled) energy, and a flat
list of jumps (i, j, dx, preT, betaET), every one with its own transition-state data.  Nothing else:
no symmetry classes, no vector basis, no choice of linear solver.

    rho_i        = pre_i exp(-bE_i) / Z                       (normalised over the unit cell)
    rate(i->j)   = preT / pre_i * exp(-(bET - bE_i))
    omega_ij     = sum_{jumps i->j} sqrt(rho_i) rate / sqrt(rho_j)  -  delta_ij sum_{jumps from i} rate
                   (symmetric, negative semidefinite, null vector sqrt(rho) on every connected component)
    b_i          = sqrt(rho_i) sum_{jumps from i} rate * dx
    D            = sum_i rho_i sum_{jumps from i} rate * 1/2 dx (x) dx   +   b^T omega^+ b
                   (omega^+ = pseudo-inverse: null modes removed; the second term is <= 0)

D is the long-time diffusivity  lim <x(t) x(t)>/2t  per particle (length^2 x rate), which is the quantity
Interstitial.diffusivity and GFCrystalcalc.D report (bound by selfcheck(): FCC octahedral network with
unit data gives D = a^2 * 1 exactly, a = 1 in the catalogue).

The model is bound to the definition of long-time diffusivity by dispersion_D(): the top eigenvalue
lambda(k) of the k-dependent symmetrised rate matrix behaves as -k.D.k, so D = -1/2 d^2 lambda / dk dk.

Also here, because C02/C03/C04/C05/C10/C11/C12 share them: geometric (hash-seed independent) class keys
and the deterministic data alphabets of DESIGN 5.2.
"""
import itertools
import numpy as np


# ------------------------------------------------------------------------------------------ the model
class Chain(object):
    def __init__(self, dim, pre, bene, jumps):
        """
        :param dim: 2 or 3
        :param pre: N site prefactors
        :param bene: N site energies (times beta)
        :param jumps: list of (i, j, dx, preT, beneT), both directions listed explicitly
        """
        self.dim = dim
        self.pre = np.array(pre, dtype=float)
        self.bene = np.array(bene, dtype=float)
        self.N = len(self.pre)
        self.jumps = [(int(i), int(j), np.array(dx, dtype=float), float(pT), float(bT)) for i, j, dx, pT, bT in jumps]

    # -- thermodynamics / kinetics
    def rho(self):
        e0 = self.bene.min()
        w = self.pre * np.exp(-(self.bene - e0))
        return w / w.sum()

    def rate(self, jump):
        i, j, dx, pT, bT = jump
        return pT / self.pre[i] * np.exp(self.bene[i] - bT)

    def components(self):
        """connected components of the jump graph (union-find); list of lists of sites"""
        par = list(range(self.N))

        def find(a):
            while par[a] != a:
                par[a] = par[par[a]]
                a = par[a]
            return a

        for i, j, dx, pT, bT in self.jumps:
            a, b = find(i), find(j)
            if a != b: par[a] = b
        comp = {}
        for i in range(self.N): comp.setdefault(find(i), []).append(i)
        return sorted(comp.values())

    def omega(self, k=None):
        """symmetrised rate matrix at wave vector k (None: k = 0, real)"""
        rho = self.rho()
        sq = np.sqrt(rho)
        om = np.zeros((self.N, self.N), dtype=float if k is None else complex)
        for jump in self.jumps:
            i, j, dx, pT, bT = jump
            r = self.rate(jump)
            ph = 1. if k is None else np.exp(1j * np.dot(k, dx))
            om[i, j] += sq[i] * r / sq[j] * ph
            om[i, i] -= r
        return om

    def bias(self):
        sq = np.sqrt(self.rho())
        b = np.zeros((self.N, self.dim))
        for jump in self.jumps:
            i, j, dx, pT, bT = jump
            b[i] += sq[i] * self.rate(jump) * dx
        return b

    def D0(self):
        rho = self.rho()
        D = np.zeros((self.dim, self.dim))
        for jump in self.jumps:
            i, j, dx, pT, bT = jump
            D += 0.5 * rho[i] * self.rate(jump) * np.outer(dx, dx)
        return D

    def pinv_omega(self):
        """pseudo-inverse of omega(k=0): the null modes (one per connected component, known from the graph,
        not from a numerical threshold) are removed, everything else is inverted"""
        om = self.omega()
        om = 0.5 * (om + om.T)
        sq = np.sqrt(self.rho())
        # projector onto the null space, built from the graph
        P = np.zeros((self.N, self.N))
        for comp in self.components():
            v = np.zeros(self.N)
            v[comp] = sq[comp]
            v /= np.sqrt(np.dot(v, v))
            P += np.outer(v, v)
        scale = max(abs(np.diag(om)).max(), 1e-300)
        # omega - scale*P is negative definite; its inverse restricted to the complement of the null space
        # is the pseudo-inverse of omega
        Q = np.eye(self.N) - P
        return np.dot(Q, np.dot(np.linalg.inv(om - scale * P), Q))

    def D(self):
        b = self.bias()
        return self.D0() + np.dot(b.T, np.dot(self.pinv_omega(), b))

    def Dparts(self):
        b = self.bias()
        return self.D0(), np.dot(b.T, np.dot(self.pinv_omega(), b))

    # -- definition of long-time diffusivity: dispersion of the diffusive mode
    def lambda_top(self, k):
        return np.linalg.eigvalsh(self.omega(np.array(k, dtype=float)))[-1]

    def dispersion_D(self, h=1e-3):
        """-1/2 d^2 lambda/dk_a dk_b at k=0 by central differences"""
        d = self.dim
        D = np.zeros((d, d))
        l0 = self.lambda_top(np.zeros(d))
        e = np.eye(d)
        for a in range(d):
            D[a, a] = -0.5 * (self.lambda_top(h * e[a]) - 2 * l0 + self.lambda_top(-h * e[a])) / h ** 2
            for b in range(a + 1, d):
                v = (self.lambda_top(h * (e[a] + e[b])) - self.lambda_top(h * (e[a] - e[b]))
                     - self.lambda_top(h * (e[b] - e[a])) + self.lambda_top(-h * (e[a] + e[b]))) / (4 * h ** 2)
                D[a, b] = D[b, a] = -0.5 * v
        return D

    def cond(self):
        """condition number of omega on the complement of its null space (lambda_max / lambda_min,nonzero)"""
        lam = np.linalg.eigvalsh(-0.5 * (self.omega() + self.omega().T))
        nz = lam[len(self.components()):]
        if len(nz) == 0: return 1.
        return float(nz[-1] / max(nz[0], 1e-300))

    # -- relaxation modes (C12)
    def modes(self):
        """eigenvalues (of -omega, ascending) and eigenvectors (columns) of the symmetrised rate matrix"""
        om = self.omega()
        lam, phi = np.linalg.eigh(-0.5 * (om + om.T))
        return lam, phi


def from_network(crys, chem, sitelist, jumpnetwork, pre, betaene, preT, betaeneT):
    """expand per-class data to a Chain: every site / jump gets the data of its class"""
    N = len(crys.basis[chem])
    spre, sene = np.zeros(N), np.zeros(N)
    seen = np.zeros(N, dtype=int)
    for w, sites in enumerate(sitelist):
        for i in sites:
            spre[i], sene[i] = pre[w], betaene[w]
            seen[i] += 1
    if not np.all(seen == 1): raise ValueError('sitelist does not partition the sites of species {}'.format(chem))
    jumps = []
    for c, jl in enumerate(jumpnetwork):
        for (i, j), dx in jl:
            jumps.append((i, j, dx, preT[c], betaeneT[c]))
    return Chain(crys.dim, spre, sene, jumps)


# ------------------------------------------------------------ two extra polar crystals (not in the catalogue)
# The catalogue's only inversion-free vector-basis crystal (WURTZ2) has identically zero bias (up and down
# jumps are one class), so the pinv branch of Interstitial.bias_solver is entered there with b = 0.  These two
# have a NON-ZERO bias in the pinv branch: two inequivalent Wyckoff sets of the mobile species on a polar axis.
def _polar4():
    from onsager import crystal
    s3 = np.sqrt(3.)
    lat = np.dot(np.array([[0.5, 0.5, 0.], [-s3 / 2, s3 / 2, 0.], [0., 0., 1.]]), np.diag([1., 1., 1.63]))
    return crystal.Crystal(lat, [[np.array([1 / 3, 2 / 3, 0.]), np.array([2 / 3, 1 / 3, 0.5]),
                                  np.array([1 / 3, 2 / 3, 0.40]), np.array([2 / 3, 1 / 3, 0.90])],
                                 [np.array([0., 0., 0.1]), np.array([0., 0., 0.6])]], ['M', 'X'])


def _pm2d():
    from onsager import crystal
    return crystal.Crystal(np.diag([1., 1.2]), [[np.zeros(2)], [np.array([0.5, 0.3]), np.array([0.5, 0.55])]], ['A', 'B'])


EXTRA = {
    # wurtzite (u = 0.40) with both sublattices the same mobile species (2+2 sites) and a spectator species on the
    # 2a sites that removes the inversion: space group P6_3mc, polar axis z
    'POLAR4': (_polar4, dict(chem=0, cut=[0.7, 1.01], vectorbasis=True, noinversion=True)),
    # 2D plane group pm: two inequivalent B sites on the mirror line x = 1/2, no 2-fold rotation
    'PM2D': (_pm2d, dict(chem=1, cut=[1.01, 1.25], vectorbasis=True, noinversion=True)),
}


def meta(catalog, name):
    return EXTRA[name][1] if name in EXTRA else catalog.meta(name)


def network(catalog, name, icut=0):
    """(crys, chem, sitelist, jumpnetwork) for catalogue or EXTRA crystal `name`, icut-th cutoff"""
    if name not in EXTRA: return catalog.network(name, icut)
    crys, m = EXTRA[name][0](), EXTRA[name][1]
    return crys, m['chem'], crys.sitelist(m['chem']), crys.jumpnetwork(m['chem'], m['cut'][icut])


# ------------------------------------------------------------------- geometric (hash-seed free) class keys
def _r(x, nd=6):
    v = np.round(np.asarray(x, dtype=float), nd) + 0.   # +0. turns -0. into 0.
    return tuple(float(t) for t in v)


def _incell(u):
    u = np.asarray(u, dtype=float)
    u = u - np.floor(u + 1e-9)
    return u


def sitekey(crys, chem, sites):
    """canonical description of a Wyckoff set: the smallest rounded unit-cell position among its members"""
    return min(_r(_incell(crys.basis[chem][i])) for i in sites)


def jumpkey(crys, chem, jumplist):
    """canonical description of a jump class: (rounded length, smallest (start position, dx) among members)"""
    (i0, j0), dx0 = jumplist[0]
    return (round(float(np.sqrt(np.dot(dx0, dx0))), 6),
            min(_r(_incell(crys.basis[chem][i])) + _r(dx) for (i, j), dx in jumplist))


def classranks(crys, chem, sitelist, jumpnetwork):
    """
    :return srank[w], jrank[c]: position of each class in the geometrically sorted list of classes
        (independent of class order / representative choice, hence of PYTHONHASHSEED)
    :return skeys, jkeys: the keys themselves (strings, for violation keys)
    """
    sk = [sitekey(crys, chem, s) for s in sitelist]
    jk = [jumpkey(crys, chem, j) for j in jumpnetwork]
    if len(set(sk)) != len(sk) or len(set(jk)) != len(jk):
        raise ValueError('geometric class keys are not unique')
    so, jo = sorted(sk), sorted(jk)
    return [so.index(k) for k in sk], [jo.index(k) for k in jk], sk, jk


# ------------------------------------------------------------------------------------- data alphabets
LN2, LN3 = float(np.log(2.)), float(np.log(3.))
ENE_DEV = (('-ln2', -LN2), ('+ln3', LN3), ('+5', 5.))       # added to the base value
PRE_DEV = (('x2', 2.), ('x1/3', 1. / 3.))                     # multiplies the base value
BASES = ('T', 'G1', 'G2', 'X')


def _g(r, step):
    """r-th multiple of an irrational step, folded into [-1, 1)"""
    return 2. * (((r + 1) * step) % 1.) - 1.


S2, S3, S5, S7 = np.sqrt(2.) - 1., np.sqrt(3.) - 1., (np.sqrt(5.) - 1.) / 2., np.sqrt(7.) - 2.


def basedata(base, ns, nj):
    """
    base-point data BY GEOMETRIC RANK: returns (pre[ns], bene[ns], preT[nj], beneT[nj]) where index = rank
      T  : everything equal (pre 1, E 0, preT 1, ET 0) -- the tracer / unit-rate point of the test suite
      G1 : generic weak:  |bE| <= 0.5, bET in 1 +- 0.5, prefactors exp(+-0.4)
      G2 : generic strong: |bE| <= 3,  bET in 4 +- 1.5, prefactors exp(+-1)
      X  : extreme: site energies {0, ln 1e2}, barriers spread over ln 1e6 -> rate ratios up to 1e8
    """
    rs, rj = np.arange(ns), np.arange(nj)
    if base == 'T':
        return np.ones(ns), np.zeros(ns), np.ones(nj), np.zeros(nj)
    if base == 'G1':
        return (np.exp(0.4 * _g(rs, S3)), 0.5 * _g(rs, S2), np.exp(0.4 * _g(rj, S7)), 1. + 0.5 * _g(rj, S5))
    if base == 'G2':
        return (np.exp(1.0 * _g(rs, S7)), 3.0 * _g(rs, S5), np.exp(1.0 * _g(rj, S3)), 4. + 1.5 * _g(rj, S2))
    if base == 'X':
        l2, l6 = np.log(1e2), np.log(1e6)
        return (np.ones(ns), l2 * (rs % 2), np.ones(nj), l2 + l6 * ((rj % 3) / 2.))
    raise KeyError(base)


def coordinates(ns, nj):
    """the coordinates of the data space, by geometric rank: (kind, rank)"""
    return ([('E', r) for r in range(ns)] + [('pre', r) for r in range(ns)] +
            [('ET', r) for r in range(nj)] + [('preT', r) for r in range(nj)])


def letters(kind):
    return ENE_DEV if kind in ('E', 'ET') else PRE_DEV


def nodes(ns, nj, k):
    """all deviation sets of size <= k: tuples of ((kind, rank), lettername), fewest deviations first"""
    co = coordinates(ns, nj)
    out = [()]
    for n in range(1, k + 1):
        for sub in itertools.combinations(range(len(co)), n):
            for lets in itertools.product(*[[l[0] for l in letters(co[c][0])] for c in sub]):
                out.append(tuple((co[c], l) for c, l in zip(sub, lets)))
    return out


def nodedata(base, ns, nj, devs):
    """rank-indexed data arrays of the node `devs` around `base`"""
    pre, ene, preT, eneT = [np.array(a, dtype=float) for a in basedata(base, ns, nj)]
    tab = {'E': ene, 'pre': pre, 'ET': eneT, 'preT': preT}
    for (kind, r), l in devs:
        v = dict(letters(kind))[l]
        if kind in ('E', 'ET'): tab[kind][r] += v
        else: tab[kind][r] *= v
    return pre, ene, preT, eneT


def nodekey(devs):
    return ','.join('{}{}{}'.format(kind, r, l) for (kind, r), l in devs) or 'base'


def toclassorder(rankdata, srank, jrank):
    """rank-indexed data -> lists in the class order of this process's sitelist / jumpnetwork"""
    pre, ene, preT, eneT = rankdata
    return (np.array([pre[r] for r in srank]), np.array([ene[r] for r in srank]),
            np.array([preT[r] for r in jrank]), np.array([eneT[r] for r in jrank]))


# ------------------------------------------------------------------------------------------ self check
def selfcheck(catalog, names=(('HCP_OT', 1), ('P1', 1), ('WURTZ2', 0)), tol=1e-5):
    """
    binds the model to ground truth; returns a list of failure strings (empty = fine)
      1. FCC octahedral network, unit data: D = a^2 exactly (12 jumps of length a/sqrt2, rate 1: 1/2*12*(1/6)=1)
      2. on three crystals with generic strong data: D() == -1/2 d^2 lambda(k)/dk^2 (finite differences)
    """
    fails = []
    crys, chem, sl, jn = catalog.network('FCC_O', 0)
    ch = from_network(crys, chem, sl, jn, [1.], [0.], [1.] * len(jn), [0.] * len(jn))
    if not np.allclose(ch.D(), np.eye(3), atol=1e-13): fails.append('FCC_O unit D = {}'.format(ch.D()))
    for name, icut in names:
        crys, chem, sl, jn = catalog.network(name, icut)
        sr, jr, _, _ = classranks(crys, chem, sl, jn)
        data = toclassorder(basedata('G2', len(sl), len(jn)), sr, jr)
        ch = from_network(crys, chem, sl, jn, *data)
        D, Dk = ch.D(), ch.dispersion_D()
        if not np.all(abs(D - Dk) <= tol * abs(D).max()):
            fails.append('{}:{} D {} dispersion {}'.format(name, icut, D.tolist(), Dk.tolist()))
    return fails
