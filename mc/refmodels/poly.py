"""
R-poly: the reference model for C16 / C17 (Taylor3D / Taylor2D power expansions).

Deliberately boring and independent of onsager.PowerExpansion:

* an expansion is a list of terms (n, {exponent tuple: coefficient ndarray of shape S}); its value at u is
      f(u) = sum_terms |u|^n * sum_exps coef * prod_k (u_k/|u|)^(e_k)
  (the convention of Taylor3D.__call__ / powexp: "n defines the magnitude function", the power expansion
  is in the components of the NORMALISED vector);  monomials are addressed by their exponent tuple, never
  by an index, so the index order used by the class is not part of the model;
* spherical harmonics from an own associated-Legendre recursion (cross-checked against
  scipy.special.sph_harm_y when that exists), circular harmonics exp(i l theta) = (x+iy)^l;
* harmonic analysis of a function on the sphere/circle by least squares on a point set that is verified
  (numerical rank) to be unisolvent for polynomials of degree <= L restricted to the sphere/circle: for
  such a set agreement at the points decides the polynomial identity;
* graded polynomial algebra (sum, product, truncated inverse series) on {n: {exps: coef}} dictionaries.

selftest() validates the evaluator and the harmonics against hand-written identities; the checks call it
before anything is compared with the real code.
"""
import itertools, math
import numpy as np

RADII = (0., 0.3, 1., 2.5)
GOLD = 0.6180339887498949


# ---------------------------------------------------------------------------- monomials and points
def exps(dim, L):
    """all exponent tuples of total degree <= L (own order: degree, then lexicographic)"""
    out = []
    for d in range(L + 1):
        for e in itertools.product(range(d + 1), repeat=dim):
            if sum(e) == d: out.append(tuple(e))
    return out


def nharm(dim, L):
    """dimension of {polynomials of degree <= L} restricted to the unit sphere / circle"""
    return (L + 1) ** 2 if dim == 3 else 2 * L + 1


def directions(dim, ngeneric=None):
    """
    deterministic direction set of DESIGN 5.2: axis, face-diagonal, body-diagonal + generic directions
    (3D: 6 + 12 + 8 + 30; 2D: 4 + 4 + 12).  Returns (U[npts, dim] unit vectors, labels).
    """
    U, lab = [], []
    if dim == 3:
        for i in range(3):
            for s in (1., -1.):
                v = np.zeros(3); v[i] = s; U.append(v); lab.append('axis')
        for i, j in ((0, 1), (0, 2), (1, 2)):
            for si in (1., -1.):
                for sj in (1., -1.):
                    v = np.zeros(3); v[i] = si; v[j] = sj; U.append(v / np.sqrt(2.)); lab.append('face')
        for s in itertools.product((1., -1.), repeat=3):
            U.append(np.array(s) / np.sqrt(3.)); lab.append('body')
        N = 30 if ngeneric is None else ngeneric
        for k in range(N):
            z = 1. - 2. * (k + 0.5 + 0.11 * np.sin(1.7 * k + 0.3)) / N
            phi = 2 * np.pi * ((k * GOLD + 0.123) % 1.)
            s = np.sqrt(max(0., 1. - z * z))
            U.append(np.array([s * np.cos(phi), s * np.sin(phi), z])); lab.append('generic')
    elif dim == 2:
        for i in range(2):
            for s in (1., -1.):
                v = np.zeros(2); v[i] = s; U.append(v); lab.append('axis')
        for s in itertools.product((1., -1.), repeat=2):
            U.append(np.array(s) / np.sqrt(2.)); lab.append('diag')
        N = 12 if ngeneric is None else ngeneric
        for k in range(N):
            th = 0.37 + 2 * np.pi * ((k * GOLD) % 1.)
            U.append(np.array([np.cos(th), np.sin(th)])); lab.append('generic')
    else:
        raise ValueError(dim)
    return np.array(U), lab


def monomials(U, explist):
    """M[p, e] = prod_k U[p,k]**e_k  (0**0 = 1)"""
    U = np.asarray(U, dtype=float)
    M = np.ones((U.shape[0], len(explist)))
    for j, e in enumerate(explist):
        for k, ek in enumerate(e):
            if ek: M[:, j] *= U[:, k] ** ek
    return M


def numrank(A, rtol=1e-10):
    s = np.linalg.svd(np.asarray(A), compute_uv=False)
    if s.size == 0 or s[0] == 0: return 0, np.inf
    r = int(np.sum(s > rtol * s[0]))
    return r, float(s[0] / s[r - 1])


# ---------------------------------------------------------------------------- harmonics
def _fact(n): return float(math.factorial(n))


def ylm_own(l, m, U):
    """Y_lm (Condon-Shortley phase, orthonormal on the sphere) at unit vectors U[npts,3]; own recursion"""
    U = np.asarray(U, dtype=float)
    x, y, z = U[:, 0], U[:, 1], U[:, 2]
    ma = abs(m)
    s = np.sqrt(np.maximum(0., 1. - z * z))
    # P_ma^ma
    pmm = np.ones_like(z)
    for i in range(1, ma + 1):
        pmm = -pmm * (2 * i - 1) * s
    if l == ma:
        plm = pmm
    else:
        pm1 = z * (2 * ma + 1) * pmm
        if l == ma + 1:
            plm = pm1
        else:
            p0, p1 = pmm, pm1
            for ll in range(ma + 2, l + 1):
                p2 = (z * (2 * ll - 1) * p1 - (ll + ma - 1) * p0) / (ll - ma)
                p0, p1 = p1, p2
            plm = p1
    # exp(i ma phi) * s^ma is (x+iy)^ma: avoid atan2 at the poles
    with np.errstate(invalid='ignore', divide='ignore'):
        eiphi = np.where(s > 1e-300, (x + 1j * y) / np.where(s > 1e-300, s, 1.), 1. + 0j)
    Y = np.sqrt((2 * l + 1) / (4 * np.pi) * _fact(l - ma) / _fact(l + ma)) * plm * eiphi ** ma
    if m < 0: Y = (-1) ** ma * np.conj(Y)
    return Y


def ylm(l, m, U):
    """Y_lm from scipy.special.sph_harm_y when available (SciPy >= 1.15), else own implementation"""
    try:
        from scipy.special import sph_harm_y
    except ImportError:
        return ylm_own(l, m, U)
    U = np.asarray(U, dtype=float)
    theta = np.arccos(np.clip(U[:, 2], -1., 1.))
    phi = np.arctan2(U[:, 1], U[:, 0])
    return sph_harm_y(l, m, theta, phi)


def fc(l, U):
    """circular harmonic exp(i l theta) at unit vectors U[npts,2]"""
    U = np.asarray(U, dtype=float)
    w = U[:, 0] + 1j * U[:, 1]
    return w ** l if l >= 0 else np.conj(w) ** (-l)


def harm_labels(dim, L):
    """list of (l, m) in 3D (m=-l..l) / (|l|, l) in 2D (l=-L..L); first entry = angular order"""
    if dim == 3: return [(l, m) for l in range(L + 1) for m in range(-l, l + 1)]
    return [(abs(l), l) for l in range(-L, L + 1)]


def harm_matrix(dim, L, U, own=True):
    lab = harm_labels(dim, L)
    if dim == 3:
        f = ylm_own if own else ylm
        return np.array([f(l, m, U) for (l, m) in lab]).T, lab
    return np.array([fc(m, U) for (l, m) in lab]).T, lab


class Harmonics(object):
    """harmonic analysis on a unisolvent direction set"""

    def __init__(self, dim, L, U):
        self.dim, self.L, self.U = dim, L, np.asarray(U)
        self.Y, self.lab = harm_matrix(dim, L, U)
        self.rank, self.cond = numrank(self.Y)
        E = exps(dim, L)
        self.monorank, _ = numrank(monomials(U, E))
        self.unisolvent = (self.rank == nharm(dim, L) == self.monorank)
        self.Ypinv = np.linalg.pinv(self.Y)
        self.lof = np.array([l for l, m in self.lab])

    def coeffs(self, F):
        """harmonic coefficients [nharm, ...] of function values F[npts, ...] and the max fit residual"""
        F = np.asarray(F)
        c = np.tensordot(self.Ypinv, F, axes=(1, 0))
        res = np.abs(np.tensordot(self.Y, c, axes=(1, 0)) - F)
        return c, (float(res.max()) if res.size else 0.)

    def component(self, F, l):
        c, _ = self.coeffs(F)
        sel = self.lof == l
        return np.tensordot(self.Y[:, sel], c[sel], axes=(1, 0))

    def content(self, F):
        """max |component_l| for l = 0..L"""
        c, _ = self.coeffs(F)
        out = []
        for l in range(self.L + 1):
            sel = self.lof == l
            v = np.tensordot(self.Y[:, sel], c[sel], axes=(1, 0))
            out.append(float(np.abs(v).max()) if v.size else 0.)
        return out


# ---------------------------------------------------------------------------- reference expansions
class RExp(object):
    """reference expansion: terms = list of (n, {exps: ndarray(shape)}); duplicates in n simply add"""

    def __init__(self, dim, shape, terms):
        self.dim, self.shape = dim, tuple(shape)
        self.terms = [(int(n), {tuple(e): np.asarray(c) for e, c in d.items()}) for n, d in terms]

    def ns(self):
        return sorted(set(n for n, d in self.terms))

    def angular(self, U):
        """{n: G[npts, *shape]}  with G the angular function multiplying |u|^n"""
        out = {}
        U = np.asarray(U)
        for n, d in self.terms:
            E = list(d.keys())
            if not E: continue
            M = monomials(U, E)
            C = np.array([d[e] for e in E])
            g = np.tensordot(M, C, axes=(1, 0))
            out[n] = out[n] + g if n in out else g
        return out

    def continuous_at_0(self):
        """all n >= 0 and the n = 0 terms carry only the constant monomial (so f has a value at u = 0)"""
        z = (0,) * self.dim
        for n, d in self.terms:
            if n < 0: return False
            if n == 0 and any(e != z and np.any(c != 0) for e, c in d.items()): return False
        return True

    def value0(self):
        z = (0,) * self.dim
        v = np.zeros(self.shape, dtype=complex)
        for n, d in self.terms:
            if n == 0 and z in d: v = v + d[z]
        return v


def combine(gdict, r):
    """sum_n r^n G_n for angular dictionaries {n: G}"""
    tot = 0.
    for n, g in gdict.items(): tot = tot + float(r) ** n * g
    return tot


def gmax(gdict):
    m = 0.
    for g in gdict.values():
        g = np.asarray(g)
        if g.size: m = max(m, float(np.abs(g).max()))
    return m


def gdiff(ga, gb):
    """max over n and points of |ga_n - gb_n| (a missing n is the zero function)"""
    m, where = 0., None
    for n in set(ga) | set(gb):
        a, b = ga.get(n), gb.get(n)
        if a is None: d = np.abs(np.asarray(b))
        elif b is None: d = np.abs(np.asarray(a))
        else:
            a, b = np.asarray(a), np.asarray(b)
            if a.shape != b.shape: return np.inf, ('shape', n, a.shape, b.shape)
            d = np.abs(a - b)
        if d.size and float(d.max()) > m: m, where = float(d.max()), n
    return m, where


def gprod(ga, gb, matrix):
    """pointwise product of evaluated expansions: {n: sum_{na+nb=n} A_na(u) . B_nb(u)}"""
    out = {}
    for na, A in ga.items():
        for nb, B in gb.items():
            if matrix: P = np.einsum('p...ij,p...jk->p...ik', A, B) if False else np.matmul(A, B)
            else: P = _bcast_mul(A, B)
            out[na + nb] = out[na + nb] + P if (na + nb) in out else P
    return out


def _bcast_mul(A, B):
    """scalar-field times (scalar|matrix)-field, pointwise along axis 0"""
    A, B = np.asarray(A), np.asarray(B)
    if A.ndim < B.ndim: A = A.reshape(A.shape + (1,) * (B.ndim - A.ndim))
    if B.ndim < A.ndim: B = B.reshape(B.shape + (1,) * (A.ndim - B.ndim))
    return A * B


# ---------------------------------------------------------------------------- graded polynomial algebra
def pmul(da, db, matrix):
    out = {}
    for ea, ca in da.items():
        for eb, cb in db.items():
            e = tuple(x + y for x, y in zip(ea, eb))
            c = np.dot(ca, cb) if matrix else ca * cb
            out[e] = out[e] + c if e in out else c
    return out


def gradd(A, B, alpha=1., beta=1.):
    out = {}
    for src, f in ((A, alpha), (B, beta)):
        for n, d in src.items():
            o = out.setdefault(n, {})
            for e, c in d.items(): o[e] = o[e] + f * c if e in o else f * c
    return out


def grmul(A, B, matrix):
    out = {}
    for na, da in A.items():
        for nb, db in B.items():
            p = pmul(da, db, matrix)
            o = out.setdefault(na + nb, {})
            for e, c in p.items(): o[e] = o[e] + c if e in o else c
    return out


def grdeg(A):
    """max total degree of any monomial with a non-zero coefficient"""
    m = 0
    for d in A.values():
        for e, c in d.items():
            if np.any(np.asarray(c) != 0): m = max(m, sum(e))
    return m


def grinverse(A, Nmax, dim):
    """
    truncated inverse series of A = A_n0 + B (A_n0 a constant invertible leading coefficient):
    sum_i (-A0^-1 B)^i A0^-1, keeping orders n <= Nmax.  Returns (graded dict, max monomial degree that
    occurred in any KEPT term before truncation) -- the latter tells whether the real code (fixed Lmax) can
    represent the result.
    """
    z = (0,) * dim
    n0 = min(A)
    lead = A[n0]
    if any(e != z and np.any(c != 0) for e, c in lead.items()): raise ValueError('leading term not isotropic')
    A0 = np.asarray(lead[z])
    matrix = A0.ndim == 2
    A0i = np.linalg.inv(A0) if matrix else 1. / A0
    tail = {n - n0: {e: -(np.dot(A0i, c) if matrix else A0i * c) for e, c in d.items()}
            for n, d in A.items() if n != n0}          # -A0^-1 B, orders relative to the leading one (> 0)
    kmax = Nmax + n0                                    # relative order to keep
    series = {0: {z: np.eye(A0.shape[0], dtype=complex) if matrix else np.array(1. + 0j)}}
    power = dict(series)
    maxdeg = 0
    if tail and kmax >= 0:
        step = min(tail)
        for i in range(1, kmax // step + 1):
            power = {k: d for k, d in grmul(power, tail, matrix).items() if k <= kmax}
            if not power: break
            maxdeg = max(maxdeg, grdeg(power))
            series = gradd(series, power)
    out = {}
    for k, d in series.items():
        if k > kmax and k != 0: continue
        out[k - n0] = {e: (np.dot(c, A0i) if matrix else c * A0i) for e, c in d.items()}
    return out, maxdeg


def greval(A, U):
    """angular functions {n: G[npts,...]} of a graded dictionary"""
    out = {}
    for n, d in A.items():
        E = list(d.keys())
        if not E: continue
        C = np.array([d[e] for e in E])
        out[n] = np.tensordot(monomials(U, E), C, axes=(1, 0))
    return out


# ---------------------------------------------------------------------------- deterministic "generic" numbers
_IRR = (1.4142135623730951, 1.7320508075688772, 2.23606797749979)


def gencoef(tag, n, l, e, shape, real=False):
    """generic deterministic coefficient array for monomial e of term (n, l); |entries| = O(1)"""
    base = 0.9 + 1.2345 * tag + 0.7071 * n + 0.5772 * l + sum(ek * _IRR[k] for k, ek in enumerate(e))
    idx = np.indices(shape) if len(shape) else np.zeros((0,))
    ph = base + (sum(0.3183 * (k + 1) * idx[k] * (1 + 0.37 * k) for k in range(len(shape))) if len(shape) else 0.)
    c = np.cos(ph) + 0.25 + 1j * np.sin(2.3 * ph + 0.5)
    c = np.asarray(c.real if real else c)
    return c.reshape(shape)


def genmatrix(tag, shape):
    """generic deterministic complex matrix (multiplier for ldot/rdot)"""
    i, j = np.indices(shape)
    ph = 0.4 + 0.77 * tag + 1.13 * i + 0.61 * j
    return np.cos(ph) + 1j * np.sin(1.9 * ph + 0.2) + (i == j) * 1.5


# ---------------------------------------------------------------------------- self validation
def selftest():
    """returns a list of failure strings (empty = the reference model is believed)"""
    bad = []
    for dim in (3, 2):
        U, lab = directions(dim)
        H = Harmonics(dim, 4, U)
        if not H.unisolvent:
            bad.append('dim {}: point set not unisolvent (harm rank {}, monomial rank {}, need {})'.format(
                dim, H.rank, H.monorank, nharm(dim, 4)))
        if H.cond > 1e4: bad.append('dim {}: harmonic matrix badly conditioned {}'.format(dim, H.cond))
        if abs(np.linalg.norm(U, axis=1) - 1).max() > 1e-14: bad.append('directions not normalised')
        # |u|^2 == 1 on the sphere, written as a polynomial
        r2 = RExp(dim, (), [(0, {tuple(2 * (k == j) for k in range(dim)): 1. for j in range(dim)})])
        if abs(r2.angular(U)[0] - 1).max() > 1e-14: bad.append('x^2+y^2(+z^2) != 1')
        # (x+y)^2 - x^2 - y^2 - 2xy == 0 as polynomials through pmul
        lin = {tuple(int(k == 0) for k in range(dim)): np.array(1.), tuple(int(k == 1) for k in range(dim)): np.array(1.)}
        sq = pmul(lin, lin, False)
        xy = tuple(int(k < 2) for k in range(dim))
        if not (sq[xy] == 2. and len(sq) == 3): bad.append('pmul (x+y)^2')
        # radial convention: f = r^2 * xhat^2 is x^2
        f = RExp(dim, (), [(2, {tuple(2 * (k == 0) for k in range(dim)): 1.})])
        u = np.array([0.3, -0.7, 0.45][:dim])
        r = np.linalg.norm(u)
        if abs(combine(f.angular([u / r]), r)[0] - u[0] ** 2) > 1e-14: bad.append('radial convention')
        # inverse series of 1 + x r (scalar): 1 - x r + x^2 r^2
        ex = tuple(int(k == 0) for k in range(dim))
        inv, md = grinverse({0: {(0,) * dim: np.array(1. + 0j)}, 1: {ex: np.array(1. + 0j)}}, 2, dim)
        e2 = tuple(2 * int(k == 0) for k in range(dim))
        if not (abs(inv[1][ex] + 1) < 1e-15 and abs(inv[2][e2] - 1) < 1e-15 and md == 2): bad.append('grinverse')
    # --- 3D harmonics: closed forms, scipy cross-check, orthonormality by exact quadrature
    U, _ = directions(3)
    x, y, z = U.T
    closed = {(0, 0): 0.5 / np.sqrt(np.pi) + 0 * x, (1, 0): np.sqrt(3 / (4 * np.pi)) * z,
              (1, 1): -np.sqrt(3 / (8 * np.pi)) * (x + 1j * y), (1, -1): np.sqrt(3 / (8 * np.pi)) * (x - 1j * y),
              (2, 0): np.sqrt(5 / (16 * np.pi)) * (3 * z * z - 1), (2, 2): np.sqrt(15 / (32 * np.pi)) * (x + 1j * y) ** 2,
              (2, -1): np.sqrt(15 / (8 * np.pi)) * (x - 1j * y) * z,
              (3, 3): -np.sqrt(35 / (64 * np.pi)) * (x + 1j * y) ** 3,
              (4, 0): 3 / (16 * np.sqrt(np.pi)) * (35 * z ** 4 - 30 * z ** 2 + 3)}
    for (l, m), v in closed.items():
        if abs(ylm_own(l, m, U) - v).max() > 1e-13: bad.append('ylm_own closed form {} {}'.format(l, m))
    for l in range(7):
        for m in range(-l, l + 1):
            if abs(ylm_own(l, m, U) - ylm(l, m, U)).max() > 1e-12: bad.append('ylm_own vs scipy {} {}'.format(l, m))
    xs, ws = np.polynomial.legendre.leggauss(8)
    nphi = 17
    Q, W = [], []
    for xq, wq in zip(xs, ws):
        for k in range(nphi):
            ph = 2 * np.pi * k / nphi
            s = np.sqrt(1 - xq * xq)
            Q.append([s * np.cos(ph), s * np.sin(ph), xq]); W.append(wq * 2 * np.pi / nphi)
    Q, W = np.array(Q), np.array(W)
    Y, lab = harm_matrix(3, 6, Q)
    G = np.dot(Y.conj().T * W, Y)
    if abs(G - np.eye(len(lab))).max() > 1e-12: bad.append('ylm_own not orthonormal under exact quadrature')
    return bad
