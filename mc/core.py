"""
Core of the bounded-exhaustive explorer: case enumeration -> worker pool -> oracle results ->
known-findings filter -> evidence / replay files / exit code.

A check module (mc/checks/cNN.py) provides

    PID        = 'C28'
    TECHNIQUE  = short text
    RULE       = how cases are enumerated / what is non-trivial
    def cases(tier) -> list of JSON-serialisable case dicts (enumeration order = simplest first)
    def evaluate(case) -> dict with any of
          'states'       int   distinct states / nodes evaluated on the real code
          'transitions'  int   edges / operations executed and checked
          'execs'        int   executions of the real code compared against a reference model
          'outcomes'     list of hashable digests of observed outcomes (vacuity guard)
          'nontrivial'   int   nodes that differ from the base point AND whose observable differs
          'violations'   list of {'oracle': str, 'key': str, 'detail': ..., 'case': optional sub-case}
          'sample'       optional JSON value written into evidence.samples
          'capped'       bool  True when a cap cut the enumeration of this case short
    optional: ASSUMPTIONS (list of str), BOUNDS(tier) -> dict written into the evidence

Every violation gets a signature string  "<oracle>|<key>"  where key is a canonical, hash-seed
independent description of the failing input (crystal name, data letters, history).  Known findings
match on (property, regex over that signature).
"""
import os, sys, json, time, hashlib, traceback, re, importlib, multiprocessing, warnings

VERIF = os.path.dirname(os.path.dirname(os.path.abspath(__file__)))
NPROC = int(os.environ.get('VERIF_NPROC', '16'))


def canon_json(obj):
    return json.dumps(obj, sort_keys=True, default=_default)


def _default(o):
    import numpy as np
    if isinstance(o, np.ndarray): return o.tolist()
    if isinstance(o, (np.integer,)): return int(o)
    if isinstance(o, (np.floating,)): return float(o)
    if isinstance(o, (set, frozenset)): return sorted(o)
    if isinstance(o, tuple): return list(o)
    if isinstance(o, complex): return [o.real, o.imag]
    return repr(o)


def digest(obj):
    return hashlib.sha1(canon_json(obj).encode()).hexdigest()[:12]


def _worker(args):
    modname, idx, case = args
    t0 = time.time()
    try:
        mod = importlib.import_module(modname)
        with warnings.catch_warnings():
            warnings.simplefilter('ignore')
            res = mod.evaluate(case)
    except Exception as e:  # harness or library failure outside an oracle: reported as a violation
        res = {'violations': [{'oracle': 'exception', 'key': case_key(case),
                               'detail': ''.join(traceback.format_exception_only(type(e), e)).strip()
                                         + ' @ ' + _tb_where(e)}]}
    res.setdefault('violations', [])
    res['_idx'] = idx
    res['_wall'] = time.time() - t0
    return res


def _tb_where(e):
    tb = traceback.extract_tb(e.__traceback__)
    if not tb: return '?'
    fr = tb[-1]
    return '{}:{}:{}'.format(os.path.basename(fr.filename), fr.lineno, fr.name)


def case_key(case):
    if isinstance(case, dict) and 'key' in case: return str(case['key'])
    return digest(case)


def load_known():
    path = os.path.join(VERIF, 'known_findings.json')
    if not os.path.exists(path): return []
    with open(path) as f:
        return json.load(f)['findings']


def match_known(pid, sig, known):
    for k in known:
        if k['property'] != pid or k.get('status') != 'open': continue
        if re.search(k['match'], sig): return k
    return None


def run_check(modname, tier, seed, replay=None):
    t0 = time.time()
    mod = importlib.import_module(modname)
    pid = mod.PID
    if replay is not None:
        with open(replay) as f:
            rep = json.load(f)
        case = rep['case']
        res = _worker((modname, 0, case))
        bad = [v for v in res['violations']]
        for v in bad:
            print('REPLAY-VIOLATION property={} oracle={} key={} detail={}'.format(
                pid, v['oracle'], v.get('key'), canon_json(v.get('detail'))[:400]))
        if not bad: print('REPLAY-OK property={} (case no longer violates)'.format(pid))
        return 1 if bad else 0

    cases = mod.cases(tier)
    cap = float(os.environ.get('VERIF_WALL_CAP', '0')) or None
    jobs = [(modname, i, c) for i, c in enumerate(cases)]
    results = [None] * len(jobs)
    nproc = min(NPROC, max(1, len(jobs)))
    ctx = multiprocessing.get_context('fork')
    capped = False
    if nproc == 1 or os.environ.get('VERIF_SERIAL'):
        for j in jobs:
            r = _worker(j); results[r['_idx']] = r
    else:
        # longest-first hint: modules may give 'cost' in the case; otherwise keep order
        order = sorted(range(len(jobs)), key=lambda i: -float(cases[i].get('cost', 0)) if isinstance(cases[i], dict) else 0)
        with ctx.Pool(nproc, maxtasksperchild=getattr(mod, 'MAXTASKS', None)) as pool:
            it = pool.imap_unordered(_worker, [jobs[i] for i in order], chunksize=1)   # chunksize 1: the iterator then supports next(timeout)
            pids0 = set(p.pid for p in pool._pool)
            ndone = 0
            while ndone < len(jobs):
                try:
                    r = it.next(timeout=20)
                except multiprocessing.TimeoutError:
                    # a worker that is killed (out of memory, segmentation fault) takes its case with it and the pool would
                    # wait for ever: make that a loud harness error instead of a hang
                    if getattr(mod, 'MAXTASKS', None) is None and set(p.pid for p in pool._pool) != pids0:
                        pool.terminate()
                        raise RuntimeError('a worker process died (killed by the system?) while evaluating {}; {} of {} cases '
                                           'were completed'.format(pid, ndone, len(jobs)))
                    continue
                except StopIteration:
                    break
                ndone += 1
                results[r['_idx']] = r
                if cap and time.time() - t0 > cap:
                    capped = True; pool.terminate(); break

    done = [r for r in results if r is not None]
    known = load_known()
    states = sum(int(r.get('states', 1)) for r in done)
    transitions = sum(int(r.get('transitions', 0)) for r in done)
    execs = sum(int(r.get('execs', r.get('states', 1))) for r in done)
    nontrivial = sum(int(r.get('nontrivial', 0)) for r in done)
    outcomes = set()
    for r in done:
        for o in r.get('outcomes', ()): outcomes.add(o if isinstance(o, str) else digest(o))
    capped = capped or any(r.get('capped') for r in done)

    viols, knownhits = [], {}
    for r in done:
        for v in r['violations']:
            v = dict(v)
            if 'case' not in v: v['case'] = cases[r['_idx']]
            sig = '{}|{}'.format(v['oracle'], v.get('key', case_key(v['case'])))
            v['signature'] = sig
            k = match_known(pid, sig, known)
            if k is not None: knownhits.setdefault(k['id'], []).append(v)
            else: viols.append(v)

    # samples: rotate by seed so different seeds show different cases; verdicts never depend on seed
    samples = []
    withs = [r for r in done if r.get('sample') is not None]
    if withs:
        for j in range(min(3, len(withs))):
            samples.append(withs[(seed + j * max(1, len(withs) // 3)) % len(withs)]['sample'])
    else:
        for j in range(min(3, len(cases))):
            samples.append(cases[(seed + j * max(1, len(cases) // 3)) % len(cases)])

    repdir = os.path.join(os.environ.get('VERIF_SCRATCH') or os.path.join(VERIF, 'replays'), pid)
    lines = []
    for kid, vs in sorted(knownhits.items()):
        k = next(x for x in known if x['id'] == kid)
        lines.append('KNOWN-FINDING: property={} {} [{}; {} case(s) this run]'.format(pid, k['what'], kid, len(vs)))
    seen_sig = set()
    for v in viols:
        if v['signature'] in seen_sig: continue
        seen_sig.add(v['signature'])
        os.makedirs(repdir, exist_ok=True)
        path = os.path.join(repdir, digest(v['signature']) + '.json')
        with open(path, 'w') as f:
            json.dump({'property': pid, 'oracle': v['oracle'], 'signature': v['signature'],
                       'detail': v.get('detail'), 'case': v['case'], 'tier': tier,
                       'hashseed': os.environ.get('PYTHONHASHSEED')}, f, indent=1, default=_default)
        if len(seen_sig) <= 25:
            lines.append('VIOLATION property={} replay={}'.format(pid, path))
            lines.append('  oracle={} key={} detail={}'.format(v['oracle'], v.get('key'), canon_json(v.get('detail'))[:300]))
    if len(seen_sig) > 25:
        lines.append('  ... {} distinct violations in total (replays written for all)'.format(len(seen_sig)))

    bounds = mod.BOUNDS(tier) if hasattr(mod, 'BOUNDS') else {}
    ev = {
        'property_id': pid, 'tier': tier, 'seed': seed, 'level': 'model_checking',
        'coverage': {
            'states': max(states, 0), 'transitions': transitions,
            'traces_validated_against_impl': execs,
            'evaluations': len(done), 'distinct_nontrivial': nontrivial,
            'distinct_outcomes': len(outcomes),
            'rule': getattr(mod, 'RULE', ''),
            'samples': json.loads(canon_json(samples)),
            'exhaustive': (not capped) and len(done) == len(cases),
            'cases_enumerated': len(cases), 'cases_completed': len(done),
            'bounds': bounds, 'technique': getattr(mod, 'TECHNIQUE', ''),
            'hashseed': os.environ.get('PYTHONHASHSEED'),
            'known_findings_hit': {k: len(v) for k, v in knownhits.items()},
            'slowest_case_s': round(max([r['_wall'] for r in done] or [0]), 2),
            'slowest_case': (lambda r: case_key(cases[r['_idx']]) if r else None)(max(done, key=lambda r: r['_wall']) if done else None),
        },
        'assumptions': list(getattr(mod, 'ASSUMPTIONS', [])),
        'wall_s': round(time.time() - t0, 2),
        'violations': len(seen_sig),
    }
    return ev, lines, (1 if seen_sig else 0)


def merge_evidence(evs):
    """Merge the evidence of several hash-seed runs of the same check (thorough tier)."""
    base = json.loads(json.dumps(evs[0]))
    c = base['coverage']
    for e in evs[1:]:
        d = e['coverage']
        for k in ('states', 'transitions', 'traces_validated_against_impl', 'evaluations',
                  'distinct_nontrivial', 'cases_enumerated', 'cases_completed'):
            c[k] += d[k]
        c['distinct_outcomes'] = max(c['distinct_outcomes'], d['distinct_outcomes'])
        c['exhaustive'] = c['exhaustive'] and d['exhaustive']
        if d['slowest_case_s'] > c['slowest_case_s']: c['slowest_case'] = d.get('slowest_case')
        c['slowest_case_s'] = max(c['slowest_case_s'], d['slowest_case_s'])
        for k, v in d['known_findings_hit'].items():
            c['known_findings_hit'][k] = c['known_findings_hit'].get(k, 0) + v
        base['wall_s'] += e['wall_s']
        base['violations'] += e['violations']
    c['hashseed'] = ','.join(str(e['coverage']['hashseed']) for e in evs)
    return base
