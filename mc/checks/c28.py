"""
C28 — Supercell occupancy bookkeeping stays consistent over any edit history.

Explicit-state BFS (explorer E2) over the real Supercell object, in lock-step with the dictionary
model R-occ.  A state is (occ, chemorder) — the whole mutable state of a Supercell.  For the small
supercells used here the reachable state graph is finite; it is explored to the depth bound (quick)
or to closure (thorough, reported).
"""
import itertools, collections
import numpy as np
from onsager import crystal, supercell
from mc import catalog

PID = 'C28'
ENGINE = 'E2'
TECHNIQUE = 'explicit-state BFS over real Supercell objects in lock-step with a dict reference model'
RULE = ('states = distinct (occ, chemorder) reached by operation sequences from the empty supercell; every '
        'enabled operation of the alphabet is applied in every reached state; nontrivial = states that are '
        'non-empty and reached by >=2 different operation kinds')
ASSUMPTIONS = ['chemorder order produced by fillperiodic is not prescribed (only prefix preservation is checked)',
               'sites addressed by position use exact site positions']


def BOUNDS(tier):
    return {'depth': 4 if tier == 'quick' else 8, 'configs': [c['key'] for c in cases(tier)]}


CONFIGS = {
    # name: (crystal, superlatt, interstitial, Nsolute)
    'SC2_s0': ('SC', [[2, 0, 0], [0, 1, 0], [0, 0, 1]], (), 0),
    'SC2_s1': ('SC', [[2, 0, 0], [0, 1, 0], [0, 0, 1]], (), 1),
    'SC2_s2': ('SC', [[2, 0, 0], [0, 1, 0], [0, 0, 1]], (), 2),
    'SC4_s1': ('SC', [[2, 0, 0], [0, 2, 0], [0, 0, 1]], (), 1),
    'B2AB1_s1': ('B2AB', [[1, 0, 0], [0, 1, 0], [0, 0, 1]], (), 1),
    'B2AB2_s2': ('B2AB', [[1, 0, 0], [0, 1, 0], [0, 0, 2]], (), 2),
    'FCCO1_i_s1': ('FCC_O', [[1, 0, 0], [0, 1, 0], [0, 0, 1]], (1,), 1),
    'FCCO2_i_s0': ('FCC_O', [[1, 1, 0], [0, 1, 0], [0, 0, 1]], (1,), 0),
    'HCP1_s2': ('HCP', [[1, 0, 0], [0, 1, 0], [0, 0, 1]], (), 2),
    'OMEGA1_s1': ('OMEGA', [[1, 0, 0], [0, 1, 0], [0, 0, 1]], (), 1),
    'FCCOT1_i_s1': ('FCC_OT', [[1, 0, 0], [0, 1, 0], [0, 0, 1]], (1,), 1),
}


def cases(tier):
    names = ['SC2_s0', 'SC2_s1', 'SC2_s2', 'SC4_s1', 'B2AB1_s1', 'B2AB2_s2', 'FCCO1_i_s1', 'FCCOT1_i_s1', 'HCP1_s2', 'OMEGA1_s1'] if tier == 'quick' else list(CONFIGS)
    depth = 4 if tier == 'quick' else 8
    return [{'key': n, 'config': n, 'depth': depth} for n in names]


def build(config):
    cname, sl, inter, nsol = CONFIGS[config]
    crys = catalog.get(cname)
    return supercell.Supercell(crys, np.array(sl, dtype=int), interstitial=inter, Nsolute=nsol)


# ---------------------------------------------------------------- reference model
class Model:
    def __init__(self, nsites, nchem):
        self.occ = [-1] * nsites
        self.order = [[] for _ in range(nchem)]
        self.nchem = nchem

    def copy(self):
        m = Model(len(self.occ), self.nchem)
        m.occ = list(self.occ); m.order = [list(l) for l in self.order]
        return m

    def valid(self, c):
        return isinstance(c, int) and -1 <= c < self.nchem

    def setocc(self, i, c):
        old = self.occ[i]
        if old == c: return
        if old >= 0: self.order[old].remove(i)
        if c >= 0: self.order[c].append(i)
        self.occ[i] = c

    def key(self):
        return (tuple(self.occ), tuple(tuple(l) for l in self.order))


def state_of(sup):
    return (tuple(int(x) for x in sup.occ), tuple(tuple(int(i) for i in l) for l in sup.chemorder))


def restore(tmpl, key):
    """rebuild a real supercell in state `key` through the public API (setocc in chemorder order)"""
    s = tmpl.copy()
    for n in range(len(s.occ)): s.setocc(n, -1)
    for c, l in enumerate(key[1]):
        for i in l: s.setocc(i, c)
    return s


def model_of(key, nchem):
    m = Model(len(key[0]), nchem)
    m.occ = list(key[0]); m.order = [list(l) for l in key[1]]
    return m


def alphabet(tmpl):
    """finite operation menu, simplest first"""
    nsites, nchem = len(tmpl.occ), tmpl.Nchem
    sites = list(range(min(nsites, 3)))
    ops = []
    for i in sites + [-1]:     # -1: the documented-safe negative index of the last site
        for c in [-1, 0] + list(range(1, nchem)) + [nchem, nchem + 1, -2, -3]:
            ops.append(('setocc', i, c))
    ops.append(('setocc', nsites, 0))      # one site index past the end: must be rejected
    ops.append(('setocc', -nsites - 1, 0))
    for i in sites[:2]:
        ops.append(('setitem_pos', i, 0))
        ops.append(('setitem_pos', i, nchem - 1))
    for ci in tmpl.crys.atomindices:
        ops.append(('fill', list(ci), True))
        ops.append(('fill', list(ci), False))
    ops.append(('reorder', 'reverse'))
    ops.append(('reorder', 'rotate'))
    ops.append(('reorder', 'dup'))
    ops.append(('reorder', 'oob'))
    ops.append(('reorder', 'short'))
    glist = sorted(tmpl.G, key=lambda g: (tuple(g.indexmap[0]), tuple(np.round(g.trans, 6))))
    # three operations with distinct, non-identity site permutations where they exist
    seen, pick = set(), []
    for g in glist:
        im = tuple(g.indexmap[0])
        if im in seen: continue
        seen.add(im)
        if im != tuple(range(nsites)): pick.append(im)
    for im in pick[:3]:
        ops.append(('imul', list(im)))
    ops.append(('copy',))
    ops.append(('poscar_roundtrip',))
    ops.append(('poscar_overlay',))
    return ops


def mapping_for(order, kind):
    """a reorder mapping of the given kind for the current per-species lists (None if not applicable)"""
    lens = [len(l) for l in order]
    if kind == 'reverse':
        if max(lens + [0]) < 2: return None, True
        return [list(range(n))[::-1] for n in lens], True
    if kind == 'rotate':
        if max(lens + [0]) < 3: return None, True
        return [list(range(1, n)) + [0] if n > 0 else [] for n in lens], True
    if kind == 'dup':
        if max(lens + [0]) < 2: return None, False
        return [[0] * n for n in lens], False
    if kind == 'oob':
        if max(lens + [0]) < 1: return None, False
        return [[j + 1 for j in range(n)] for n in lens], False
    if kind == 'short':
        # too few species lists: not a proper permutation of the ordering (one list per species is required)
        if len(lens) < 2: return None, False
        return [list(range(n)) for n in lens[:-1]], False
    raise KeyError(kind)


def apply(tmpl, sup, m, op, gbyim):
    """apply op to the real supercell `sup` and to the model `m`; return list of oracle failures"""
    fails = []
    before = state_of(sup)
    kind = op[0]

    def expect_reject(call, what):
        try:
            call()
        except Exception:
            if state_of(sup) != before:
                fails.append(('rejected-call-mutated', what))
            return
        fails.append(('undeclared-accepted', what))

    if kind == 'setocc' or kind == 'setitem_pos':
        i, c = op[1], op[2]
        if kind == 'setocc':
            i0 = i
            call = lambda: sup.setocc(i0, c)
        else:
            pos = tmpl.pos[i].copy()
            def call(): sup[pos] = c
        if kind == 'setocc' and not (-len(m.occ) <= i < len(m.occ)):
            expect_reject(call, 'setocc(site {} of {})'.format(i, len(m.occ)))
            return fails
        if i < 0: i += len(m.occ)
        if m.valid(c):
            try:
                call()
            except Exception as e:
                fails.append(('declared-rejected', '{}({},{}) raised {}'.format(kind, i, c, type(e).__name__)))
                return fails
            m.setocc(i, c)
        else:
            expect_reject(call, '{}({},{})'.format(kind, i, c))
            return fails
    elif kind == 'fill':
        ci, wy = tuple(op[1]), op[2]
        sup.fillperiodic(ci, Wyckoff=wy)
        ind = tmpl.indexatom[ci]
        inds = sorted(next(w for w in tmpl.Wyckofflist if ind in w)) if wy else [ind]
        want = [n * tmpl.N + i for n in range(tmpl.size) for i in inds]
        old = m.copy()
        for i in want: m.setocc(i, ci[0])
        # order of the newly appended entries is not prescribed: adopt the implementation's, after checking
        got = state_of(sup)
        for c in range(m.nchem):
            keep = [i for i in old.order[c] if i in m.order[c]]
            if sorted(got[1][c]) != sorted(m.order[c]) or [i for i in got[1][c] if i in keep] != keep:
                fails.append(('fillperiodic-order', 'species {} got {} want set {} keeping {}'.format(c, got[1][c], m.order[c], keep)))
        if not fails: m.order = [list(l) for l in got[1]]
    elif kind == 'reorder':
        mapping, ok = mapping_for(m.order, op[1])
        if mapping is None: return None
        if ok:
            sup.reorder(mapping)
            m.order = [[l[cm[i]] for i in range(len(l))] for l, cm in zip(m.order, mapping)]
        else:
            # malformed mapping: either rejected with the state untouched, or -- if the implementation
            # accepts it -- the result must still be a consistent description of the same occupation
            try:
                sup.reorder(mapping)
            except Exception:
                if state_of(sup) != before: fails.append(('rejected-call-mutated', 'reorder({})'.format(mapping)))
                return fails
            got = state_of(sup)
            if len(got[1]) != m.nchem:
                fails.append(('chemorder-shape', 'reorder({}) left {} species lists for {} declared species'.format(mapping, len(got[1]), m.nchem)))
            elif [sorted(l) for l in got[1]] != [sorted(l) for l in m.order] or not sup.__sane__():
                fails.append(('insane', 'after accepted reorder({}): {}'.format(mapping, got)))
            else:
                m.order = [list(l) for l in got[1]]
            if fails: return fails
    elif kind == 'imul':
        im = tuple(op[1])
        g = gbyim[im]
        sup *= g
        occ = list(m.occ)
        for i, gi in enumerate(im): occ[gi] = m.occ[i]
        m.occ = occ
        m.order = [[im[i] for i in l] for l in m.order]
    elif kind == 'copy':
        cp = sup.copy()
        if state_of(cp) != before or not (cp == sup) or (cp != sup):
            fails.append(('copy-differs', str(state_of(cp))))
        # independence: edit the copy, the original must not move
        cp.setocc(0, 0 if before[0][0] != 0 else -1)
        if state_of(sup) != before: fails.append(('copy-aliased', 'editing the copy changed the original'))
        return fails if fails else None   # no state change
    elif kind == 'poscar_roundtrip':
        text = sup.POSCAR('x')
        new = tmpl.copy()
        for n in range(len(new.occ)): new.setocc(n, -1)
        # leave junk in the target first: POSCAR_occ must empty it (EMPTY_SUPER default)
        new.setocc(len(new.occ) - 1, 0)
        new.POSCAR_occ(text)
        if state_of(new) != before:
            fails.append(('poscar-roundtrip', 'read back {} from state {}'.format(state_of(new), before)))
        return fails if fails else None
    elif kind == 'poscar_overlay':
        # a fixed other configuration: species 0 on site 0, last species on site 1
        ref = tmpl.copy()
        for n in range(len(ref.occ)): ref.setocc(n, -1)
        ref.setocc(0, 0)
        if len(ref.occ) > 1: ref.setocc(1, ref.Nchem - 1)
        sup.POSCAR_occ(ref.POSCAR('ref'), EMPTY_SUPER=False)
        for c, l in enumerate(ref.chemorder):
            for i in l: m.setocc(i, c)
    else:
        raise KeyError(kind)

    got = state_of(sup)
    if not sup.__sane__(): fails.append(('insane', str(got)))
    if got != m.key(): fails.append(('model-mismatch', 'impl {} model {}'.format(got, m.key())))
    return fails


def evaluate(case):
    tmpl = build(case['config'])
    if 'history' in case:   # replay of a single history (used by --replay)
        return {'violations': replay_history(tmpl, case['history'], case)}
    depth = case['depth']
    nchem = tmpl.Nchem
    ops = alphabet(tmpl)
    gbyim = {}
    for g in tmpl.G: gbyim.setdefault(tuple(g.indexmap[0]), g)
    start = state_of(tmpl)
    seen = {start: ()}
    frontier = collections.deque([start])
    transitions = 0
    viols, vkeys = [], set()
    kinds_reaching = collections.defaultdict(set)
    outcomes = set()
    closed = True
    while frontier:
        key = frontier.popleft()
        hist = seen[key]
        for op in ops:
            sup = restore(tmpl, key)
            if state_of(sup) != key:
                raise RuntimeError('explorer: restore did not reproduce state {}'.format(key))
            m = model_of(key, nchem)
            try:
                fails = apply(tmpl, sup, m, op, gbyim)
            except Exception as e:
                fails = [('exception', '{}: {}'.format(type(e).__name__, e))]
            if fails is None: transitions += 1; continue   # op not applicable / read-only op that passed
            transitions += 1
            for (orc, det) in fails:
                vk = (orc, op[0], str(op[1:]) if op[0] in ('setocc', 'setitem_pos') and orc in ('declared-rejected', 'undeclared-accepted') else op[0])
                if vk in vkeys: continue
                vkeys.add(vk)
                viols.append({'oracle': orc,
                              'key': '{}:{}:{}'.format(case['config'], op[0], _opkey(op, orc, nchem, tmpl)),
                              'detail': {'history': list(hist), 'op': list(op), 'what': det},
                              'case': {'key': case['key'], 'config': case['config'], 'depth': depth,
                                       'history': list(hist) + [list(op)]}})
            if fails: continue   # do not explore beyond a failing transition
            nk = state_of(sup)
            outcomes.add(nk[0])
            kinds_reaching[nk].add(op[0])
            if nk not in seen:
                if len(hist) + 1 <= depth:
                    seen[nk] = hist + (list(op),)
                    if len(hist) + 1 < depth: frontier.append(nk)
                    else: closed = False
    nontriv = sum(1 for k, v in kinds_reaching.items() if len(v) >= 2 and any(o != -1 for o in k[0]))
    return {'states': len(seen), 'transitions': transitions, 'execs': transitions, 'outcomes': [str(o) for o in outcomes],
            'nontrivial': nontriv, 'violations': viols, 'capped': False,
            'sample': {'config': case['config'], 'depth': depth, 'closed_under_alphabet': closed,
                       'example_history': [list(o) for o in (max(seen.values(), key=len) if seen else ())]}}


def _opkey(op, orc, nchem, tmpl):
    """hash-seed independent description of the failing operation, relative to the declared species range"""
    if op[0] in ('setocc', 'setitem_pos'):
        c = op[2]
        rel = 'c={}'.format(c) if c < 0 else ('c=Nchem{:+d}'.format(c - nchem) if c >= nchem - 1 else 'c={}'.format(c))
        return '{};crysNchem={};Nchem={}'.format(rel, tmpl.crys.Nchem, nchem)
    if op[0] == 'reorder': return op[1]
    return ''


def replay_history(tmpl, history, case):
    sup = tmpl.copy()
    m = Model(len(sup.occ), tmpl.Nchem)
    gbyim = {}
    for g in tmpl.G: gbyim.setdefault(tuple(g.indexmap[0]), g)
    out = []
    for op in history:
        op = tuple(op)
        try:
            fails = apply(tmpl, sup, m, op, gbyim)
        except Exception as e:
            fails = [('exception', '{}: {}'.format(type(e).__name__, e))]
        for orc, det in (fails or []):
            out.append({'oracle': orc, 'key': '{}:{}:{}'.format(case['config'], op[0], _opkey(op, orc, tmpl.Nchem, tmpl)),
                        'detail': det})
        if fails: break
    return out
