"""
C08 — the two omega2 algorithms agree where the standard one is valid; extreme exchange rates stay finite and
approach the large-rate limit smoothly.

E1: nodes = (crystal, base) x which omega2 classes are scaled (all together; each class alone when there are several)
x omega2 scale factor s (prefactors of the scaled classes multiplied by s) x algorithm choice
{forced standard (large_om2=inf), forced large (large_om2=-1), default}.  The branch actually taken is observed
(the large branch is the only caller of numpy.linalg.eigh inside Lij once the GF cache is warm), so "forced" is
verified, not assumed.  Oracles:
  agree   : |L_std - L_large| <= max(1e-9, 1e-10 * s) * scale for s <= 1e6 (the standard algorithm loses log10 s digits)
  finite  : default selection returns finite, symmetric tensors for every s up to 1e16
  cauchy  : for consecutive s >= 1e8 of the alphabet, |L(s') - L(s)| <= 2 C / s + 1e-7 * scale with C measured
            from the first pair (L(s) = L_inf + C/s + ...): a jump, drift, NaN or sign flip fails
  branch  : default takes the large branch iff max|G om2| > 1e8 is reported consistently (observed only)
"""
import numpy as np
from mc import vm

PID = 'C08'
ENGINE = 'E1'
TECHNIQUE = 'bounded-exhaustive enumeration of (crystal, base, omega2 scale, algorithm choice) with observed branch; agreement, finiteness and Cauchy-in-scale oracles'
RULE = ('node = (crystal, cutoff, Nthermo, base, omega2 scale s, algorithm); edges = (std,large) pairs at equal s and consecutive scales '
        'of the default algorithm; nontrivial = nodes where the large branch was actually taken / pairs where both branches were observed')
LEVEL_TEXT = 'Every scale of the alphabet on every listed crystal and base, with both forced algorithms and the default; the branch taken is observed by interposing on numpy.linalg.eigh.'
LEVEL_NOTE = 'Scale alphabet {1e-3,1,1e3,1e6,1e8,1e9,1e10,1e12,1e14,1e16}, applied to all omega2 classes together and to each class alone; nothing is said about other scales.'

SCALES = [1e-3, 1., 1e3, 1e6, 1e8, 1e9, 1e10, 1e12, 1e14, 1e16]
QUICK = [('FCC', 0, 1), ('HCP', 0, 1), ('HONEY', 0, 1), ('OMEGA', 0, 1), ('RECTM', 0, 1), ('BCC', 1, 1), ('OBLIQUE', 1, 1)]   # OBLIQUE: point group 2 admits an antisymmetric invariant tensor
THOROUGH = QUICK + [('SC', 0, 1), ('SQUARE', 0, 1), ('DIAMOND', 1, 1), ('NBO', 0, 1), ('B2', 0, 1), ('ROMEGA', 0, 1), ('L12', 0, 1), ('FCC', 0, 2), ('KAGOME', 0, 1), ('TRIA', 1, 1)]
NAMES = ('L0vv', 'Lss', 'Lsv', 'L1vv')


def BOUNDS(tier):
    return {'crystals': QUICK if tier == 'quick' else THOROUGH, 'bases': ['T', 'G1', 'G2'], 'scales': SCALES,
            'agree tolerance': '1e-10 * s * scale for s <= 1e6', 'cauchy tolerance': '2*C/s + 1e-7*scale for s >= 1e8'}


def cases(tier):
    return [{'key': '{}/{}/N{}/{}'.format(n, i, N, b), 'crystal': n, 'icut': i, 'N': N, 'base': b, 'cost': N}
            for (n, i, N) in (QUICK if tier == 'quick' else THOROUGH) for b in ('T', 'G1', 'G2')]


class EighSpy:
    def __enter__(self):
        self.orig = np.linalg.eigh; self.n = 0

        def spy(*a, **k):
            self.n += 1
            return self.orig(*a, **k)
        np.linalg.eigh = spy
        return self

    def __exit__(self, *a):
        np.linalg.eigh = self.orig


def evaluate(case):
    ent = vm.calculator(case['crystal'], case['icut'], case['N'])
    calc = ent['calc']
    vb = vm.has_vb(ent)
    multiw = len(ent['sitelist']) > 1
    nkey = '{}/cut{}/N{};vb={};multiwyckoff={};base={}'.format(case['crystal'], case['icut'], case['N'], int(vb), int(multiw), case['base'])
    viols, outcomes = [], []
    d0 = vm.base_data(ent, case['base'])
    vm.package_L(ent, d0)          # warm the GF cache: the vacancy data never change below
    keys2 = vm.class_keys(ent)['T2']
    order2 = sorted(range(len(keys2)), key=lambda n: keys2[n])
    # which omega2 classes are scaled: all of them together, and (crystals with several exchange classes) each one alone
    targets = [('all', list(range(len(keys2))))]
    if len(keys2) >= 2: targets += [('.'.join(str(x) for x in keys2[n]), [n]) for n in order2]
    nodes = branch_large = pairs = ntrans = 0
    tooks = {}
    for tname, tidx in targets:
        res = {}
        tkey = nkey + ';scaled=' + tname
        for s in SCALES:
            d = {k: v.copy() for k, v in d0.items()}
            d['preT2'][tidx] = d['preT2'][tidx] * s
            # documented usage: the free-energy arrays are computed once and handed to every Lij call
            if len(calc.GFvalues) > 64: calc.clearcache()
            bF = calc.preene2betafree(1.0, **d)
            for alg, kw in (('std', {'large_om2': np.inf}), ('large', {'large_om2': -1}), ('default', {})):
                key = tkey + ';s={:.0e};alg={}'.format(s, alg)
                try:
                    with EighSpy() as spy:
                        L = vm.lij_bF(calc, bF, **kw)
                    took_large = spy.n > 0
                except Exception as e:
                    viols.append({'oracle': 'exception', 'key': key, 'detail': repr(e)}); continue
                nodes += 1
                res[(s, alg)] = (L, took_large)
                if alg == 'std' and took_large: viols.append({'oracle': 'forced-standard-took-large-branch', 'key': key, 'detail': None})
                if alg == 'large' and not took_large: viols.append({'oracle': 'forced-large-took-standard-branch', 'key': key, 'detail': None})
                if alg == 'default':
                    if took_large: branch_large += 1
                    flat = np.hstack([x.ravel() for x in L])
                    if not np.all(np.isfinite(flat)):
                        viols.append({'oracle': 'finite', 'key': key, 'detail': [x.tolist() for x in L]})
                    else:
                        # the standard algorithm solves a system of condition number ~ omega2*g: its round-off (eps x scale) is not
                        # symmetric; the large-omega2 algorithm is held to 1e-9 at every scale.  One oracle per tensor.
                        for tname, x in zip(('L0vv', 'Lss', 'Lsv', 'L1vv'), L):
                            asym = float(np.abs(x - x.T).max()) / vm.tscale(*L)
                            if asym > max(1e-9, 0. if took_large else 1e-15 * s):
                                viols.append({'oracle': 'symmetric-' + tname, 'key': key, 'detail': asym})
                    outcomes.append('{}:{:.5e}'.format(int(took_large), float(np.trace(L[1]))))
            # ---- standard vs large at this scale
            if (s, 'std') in res and (s, 'large') in res and s <= 1e6:
                pairs += 1
                A, B = res[(s, 'std')][0], res[(s, 'large')][0]
                sc = vm.tscale(*A)
                for name, a, b in zip(NAMES, A, B):
                    e = float(np.abs(a - b).max()) / sc
                    if not np.isfinite(e) or e > max(1e-9, 1e-10 * s):
                        viols.append({'oracle': 'agree-' + name, 'key': tkey + ';s={:.0e}'.format(s), 'detail': {'relerr': e, 'std': a.tolist(), 'large': b.tolist()}})
        # ---- Cauchy in s for the default selection
        big = [s for s in SCALES if s >= 1e8 and (s, 'default') in res and np.all(np.isfinite(np.hstack([x.ravel() for x in res[(s, 'default')][0]])))]
        if len(big) >= 2:
            L8, L9 = res[(big[0], 'default')][0], res[(big[1], 'default')][0]
            sc = vm.tscale(*L9)
            for n, name in enumerate(NAMES):
                C = float(np.abs(L9[n] - L8[n]).max()) / (1. / big[0] - 1. / big[1])
                for s1, s2 in zip(big[1:-1], big[2:]):
                    a, b = res[(s1, 'default')][0][n], res[(s2, 'default')][0][n]
                    e = float(np.abs(a - b).max())
                    ntrans += 1
                    if e > 2 * C / s1 + 1e-7 * sc:
                        viols.append({'oracle': 'cauchy-' + name, 'key': tkey + ';s={:.0e}->{:.0e}'.format(s1, s2),
                                      'detail': {'change/scale': e / sc, 'allowed/scale': (2 * C / s1 + 1e-7 * sc) / sc, 'at s': a.tolist(), 'at next s': b.tolist()}})
                # the first pair itself must be a small change: the limit has been reached to 1e-3 by s = 1e8
                e0 = float(np.abs(L9[n] - L8[n]).max()) / sc
                if e0 > 1e-3:
                    viols.append({'oracle': 'cauchy-' + name, 'key': tkey + ';s={:.0e}->{:.0e}'.format(big[0], big[1]),
                                  'detail': {'change/scale': e0, 'allowed/scale': 1e-3}})
        # ---- monotone in s: speeding up exchanges never lowers Lss (Rayleigh), checked on the default selection
        prev = None
        for s in SCALES:
            if (s, 'default') not in res: continue
            Lss = res[(s, 'default')][0][1]
            if prev is not None and np.all(np.isfinite(Lss)):
                sc = vm.tscale(Lss, prev[1])
                m = float(np.linalg.eigvalsh(0.5 * ((Lss - prev[1]) + (Lss - prev[1]).T)).min()) / sc
                ntrans += 1
                if m < -max(1e-7, 1e-16 * s):
                    viols.append({'oracle': 'Lss-not-monotone-in-scale', 'key': tkey + ';s={:.0e}->{:.0e}'.format(prev[0], s),
                                  'detail': {'min eig of change / scale': m, 'before': prev[1].tolist(), 'after': Lss.tolist()}})
            prev = (s, Lss)
        tooks[tname] = [s for s in SCALES if res.get((s, 'default'), (None, False))[1]]
    return {'states': nodes, 'transitions': pairs + ntrans, 'execs': nodes, 'outcomes': outcomes, 'nontrivial': branch_large + pairs,
            'violations': viols, 'sample': {'node': nkey, 'default took large branch at (by scaled class)': tooks}}
