"""
C25 -- vector stars are orthonormal, equivariant and complete; the GF / rate / bias / bare-diffusivity
expansions reproduce the projection of the directly assembled state-basis quantities.

Explorer E1: catalogue crystal x jump cutoff x N x origin-state flag.  For every case the real StarSet /
VectorStarSet are built and compared with mc/refmodels/pairstates.py:

  basis oracles   Gram matrix = 1 ; cart(g) v(s) = v(g s) for every g in G and every member state ;
                  number of vector stars on a star = trace of the Reynolds projector of the stabiliser of a member ;
                  span: sum_a |v_a><v_a| = Reynolds projector on vector fields over the orbit ; outer = direct sums.
  expansion oracles   state-basis matrices / vectors are assembled from the reference model's OWN jump list and
                  OWN symmetry classes (union-find) with a deterministic generic number per class
                  (pairstates.generic: no two classes share a value), projected onto the vector stars, and compared
                  with the package's expansion arrays contracted with the same numbers looked up through the class
                  representative the package chose.  A wrong class assignment, a missed or doubled jump, a wrong
                  displacement or a wrong origin-state term all change the contraction.

Tolerance 1e-9 x scale: both routes are short sums of O(1) numbers (round-off 1e-15); the package zeroes
entries below 1e-8, which can only remove round-off because genuine entries are >= 1/(48*3).
"""
import numpy as np
from onsager import crystalStars as stars
from mc import catalog
from mc.refmodels import pairstates as ps

PID = 'C25'
ENGINE = 'E1'
TECHNIQUE = ('exhaustive enumeration of catalogue networks x shells x origin flag; vector stars compared with Reynolds '
             'projectors of an independent pair-state model; expansions compared with projections of state-basis '
             'matrices assembled from the model\'s own jump list with generic per-class numbers')
RULE = ('case = (crystal, cutoff index, N, originstates); every star, every vector star, every g in G, every state '
        'pair and every jump of the case is visited; nontrivial = cases having a star whose stabiliser leaves more '
        'than the parallel vector or fewer than all vectors invariant AND a non-empty omega1 network')
LEVEL_TEXT = 'bounded-exhaustive over the catalogue; linear-algebra identities decided to 1e-9 per input'
LEVEL_NOTE = ('crys.G trusted (C18); StarSet states/stars trusted here (C24 checks them); the omega1/omega2 class lists '
              'handed to the expansions are the package\'s own (C26 checks them) but rates are attached through the model\'s classes')
ASSUMPTIONS = ['GF values are symmetric: G(d) = G(-d) (the package symmetrises GFexpansion)',
               'escape / bias contractions follow VacancyMediated._lij: one factor per (jump class, star of the vector star); '
               'omega0 escapes: one factor per (omega0 class, Wyckoff set of the vacancy site)',
               'rateexpansions/biasexpansions with an omega2 network are only checked with omega2=True (documented use)']

CAP = {'quick': 360, 'thorough': 620}       # states; above: case not enumerated (listed in BOUNDS)
EFFCAP = 8000      # states x (holohedry order / |G|): the dense GF expansion has (dim x states / |stabiliser|)^2 x (difference stars)
                   # entries; without symmetry 409 states (P1_3, N=3) need > 30 GB.  Above: not enumerated (listed in BOUNDS)


def _toobig(name, ic, N, tier):
    n = _size(name, ic, N)
    crys = catalog.get(name)
    return n > CAP[tier] or n * (48 if crys.dim == 3 else 12) / len(crys.G) > EFFCAP

TOL = 1e-9


def _nets(tier):
    out = []
    for name in catalog.names():
        m = catalog.meta(name)
        if m.get('disconnected') and tier == 'quick': continue
        for ic in range(len(m['cut'])): out.append((name, ic))
    return out


def _NS(tier): return (1, 2) if tier == 'quick' else (1, 2, 3)


_sizes = {}


def _size(name, ic, N):
    if (name, ic, N) not in _sizes:
        crys, chem, sl, jn = catalog.network(name, ic)
        M = ps.PairModel(crys, chem, jn)
        for n in (1, 2, 3): _sizes[(name, ic, n)] = len(M.reach(n, True))
    return _sizes[(name, ic, N)]


def BOUNDS(tier):
    skipped = ['{}:c{}:N{}'.format(n, ic, N) for n, ic in _nets(tier) for N in _NS(tier) if _toobig(n, ic, N, tier)]
    return {'crystals': sorted(set(n for n, _ in _nets(tier))), 'networks': len(_nets(tier)), 'Nshells': list(_NS(tier)),
            'originstates': [False, True], 'state_cap': CAP[tier], 'not_enumerated_over_cap': skipped,
            'numbers': 'pairstates.generic(class key): exp(-frac(...)) in (0.37,1], distinct per class; GF values symmetric under negation',
            'tolerance': TOL}


def cases(tier):
    out = []
    for name, ic in _nets(tier):
        for N in _NS(tier):
            n = _size(name, ic, N)
            if _toobig(name, ic, N, tier): continue
            for o in (0, 1):
                out.append({'key': '{}:c{}:N{}:o{}'.format(name, ic, N, o), 'name': name, 'icut': ic, 'N': N, 'origin': o,
                            'cost': float(n) ** 2})
    return out


# ------------------------------------------------------------------------------------------------
class Ctx:
    def __init__(self, case):
        self.case = case
        self.name, self.ic, self.N, self.o = case['name'], case['icut'], case['N'], case['origin']
        self.crys, self.chem, self.sitelist, self.jn = catalog.network(self.name, self.ic)
        self.M = ps.PairModel(self.crys, self.chem, self.jn)
        self.seen, self.ncmp, self.per = set(), 0, {}

    def bad(self, oracle, what, detail=None):
        key = '{}:c{}:N{}:o{}:{}'.format(self.name, self.ic, self.N, self.o, what)
        if (oracle, key) in self.seen: return
        self.seen.add((oracle, key))
        self.per.setdefault(oracle, []).append({'oracle': oracle, 'key': key, 'detail': detail, 'case': self.case})

    @property
    def viol(self):
        """at most 6 signatures per oracle and case: the lexicographically smallest keys (hash-seed independent choice)"""
        out = []
        for o in sorted(self.per): out += sorted(self.per[o], key=lambda v: v['key'])[:6]
        return out


def evaluate(case):
    cx = Ctx(case)
    M = cx.M
    dim = M.dim
    S = stars.StarSet(cx.jn, cx.crys, cx.chem, cx.N, originstates=bool(cx.o))
    V = stars.VectorStarSet(S)
    st = [ps.from_pairstate(x) for x in S.states]
    n = len(st)
    pos = {s: k for k, s in enumerate(st)}
    rep, cl, escaped = M.orbits(st)
    res = {'states': n, 'execs': 1, 'outcomes': [], 'nontrivial': 0}
    if escaped or len(pos) != n:
        cx.bad('precondition', 'state-set-not-closed-or-duplicated (see C24)')
        res['violations'] = cx.viol; return res
    wy = [min(M.ops[g]['site'][i] for g in range(M.nG)) for i in range(M.Ns)]   # Wyckoff-set key of every site

    # ---------------------------------------------------------------- vector stars as fields over states
    Nv = V.Nvstars
    F = np.zeros((Nv, n, dim))
    vstar_orbit = []          # canonical representative of the star every vector star lives on
    shape_ok = True
    for a in range(Nv):
        p, vv = V.vecpos[a], V.vecvec[a]
        mem = sorted(st[i] for i in p)
        r = rep[mem[0]]
        vstar_orbit.append(r)
        if len(p) != len(vv) or mem != cl[r]:
            cx.bad('vstar-support', 'star:' + M.desc(r), {'positions': len(p), 'vectors': len(vv), 'orbit': len(cl[r])})
            shape_ok = False; continue
        for i, v in zip(p, vv): F[a, i, :] += np.asarray(v, dtype=float)
    if len(V.vecpos) != Nv: cx.bad('vstar-support', 'Nvstars', {'Nvstars': int(Nv), 'len': len(V.vecpos)})
    res['transitions'] = 0

    # ---- Gram matrix
    Fl = F.reshape(Nv, n * dim)
    gram = np.dot(Fl, Fl.T)
    cx.ncmp += Nv * Nv
    dev = np.abs(gram - np.eye(Nv))
    if Nv and dev.max() > TOL:
        lab, a, b = min(('|'.join(sorted([M.desc(vstar_orbit[a]), M.desc(vstar_orbit[b])])), int(a), int(b)) for a, b in np.argwhere(dev > TOL))
        cx.bad('gram', 'stars:' + lab, {'value': float(gram[a, b]), 'diagonal': bool(a == b), 'n_bad': int((dev > TOL).sum())})

    # ---- equivariance: cart(g) v(s) = v(g s)
    images = np.zeros((M.nG, n), dtype=int)
    for g in range(M.nG):
        for k, s in enumerate(st): images[g, k] = pos[M.act(g, s)]
    worst = {}
    for g in range(M.nG):
        c = M.ops[g]['cart']
        rotated = np.einsum('xy,aky->akx', c, F)          # (g v)(s) attached to s
        target = F[:, images[g], :]                        # v(g s)
        d = np.abs(rotated - target).max(axis=(1, 2)) if Nv else np.zeros(0)
        cx.ncmp += Nv * n
        for a in np.nonzero(d > TOL)[0]:
            r = vstar_orbit[a]
            if r not in worst or d[a] > worst[r][0]: worst[r] = (float(d[a]), int(a))
    for r, (d, a) in sorted(worst.items()):
        H = M.stabiliser(r)
        cx.bad('equivariance', 'star:' + M.desc(r) + ':stab=' + M.stablabel(r), {'max_dev': d, 'stabiliser_order': len(H),
                                                     'vector_at_rep': list(ps.rnd(F[a, pos[r]] * np.sqrt(len(cl[r])), 6))})

    # ---- completeness: count and span, star by star
    special = 0
    for r, mem in sorted(cl.items()):
        P = M.reynolds(r)
        want = int(round(np.trace(P)))
        have = [a for a in range(Nv) if vstar_orbit[a] == r]
        cx.ncmp += 1
        if M.iszero(r): special += 1 if want > 0 else 0
        elif 1 < want < dim or (want == 1 and len(M.stabiliser(r)) > 1): special += 1
        if len(have) != want:
            cx.bad('count', 'star:' + M.desc(r) + ':stab=' + M.stablabel(r), {'vector_stars': len(have), 'dim_Fix_stabiliser': want,
                                                  'stabiliser_order': len(M.stabiliser(r))})
        if not shape_ok: continue
        idx = [pos[s] for s in mem]
        sub = F[have][:, idx, :].reshape(len(have), len(mem) * dim) if have else np.zeros((0, len(mem) * dim))
        Q = np.dot(sub.T, sub)
        Qref = M.field_projector(mem)
        cx.ncmp += 1
        if np.abs(Q - Qref).max() > TOL:
            cx.bad('span', 'star:' + M.desc(r) + ':stab=' + M.stablabel(r), {'max_dev': float(np.abs(Q - Qref).max()), 'rank_ref': int(round(np.trace(Qref))),
                                                 'trace_pkg': float(np.trace(Q))})

    # ---- outer products
    if Nv:
        outer_ref = np.einsum('akx,bky->xyab', F, F)
        cx.ncmp += Nv * Nv
        if np.shape(V.outer) != outer_ref.shape:
            cx.bad('outer', 'shape', {'pkg': list(np.shape(V.outer)), 'ref': list(outer_ref.shape)})
        else:
            d = np.abs(V.outer - outer_ref).max(axis=(0, 1))
            if d.max() > 1e-8 + TOL:    # zeroclean() may drop entries below 1e-8
                lab = min('|'.join(sorted([M.desc(vstar_orbit[a]), M.desc(vstar_orbit[b])])) for a, b in np.argwhere(d > 1e-8 + TOL))
                cx.bad('outer', 'stars:' + lab, {'max_dev': float(d.max())})
            o2 = V.generateouter()
            if not np.array_equal(o2, V.outer): cx.bad('outer', 'generateouter-differs-from-stored')

    if not shape_ok or Nv == 0:
        res.update({'violations': cx.viol, 'transitions': cx.ncmp, 'outcomes': ['nv{}'.format(Nv)]})
        return res

    def project(W):      # M_ab = sum_{s,t} W[s,t] v_a(s).v_b(t)
        return np.einsum('asx,st,btx->ab', F, W, F, optimize=True)

    def compare(oracle, got, want, what_fn):
        cx.ncmp += int(np.size(want))
        got, want = np.asarray(got), np.asarray(want)
        if got.shape != want.shape:
            cx.bad(oracle, 'shape', {'pkg': list(got.shape), 'ref': list(want.shape)}); return
        if want.size == 0: return
        scale = max(1.0, float(np.abs(want).max()))
        d = np.abs(got - want)
        if d.max() > TOL * scale:
            # hash-seed independent choice of the reported entry: smallest label among all failing entries
            badix = [tuple(int(v) for v in ix) for ix in np.argwhere(d > TOL * scale)]
            lab, ix = min((what_fn(ix), ix) for ix in badix)
            cx.bad(oracle, lab, {'pkg': float(got[ix]), 'ref': float(want[ix]), 'n_bad': len(badix), 'max_dev': float(d.max())})

    def call(what, fn, nclasses):
        """run one expansion routine; an exception escaping it is a violation of its own (the other expansions go on)"""
        try:
            return fn()
        except Exception as e:
            cx.bad('exception', '{}:{}{}'.format(what, type(e).__name__, ':empty-network' if nclasses == 0 else ''), repr(e))
            return None

    vdesc = [M.desc(r) for r in vstar_orbit]
    lab2 = lambda ix: 'stars:' + '|'.join(sorted([vdesc[ix[0]], vdesc[ix[1]]]))
    lab1 = lambda ix: 'star:' + vdesc[ix[0]]
    labD = lambda ix: 'tensor'

    # ---------------------------------------------------------------- GF expansion
    try:
        GFexp, GFS = V.GFexpansion()
    except Exception as e:
        cx.bad('exception', 'GFexpansion:' + type(e).__name__, repr(e)); GFexp = None
    if GFexp is not None:
        D = set()
        pairs = {}
        for a, s in enumerate(st):
            for b, t in enumerate(st):
                d = M.enddiff(s, t)
                if d is not None: D.add(d); pairs[(a, b)] = d
        drep, dcl, desc_ = M.orbits(D)
        gkey = lambda d: min(drep[d], drep[M.neg(d)])
        gval = {d: ps.generic(gkey(d), 0.5) for d in D}
        G = np.zeros((n, n))
        for (a, b), d in pairs.items(): G[a, b] = gval[d]
        gvec = np.zeros(GFS.Nstars)
        okG = True
        for k, star in enumerate(GFS.stars):
            d = ps.from_pairstate(GFS.states[star[0]])
            if d not in gval:
                okG = False; cx.bad('GFexpansion', 'GF-star-not-a-difference:' + M.desc(d)); continue
            gvec[k] = gval[d]
        if okG: compare('GFexpansion', np.dot(GFexp, gvec), project(G), lab2)
        res['transitions'] += len(pairs)

    # ---------------------------------------------------------------- omega0 classes and generic numbers
    j0rep = M.jump0_orbits()
    w0 = lambda c0: ps.generic(c0, 0.2)
    e0 = lambda c0, w: ps.generic((c0, (w,)), 0.3)
    n0 = len(S.jumpnetwork_index)
    c0_of_jt = [j0rep[ps.from_pairstate(S.jumplist[S.jumpnetwork_index[t][0]])] for t in range(n0)]
    w0vec = np.array([w0(c) for c in c0_of_jt])
    e0tab = np.array([[e0(c, wy[r[1]]) for c in c0_of_jt] for r in vstar_orbit])  # [vstar, jt]: Wyckoff of the vacancy site

    # ---------------------------------------------------------------- omega1
    om1 = M.omega1_jumps(st)
    j1rep, j1cl, esc1 = M.jump_orbits([(s, t) for s, t, j in om1])
    jn1, jt1, sp1 = S.jumpnetwork_omega1()
    res['execs'] += 6
    res['transitions'] += len(om1)
    w1 = lambda c: ps.generic(c, 0.0)
    e1 = lambda c, r: ps.generic((c, r), 0.1)

    def pkgclasses(jn, jrep, what):
        """model class of the first jump of every package class (None if that jump is not in the model's list)"""
        out = []
        for jl in jn:
            (i, f), dx = jl[0]
            out.append(jrep.get((st[i], st[f])))
            if out[-1] is None: cx.bad(what, 'package-jump-not-in-model:' + M.desc(st[i]) + '->' + M.desc(st[f]))
        return out

    c1 = pkgclasses(jn1, j1rep, 'omega1-network')
    if None not in c1:
        W1 = np.zeros((n, n)); W0 = np.zeros((n, n)); E1 = np.zeros(n); E0 = np.zeros(n)
        B1 = np.zeros((n, dim)); B0 = np.zeros((n, dim)); Dbare1 = np.zeros((dim, dim)); Dbare0 = np.zeros((dim, dim))
        for s, t, j in om1:
            a, b = pos[s], pos[t]
            c = j1rep[(s, t)]; c0 = j0rep[j]
            dx = M.dx(t) - M.dx(s)
            W1[a, b] += w1(c); W0[a, b] += w0(c0)
            E1[a] -= e1(c, rep[s]); E0[a] -= e0(c0, wy[s[1]])
            B1[a] += e1(c, rep[s]) * dx; B0[a] += e0(c0, wy[s[1]]) * dx
            Dbare1 += 0.5 * w1(c) * np.outer(dx, dx); Dbare0 += 0.5 * w0(c0) * np.outer(dx, dx)
        w1vec = np.array([w1(c) for c in c1])
        e1tab = np.array([[e1(c, r) for c in c1] for r in vstar_orbit]).reshape(Nv, len(c1))
        out = call('rateexpansions(omega1)', lambda: V.rateexpansions(jn1, jt1), len(jn1))
        if out is not None:
            r0, r0e, r1, r1e = out
            compare('rate1expansion', np.dot(r1, w1vec), project(W1), lab2)
            compare('rate0expansion', np.dot(r0, w0vec), project(W0), lab2)
            compare('rate1escape', np.einsum('ak,ak->a', r1e, e1tab), np.einsum('asx,s,asx->a', F, E1, F), lab1)
            compare('rate0escape', np.einsum('ak,ak->a', r0e, e0tab), np.einsum('asx,s,asx->a', F, E0, F), lab1)
        out = call('biasexpansions(omega1)', lambda: V.biasexpansions(jn1, jt1), len(jn1))
        if out is not None:
            b0, b1 = out
            compare('bias1expansion', np.einsum('ak,ak->a', b1, e1tab), np.einsum('asx,sx->a', F, B1), lab1)
            compare('bias0expansion', np.einsum('ak,ak->a', b0, e0tab), np.einsum('asx,sx->a', F, B0), lab1)
        out = call('bareexpansions(omega1)', lambda: V.bareexpansions(jn1, jt1), len(jn1))
        if out is not None:
            D0x, D1x = out
            compare('bare1expansion', np.dot(D1x, w1vec), Dbare1, labD)
            compare('bare0expansion', np.dot(D0x, w0vec), Dbare0, labD)

    # ---------------------------------------------------------------- omega2
    om2 = M.omega2_jumps(st)
    j2rep, j2cl, esc2 = M.jump_orbits([(s, t) for s, t, j in om2])
    jn2, jt2, sp2 = S.jumpnetwork_omega2()
    res['transitions'] += len(om2)
    c2 = pkgclasses(jn2, j2rep, 'omega2-network')
    w2 = lambda c: ps.generic(c, 0.6)
    e2 = lambda c, r: ps.generic((c, r), 0.7)
    if None not in c2:
        W2 = np.zeros((n, n)); W0 = np.zeros((n, n)); E2 = np.zeros(n); E0 = np.zeros(n)
        Dbare2 = np.zeros((dim, dim)); Dbare0 = np.zeros((dim, dim))
        # bias: per vector star, because the origin-state terms are weighted with the factor of the ORIGIN star
        B2 = np.zeros((n, dim)); B0 = np.zeros((n, dim))
        B2os = np.zeros((n, dim)); B0os = np.zeros((n, dim))
        for s, t, j in om2:
            a, b = pos[s], pos[t]
            c = j2rep[(s, t)]; c0 = j0rep[j]
            dx = -M.dx(s)                          # the vacancy moves onto the solute site
            W2[a, b] += w2(c)
            E2[a] -= e2(c, rep[s]); E0[a] -= e0(c0, wy[s[1]])
            B2[a] += e2(c, rep[s]) * dx; B0[a] += e0(c0, wy[s[1]]) * dx
            Dbare2 += 0.5 * w2(c) * np.outer(dx, dx); Dbare0 += 0.5 * w0(c0) * np.outer(dx, dx)
            z = M.zero(s[0])
            if z in pos:                           # reference (no solute): the vacancy lands on / leaves the solute's site
                k = pos[z]
                W0[a, k] += w0(c0); W0[k, a] += w0(c0)
                E0[k] -= e0(c0, wy[z[1]])
                B2os[k] -= e2(c, rep[z]) * dx      # "origin states get the negative summed bias of the others"
                B0os[k] -= e0(c0, wy[z[1]]) * dx
        w2vec = np.array([w2(c) for c in c2])
        e2tab = np.array([[e2(c, r) for c in c2] for r in vstar_orbit]).reshape(Nv, len(c2))
        out = call('rateexpansions(omega2)', lambda: V.rateexpansions(jn2, jt2, omega2=True), len(jn2))
        if out is not None:
            r0, r0e, r2, r2e = out
            compare('rate2expansion', np.dot(r2, w2vec), project(W2), lab2)
            compare('rate2-om0expansion', np.dot(r0, w0vec), project(W0), lab2)
            compare('rate2escape', np.einsum('ak,ak->a', r2e, e2tab), np.einsum('asx,s,asx->a', F, E2, F), lab1)
            compare('rate2-om0escape', np.einsum('ak,ak->a', r0e, e0tab), np.einsum('asx,s,asx->a', F, E0, F), lab1)
        out = call('biasexpansions(omega2)', lambda: V.biasexpansions(jn2, jt2, omega2=True), len(jn2))
        if out is not None:
            b0, b2 = out
            compare('bias2expansion', np.einsum('ak,ak->a', b2, e2tab), np.einsum('asx,sx->a', F, B2 + B2os), lab1)
            compare('bias2-om0expansion', np.einsum('ak,ak->a', b0, e0tab), np.einsum('asx,sx->a', F, B0 + B0os), lab1)
        out = call('bareexpansions(omega2)', lambda: V.bareexpansions(jn2, jt2), len(jn2))
        if out is not None:
            D0x, D2x = out
            compare('bare2expansion', np.dot(D2x, w2vec), Dbare2, labD)
            compare('bare2-om0expansion', np.dot(D0x, w0vec), Dbare0, labD)

    # ---------------------------------------------------------------- fold-down onto origin-state vector stars
    for elem, attr in (('solute', 0), ('vacancy', 1)):
        OSi, fold, OSVB = V.originstateVectorBasisfolddown(elem)
        want_OS = [a for a in range(Nv) if M.iszero(vstar_orbit[a])]
        cx.ncmp += 1
        if list(OSi) != want_OS:
            cx.bad('folddown', elem + ':OSindices', {'pkg': list(map(int, OSi)), 'ref': want_OS}); continue
        vb = np.zeros((len(want_OS), M.Ns, dim))
        for q, a in enumerate(want_OS):
            for s in cl[vstar_orbit[a]]: vb[q, s[attr], :] = F[a, pos[s], :]
        compare('folddown', OSVB, vb, lambda ix: elem + ':OS_VB')
        ext = np.zeros((len(want_OS), n, dim))     # the site vector field extended to every pair state
        for k, s in enumerate(st): ext[:, k, :] = vb[:, s[attr], :]
        compare('folddown', fold, np.einsum('qkx,akx->qa', ext, F), lambda ix: elem + ':folddown:star:' + vdesc[ix[1]])

    res['transitions'] += cx.ncmp
    res['nontrivial'] = 1 if (special > 0 and len(om1) > 0) else 0
    nvper = sorted(sum(1 for a in range(Nv) if vstar_orbit[a] == r) for r in cl)
    res['outcomes'] = ['n{}:nv{}:{}:om1-{}:om2-{}'.format(n, Nv, ''.join(map(str, nvper))[:40], len(j1cl), len(j2cl))]
    res['violations'] = cx.viol
    res['sample'] = {'case': case['key'], 'states': n, 'stars': len(cl), 'vector_stars': int(Nv), 'omega1_jumps': len(om1),
                     'omega1_classes': len(j1cl), 'omega2_jumps': len(om2), 'stars_with_nontrivial_stabiliser_space': special}
    return res
