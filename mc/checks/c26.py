"""
C26 -- the omega1 / omega2 jump networks of solute-vacancy pair states classify every transition exactly once.

Explorer E1: catalogue crystal x jump cutoff x
   raw:  StarSet(N, originstates).jumpnetwork_omega1() / jumpnetwork_omega2()           N in {1,2} (3 thorough)
   vm:   VacancyMediated(crys, chem, sitelist, jumpnetwork, Nthermo).om1_jn / om2_jn     Nthermo in {1,2}
Reference (mc/refmodels/pairstates.py): own list of every vacancy jump s -> s' with the solute fixed between
non-zero states of the set (vm: of the kinetic set = thermo + 1 shell, keeping exactly the jumps with an end in
the thermodynamic set), own list of every exchange s -> -s, union-find classes under G and reversal.
Everything is compared exactly (displacements to 1e-9).
"""
import numpy as np
from onsager import crystalStars as stars
from onsager import OnsagerCalc
from mc import catalog
from mc.refmodels import pairstates as ps

PID = 'C26'
ENGINE = 'E1'
TECHNIQUE = ('exhaustive enumeration of catalogue networks x range; the package\'s omega1/omega2 networks compared jump by jump '
             'with an independently enumerated transition list and union-find classes under the space group and reversal')
RULE = ('case = (crystal, cutoff index, raw:N:originflag | vm:Nthermo); every jump of every class is visited; '
        'nontrivial = cases with >= 2 omega1 classes of which at least one joins two different stars')
LEVEL_TEXT = 'bounded-exhaustive over the catalogue; transition lists and classes are finite sets compared exactly'
LEVEL_NOTE = 'crys.G trusted (C18); the state sets themselves are checked by C24 (re-checked here for the vm objects)'
ASSUMPTIONS = ['crys.G is the symmetry group (C18)', 'the vacancy jump network lists both directions of every jump (C21)',
               'order of the star pair recorded for a class is not prescribed (either orientation accepted)']

CAP = {'quick': 400, 'thorough': 1100}      # states of the (kinetic) set; larger combinations are not enumerated
VMCAP = {'quick': 240, 'thorough': 400}     # kinetic-set size for VacancyMediated objects (construction time)


def _nets(tier):
    out = []
    for name in catalog.names():
        m = catalog.meta(name)
        if m.get('disconnected') and tier == 'quick': continue
        for ic in range(len(m['cut'])): out.append((name, ic))
    return out


def _NS(tier): return (1, 2) if tier == 'quick' else (1, 2, 3)


_sizes = {}


def _size(name, ic, N):
    if (name, ic, N) not in _sizes:
        crys, chem, sl, jn = catalog.network(name, ic)
        M = ps.PairModel(crys, chem, jn)
        for n in (1, 2, 3): _sizes[(name, ic, n)] = len(M.reach(n, True))
    return _sizes[(name, ic, N)]


def _plan(tier):
    run, skip = [], []
    for name, ic in _nets(tier):
        for N in _NS(tier):
            for o in (0, 1):
                key = '{}:c{}:raw:N{}:o{}'.format(name, ic, N, o)
                (run if _size(name, ic, N) <= CAP[tier] else skip).append(
                    {'key': key, 'name': name, 'icut': ic, 'mode': 'raw', 'N': N, 'origin': o, 'cost': float(_size(name, ic, N))})
        for Nt in (1, 2):
            key = '{}:c{}:vm:Nthermo{}'.format(name, ic, Nt)
            (run if _size(name, ic, Nt + 1) <= VMCAP[tier] else skip).append(
                {'key': key, 'name': name, 'icut': ic, 'mode': 'vm', 'Nthermo': Nt, 'cost': 20. * _size(name, ic, Nt + 1)})
    return run, skip


def BOUNDS(tier):
    run, skip = _plan(tier)
    return {'crystals': sorted(set(n for n, _ in _nets(tier))), 'networks': len(_nets(tier)), 'raw_Nshells': list(_NS(tier)),
            'raw_originstates': [False, True], 'vm_Nthermo': [1, 2], 'raw_state_cap': CAP[tier], 'vm_kinetic_state_cap': VMCAP[tier],
            'not_enumerated_over_cap': [c['key'] for c in skip]}


def cases(tier):
    return _plan(tier)[0]


class Ctx:
    def __init__(self, case):
        self.case = case
        self.name, self.ic = case['name'], case['icut']
        self.crys, self.chem, self.sitelist, self.jn = catalog.network(self.name, self.ic)
        self.M = ps.PairModel(self.crys, self.chem, self.jn)
        self.seen, self.ncmp, self.per = set(), 0, {}
        self.sub = case['key'].split(':', 2)[2]

    def bad(self, oracle, what, detail=None):
        key = '{}:c{}:{}:{}'.format(self.name, self.ic, self.sub, what)
        if (oracle, key) in self.seen: return
        self.seen.add((oracle, key))
        self.per.setdefault(oracle, []).append({'oracle': oracle, 'key': key, 'detail': detail, 'case': self.case})

    @property
    def viol(self):
        """at most 3 signatures per oracle and case: the lexicographically smallest keys (hash-seed independent choice)"""
        out = []
        for o in sorted(self.per): out += sorted(self.per[o], key=lambda v: v['key'])[:3]
        return out


def jdesc(M, p):
    return M.desc(p[0]) + '->' + M.desc(p[1])


def check_network(cx, tag, S, jn, jt, sp, expected, exchange):
    """jn/jt/sp: the package's network over the states of StarSet S.  expected: list of (s, t, bare jump) from the model."""
    M = cx.M
    st = [ps.from_pairstate(x) for x in S.states]
    n = len(st)
    exp_pairs = {(s, t): j for s, t, j in expected}
    jrep, jcl, escaped = M.jump_orbits(exp_pairs.keys())
    if escaped:
        p, q = min(escaped)
        cx.bad(tag + '-model', 'expected-set-not-closed:' + jdesc(M, p) + '=>' + jdesc(M, q))   # cannot happen for G-closed state sets
    if not (len(jn) == len(jt) == len(sp)):
        cx.bad(tag + '-shape', 'lengths', {'jn': len(jn), 'jt': len(jt), 'sp': len(sp)})
    # omega0 classes as handed to the package: sets of bare transitions
    om0 = [set(ps.from_pairstate(S.jumplist[i]) for i in idx) for idx in S.jumpnetwork_index]
    seen = {}
    for k, jl in enumerate(jn):
        members = []
        for (i, f), dx in jl:
            cx.ncmp += 1
            if i is None or f is None or not (0 <= i < n and 0 <= f < n):
                cx.bad(tag + '-index', 'state-index-outside-set', {'i': str(i), 'f': str(f)}); continue
            p = (st[i], st[f])
            members.append(p)
            if p in seen:
                cx.bad(tag + '-once', 'listed-twice:' + jdesc(M, p), {'same_class': seen[p] == k})
            seen[p] = k
            if p not in exp_pairs:
                cx.bad(tag + '-set', 'extra:' + jdesc(M, p)); continue
            want_dx = (-M.dx(p[0])) if exchange else (M.dx(p[1]) - M.dx(p[0]))     # displacement of the vacancy
            if np.max(np.abs(np.asarray(dx, dtype=float) - want_dx)) > 1e-9:
                cx.bad(tag + '-dx', jdesc(M, p), {'pkg': list(map(float, dx)), 'ref': list(map(float, want_dx))})
            if k < len(jt):
                if not (0 <= jt[k] < len(om0)) or exp_pairs[p] not in om0[jt[k]]:
                    cx.bad(tag + '-jumptype', jdesc(M, p), {'bare_jump': M.desc(exp_pairs[p])})
            if k < len(sp):
                got = {int(S.index[i]), int(S.index[f])}
                if got != {int(sp[k][0]), int(sp[k][1])}:
                    cx.bad(tag + '-starpair', jdesc(M, p))
        if not members: cx.bad(tag + '-classes', 'empty-class'); continue
        inexp = [p for p in members if p in jrep]
        if not inexp: continue
        r = jrep[inexp[0]]
        want = jcl[r]
        have = sorted(set(members))
        cx.ncmp += 1
        if have != want:
            miss = sorted(set(want) - set(have)); extra = sorted(set(have) - set(want))
            what = ('incomplete-class-of:' + jdesc(M, r) + ':lacks:' + jdesc(M, miss[0])) if miss else \
                   ('merged-classes:' + jdesc(M, r) + ':with:' + jdesc(M, extra[0]))
            cx.bad(tag + '-classes', what, {'class_size': len(have), 'orbit_size': len(want)})
    miss = sorted(set(exp_pairs) - set(seen))
    if miss: cx.bad(tag + '-set', 'missing:' + jdesc(M, miss[0]), {'n_missing': len(miss), 'n_expected': len(exp_pairs)})
    if len(jn) != len(jcl) and not miss:
        cx.bad(tag + '-classes', 'class-count', {'pkg': len(jn), 'orbits': len(jcl)})
    mixed = sum(1 for r, mem in jcl.items() if not exchange and any(cx.rep[p[0]] != cx.rep[p[1]] for p in mem[:1]))
    return len(exp_pairs), len(jcl), mixed


def evaluate(case):
    cx = Ctx(case)
    M = cx.M
    res = {'states': 0, 'transitions': 0, 'execs': 0, 'outcomes': [], 'nontrivial': 0}
    if case['mode'] == 'raw':
        N, o = case['N'], case['origin']
        S = stars.StarSet(cx.jn, cx.crys, cx.chem, N, originstates=bool(o))
        st = set(ps.from_pairstate(x) for x in S.states)
        if st != M.reach(N, bool(o)): cx.bad('precondition', 'state-set-differs-from-model (see C24)')
        cx.rep = M.orbits(st)[0]
        jn1, jt1, sp1 = S.jumpnetwork_omega1()
        n1, c1, mixed = check_network(cx, 'omega1', S, jn1, jt1, sp1, M.omega1_jumps(st), False)
        jn2, jt2, sp2 = S.jumpnetwork_omega2()
        n2, c2, _ = check_network(cx, 'omega2', S, jn2, jt2, sp2, M.omega2_jumps(st), True)
        res['execs'] = 2
    else:
        Nt = case['Nthermo']
        vm = OnsagerCalc.VacancyMediated(cx.crys, cx.chem, cx.sitelist, cx.jn, Nt)
        thermo, kinetic = M.reach(Nt, False), M.reach(Nt + 1, True)
        if set(ps.from_pairstate(x) for x in vm.thermo.states) != thermo: cx.bad('vm-thermo', 'state-set-differs-from-model')
        if set(ps.from_pairstate(x) for x in vm.kinetic.states) != kinetic: cx.bad('vm-kinetic', 'state-set-differs-from-model')
        cx.rep = M.orbits(kinetic)[0]
        S = vm.kinetic
        exp1 = [(s, t, j) for s, t, j in M.omega1_jumps(kinetic) if s in thermo or t in thermo]
        n1, c1, mixed = check_network(cx, 'omega1', S, vm.om1_jn, vm.om1_jt, vm.om1_SP, exp1, False)
        n2, c2, _ = check_network(cx, 'omega2', S, vm.om2_jn, vm.om2_jt, vm.om2_SP, M.omega2_jumps(kinetic), True)
        # omegalist(): one representative pair per class, same order, same jump types
        for idx, (jn, jt) in ((1, (vm.om1_jn, vm.om1_jt)), (2, (vm.om2_jn, vm.om2_jt))):
            pairs, types = vm.omegalist(idx)
            cx.ncmp += 1
            ok = len(pairs) == len(jn) and list(types) == list(jt)
            if ok:
                stl = [ps.from_pairstate(x) for x in S.states]
                for (a, b), jl in zip(pairs, jn):
                    if (ps.from_pairstate(a), ps.from_pairstate(b)) not in set((stl[i], stl[f]) for (i, f), dx in jl): ok = False
            if not ok: cx.bad('omegalist', 'omega{}'.format(idx))
        st = kinetic
        res['execs'] = 3
    res['states'] = len(st)
    res['transitions'] = cx.ncmp
    res['nontrivial'] = 1 if (c1 >= 2 and mixed >= 1) else 0
    res['outcomes'] = ['n{}:om1-{}/{}:om2-{}/{}'.format(len(st), n1, c1, n2, c2)]
    res['violations'] = cx.viol
    res['sample'] = {'case': case['key'], 'states': len(st), 'omega1_jumps': n1, 'omega1_classes': c1, 'omega2_jumps': n2,
                     'omega2_classes': c2, 'omega1_classes_joining_two_stars': mixed}
    return res
