"""
C22 -- k-point meshes: every point in the Brillouin zone, symmetry-reduced mesh exact for invariant functions
        (Crystal.genBZG / inBZ / fullkptmesh / reducekptmesh).

Input-lattice explorer (E1).  A node is (lattice type, length scale, mesh (n1,n2[,n3])).  For every node the real
code builds the zone-defining vectors, the full mesh and the reduced mesh; the reference (mc/refmodels/bravais.py)
decides by brute force over reciprocal lattice vectors enumerated in a safe range:
  * which reciprocal vectors define faces of the zone (Voronoi-relevant vectors),
  * whether a point is inside the closed zone (no K with |k-K| < |k|),
  * the point group (holohedry filtered by the atoms), orbits of lattice vectors (shells) by union-find.
Linearity closure: sum_red w f == mean_full f is checked for the shell basis f_S(k) = sum_{R in S} cos(k.R), S = every
point-group orbit of lattice vectors up to 3|a_min|; that decides it for every function in their span.
"""
import itertools
import numpy as np
from onsager import crystal
from mc import catalog
from mc.refmodels import bravais as bv

PID = 'C22'
ENGINE = 'E1'
TECHNIQUE = ('exhaustive enumeration of (lattice type x scale x mesh) on the real genBZG/fullkptmesh/reducekptmesh, '
             'compared with brute-force Voronoi/zone/orbit models and closed-form plane-wave quadrature')
RULE = ('every Bravais type (14 3D + 5 2D, fixed generic parameters, plus zone-topology variants, a few multi-atom catalogue '
        'crystals and three skewed noreduce cells) x length scale {1, 4.05} x every mesh of the stated box, symmetric or not; '
        'every point-group orbit of lattice vectors up to 3|a_min| as test function; nontrivial = meshes where the reduced '
        'mesh is strictly smaller than the full one and at least one point had to be folded into the zone or lies on its surface')
LEVEL_TEXT = ('exact (1e-12) for the whole span of the enumerated shell functions on every enumerated mesh; the zone itself is '
              'decided against a complete enumeration of reciprocal lattice vectors')
LEVEL_NOTE = ('the mesh definition (fractions 1/2 - i/N, i.e. a Gamma-centred mesh for even N and a half-step shifted mesh for odd N) '
              'is taken from the implementation; the check only requires a uniform N1xN2xN3 coset of the mesh group')
ASSUMPTIONS = [
    'a full mesh is accepted when it is ANY translate of the uniform mesh group {sum_i (m_i/N_i) b_i}: the docstring promises a '
    'density, not a centring (observed: odd N_i give meshes that do not contain Gamma and are not invariant under the point '
    'group of hexagonal/fcc/bcc lattices; recorded in outcomes, not judged)',
    'reducekptmesh documents no symmetry requirement on its input: exactness for invariant functions, positive weights summing '
    'to one and weight = orbit size / N are demanded for EVERY mesh, also n1 != n2 on cubic lattices; orbits are taken under the '
    'pure rotations of Crystal.G (points equivalent only through a reciprocal lattice vector are not required to be merged)',
    'zone membership is judged at relative 1e-9 (points are either on the surface to round-off or off by a mesh step); inBZ '
    'is compared with the model only on probe points farther than 1e-3 (relative) from every zone face',
    'redundant (tie) vectors in BZG, e.g. the corner vectors of a rectangular zone, are allowed either way',
]

SCALES = [1.0, 4.05]
MULTI = ['HCP', 'DIAMOND', 'WURTZ2', 'B2AB', 'OMEGA', 'P1', 'HONEY', 'KAGOME']
SKEW = [('sq', '[[1,3],[0,1]]'), ('hex', '[[1,2],[0,1]]'), ('cP', '[[1,2,0],[0,1,2],[0,0,1]]')]


def lattice_names():
    out = list(bv.BRAVAIS3) + list(bv.BRAVAIS3_VARIANTS) + list(bv.BRAVAIS2) + list(bv.BRAVAIS2_VARIANTS)
    out += ['cat:' + n for n in MULTI]
    out += ['skew:{}:{}'.format(n, m) for n, m in SKEW]
    return out


def build(name, scale):
    if name.startswith('cat:'):
        c = catalog.get(name[4:])
        return crystal.Crystal(scale * c.lattice, [[u.copy() for u in bc] for bc in c.basis], list(c.chemistry))
    if name.startswith('skew:'):
        _, n, m = name.split(':')
        L = bv.bravais(n)
        return crystal.Crystal(scale * np.dot(L, bv.mparse(m)), [np.zeros(L.shape[0])], noreduce=True)
    L = bv.bravais(name)
    return crystal.Crystal(scale * L, [np.zeros(L.shape[0])])


def dim_of(name):
    if name.startswith('cat:'): return catalog.get(name[4:]).dim
    if name.startswith('skew:'): return bv.bravais(name.split(':')[1]).shape[0]
    return bv.bravais(name).shape[0]


def meshes(dim, tier):
    if dim == 3:
        if tier == 'quick':
            return [list(t) for t in itertools.product(range(1, 4), repeat=3)] + [[n, n, n] for n in (4, 5, 6)]
        return [list(t) for t in itertools.product(range(1, 7), repeat=3)]
    if tier == 'quick':
        return [list(t) for t in itertools.product(range(1, 4), repeat=2)] + [[n, n] for n in range(4, 9)]
    return [list(t) for t in itertools.product(range(1, 9), repeat=2)]


def BOUNDS(tier):
    return {'lattices': lattice_names(), 'scales': SCALES,
            'parameters': 'b/a=1.1, c/a=1.25 (tetragonal 1.2/1.3, variants 0.8/1.7; hexagonal 1.1/0.7), beta=100 (115) deg, '
                          'triclinic: three fixed cells (acute, obtuse, flat); rhombohedral acute+obtuse',
            'meshes_3d': '{1..3}^3 + (4,4,4),(5,5,5),(6,6,6)' if tier == 'quick' else '{1..6}^3',
            'meshes_2d': '{1..3}^2 + (n,n) n=4..8' if tier == 'quick' else '{1..8}^2',
            'shells': 'every point-group orbit of non-zero lattice vectors with |R| <= 3 |a_min|',
            'inBZ_probes': 'B.(i/4), i in {-4..4}^dim, minus points within 1e-3 of a face'}


def cases(tier):
    out = []
    for name in lattice_names():
        dim = dim_of(name)
        ms = meshes(dim, tier)
        for s in SCALES:
            if tier == 'quick':
                groups = [('all', ms)]
            else:
                groups = [('n1={}'.format(n1), [m for m in ms if m[0] == n1]) for n1 in sorted(set(m[0] for m in ms))]
            for gname, g in groups:
                out.append({'key': '{};s={};{}'.format(name, s, gname), 'latt': name, 'scale': s, 'meshes': g,
                            'cost': sum(int(np.prod(m)) for m in g) * (3 if dim == 3 else 1)})
    return out


# ---------------------------------------------------------------- per-crystal oracles
def check_zone(crys, B, add):
    """genBZG / inBZ against the brute-force Voronoi model.  Returns digest"""
    dim = crys.dim
    rel = bv.relevant_margins(B)
    need = {tuple(int(v) for v in n): K for n, K, m in rel if m > 1e-9}
    ties = {tuple(int(v) for v in n) for n, K, m in rel if abs(m) <= 1e-9}
    Binv = np.linalg.inv(B)
    have = set()
    for G in crys.BZG:
        m = np.dot(Binv, 2. * G)
        mi = np.round(m)
        if np.max(np.abs(m - mi)) > 1e-9 or not np.any(mi != 0):
            add('BZG-not-reciprocal', None, {'G': G.tolist(), 'coords_of_2G': m.tolist()})
        else:
            have.add(tuple(int(v) for v in mi))
    missing = sorted(set(need) - have)
    if missing:
        add('BZG-missing-face', None, {'n_faces_expected': len(need), 'n_BZG': len(crys.BZG), 'n_missing': len(missing),
                                       'missing_recip_index': missing[:6]})
    spurious = sorted(have - set(need) - ties)
    # a vector that is neither a face nor a tie is a redundant plane: harmless for membership, recorded only
    # inBZ against the model on probe points
    probes = [np.dot(B, np.array(t) / 4.) for t in itertools.product(range(-4, 5), repeat=dim)]
    nprobe = nin = 0
    bad = None
    for k in probes:
        ex, K = bv.outside_bz(k, B)
        if abs(ex) < 1e-3: continue        # too close to a face (ties)
        nprobe += 1
        lib = bool(crys.inBZ(k))
        nin += lib
        if lib != (ex < 0) and bad is None:
            bad = {'k_in_recip_units': np.dot(Binv, k).tolist(), 'lib_inBZ': lib, 'model_excess': ex}
    if bad: add('inBZ-model', None, bad)
    return {'faces': len(need), 'ties': len(ties), 'BZG': len(crys.BZG), 'redundant': len(spurious), 'probes': nprobe, 'probes_in': nin}


def check_mesh(crys, B, rots_lib, shell_list, shell_unit, N, add):
    """one mesh through fullkptmesh / reducekptmesh.  Returns (digest, nontrivial flag, comparisons)"""
    dim = crys.dim
    Nk = int(np.prod(N))
    Binv = np.linalg.inv(B)
    Narr = np.array(N)
    kfull = crys.fullkptmesh(N)
    ncmp = 0
    if not isinstance(kfull, np.ndarray) or kfull.shape != (Nk, dim):
        add('mesh-shape', N, {'shape': getattr(kfull, 'shape', None)})
        return None, False, 1
    raw = np.array([np.dot(B, t) for t in itertools.product(*[0.5 - np.arange(n) / n for n in N])])
    nfolded = int(np.sum(np.max(np.abs(kfull - raw), axis=1) > 1e-9)) if raw.shape == kfull.shape else -1
    # (1) uniform coset of the mesh group, all N points distinct modulo reciprocal lattice vectors
    u = np.dot(kfull, Binv.T)
    rel = (u - u[0][None, :]) * Narr[None, :]
    reli = np.round(rel)
    if np.max(np.abs(rel - reli)) > 1e-8:
        add('mesh-not-uniform', N, {'max_offgrid': float(np.max(np.abs(rel - reli)))})
    else:
        res = set(tuple(int(v) for v in np.mod(r, Narr)) for r in reli)
        if len(res) != Nk:
            add('mesh-not-distinct', N, {'distinct_mod_G': len(res), 'N': Nk})
    u0 = u[0]
    gamma = bool(np.min(np.max(np.abs(kfull), axis=1)) < 1e-12)
    # (2) every point inside the zone
    worst, nsurf = 0., 0
    for k in kfull:
        ex, K = bv.outside_bz(k, B)
        ncmp += 1
        if ex > -1e-9: nsurf += 1
        if ex > worst: worst = ex; wk = k.copy(); wK = K
        if not crys.inBZ(k):
            add('inBZ-lib-false', N, {'k': k.tolist(), 'model_excess': ex})
    if worst > 1e-9:
        add('outside-BZ', N, {'k': wk.tolist(), '|k|': float(np.linalg.norm(wk)), '|k-K|': float(np.linalg.norm(wk - wK)),
                              'K_recip_index': np.round(np.dot(Binv, wK)).astype(int).tolist(), 'excess_rel': worst,
                              'n_outside': int(sum(1 for k in kfull if bv.outside_bz(k, B)[0] > 1e-9))})
    # (3) reduced mesh
    kred, w = crys.reducekptmesh(kfull)
    kred, w = np.asarray(kred), np.asarray(w)
    if kred.ndim != 2 or kred.shape[1] != dim or w.shape != (kred.shape[0],):
        add('reduced-shape', N, {'k': kred.shape, 'w': w.shape})
        return None, False, ncmp
    if not np.all(w > 0): add('weights-positive', N, {'min': float(np.min(w))})
    if abs(np.sum(w) - 1) > 1e-12: add('weights-sum', N, {'sum': float(np.sum(w))})
    fullset = set(k.tobytes() for k in kfull)
    if any(k.tobytes() not in fullset for k in kred):
        add('reduced-not-subset', N, {'n': int(sum(1 for k in kred if k.tobytes() not in fullset))})
    # orbit of each reduced point within the full mesh under the pure rotations of Crystal.G
    owner = -np.ones(Nk, dtype=int)
    clash = False
    counts = []
    for a, k in enumerate(kred):
        imgs = np.array([np.dot(R, k) for R in rots_lib])                   # (ng, dim)
        d = np.max(np.abs(kfull[:, None, :] - imgs[None, :, :]), axis=2)      # (Nk, ng)
        hit = np.min(d, axis=1) < 1e-8
        counts.append(int(np.sum(hit)))
        if np.any(owner[hit] >= 0): clash = True
        owner[hit] = a
        ncmp += 1
    counts = np.array(counts)
    if clash: add('not-irreducible', N, {'what': 'two reduced points are related by a rotation of G'})
    if np.any(owner < 0): add('orbits-not-covering', N, {'uncovered_full_points': int(np.sum(owner < 0))})
    if np.max(np.abs(w - counts / Nk)) > 1e-12:
        a = int(np.argmax(np.abs(w - counts / Nk)))
        add('orbit-weight', N, {'k': kred[a].tolist(), 'weight': float(w[a]), 'orbit_size_over_N': counts[a] / Nk})
    # (4) shell functions: closed form / full mesh / reduced mesh
    worst_full = worst_red = 0.
    for S, Su in zip(shell_list, shell_unit):
        alias = np.all(np.mod(Su, Narr[None, :]) == 0, axis=1)
        expect = float(np.sum(np.cos(2 * np.pi * np.dot(Su[alias], u0)))) if np.any(alias) else 0.
        ffull = float(np.mean(np.sum(np.cos(np.dot(kfull, S.T)), axis=1)))
        fred = float(np.dot(w, np.sum(np.cos(np.dot(kred, S.T)), axis=1)))
        tol = 1e-12 * len(S)
        ncmp += 2
        if abs(ffull - expect) > tol and abs(ffull - expect) / len(S) > worst_full:
            worst_full = abs(ffull - expect) / len(S)
            dfull = {'shell_length': float(np.linalg.norm(S[0])), 'shell_size': len(S), 'mean_full': ffull, 'closed_form': expect}
        if abs(fred - ffull) > tol and abs(fred - ffull) / len(S) > worst_red:
            worst_red = abs(fred - ffull) / len(S)
            dred = {'shell_length': float(np.linalg.norm(S[0])), 'shell_size': len(S), 'sum_reduced': fred, 'mean_full': ffull,
                    'shell_lattice_index_example': Su[0].tolist()}
    if worst_full > 0: add('full-quadrature', N, dfull)
    if worst_red > 0: add('reduced-quadrature', N, dred)
    dig = {'N': list(N), 'nred': len(kred), 'folded': nfolded, 'surface': nsurf, 'gamma': gamma,
           'w': sorted(set(int(round(x * Nk)) for x in w))}
    return dig, (len(kred) < Nk and (nfolded > 0 or nsurf > 0)), ncmp


def evaluate(case):
    name, scale = case['latt'], case['scale']
    crys = build(name, scale)
    dim = crys.dim
    L = crys.lattice
    B = bv.recip(L)
    viols, seen = [], set()
    base = '{};s={}'.format(name, scale)

    zone_bad = []   # set once the zone-defining vectors of this crystal are found incomplete: later keys carry the context

    def add(oracle, N, detail):
        key = base if N is None else base + ';N=' + 'x'.join(str(int(n)) for n in N)
        if oracle == 'BZG-missing-face': zone_bad.append(1)
        elif zone_bad and oracle in ('outside-BZ', 'inBZ-lib-false', 'inBZ-model'): key += ';ctx=BZG-incomplete'
        if (oracle, key) in seen: return
        seen.add((oracle, key))
        sub = {'key': case['key'], 'latt': name, 'scale': scale, 'meshes': [list(N)] if N is not None else []}
        viols.append({'oracle': oracle, 'key': key, 'detail': detail, 'case': sub})

    if np.max(np.abs(crys.reciplatt - B)) > 1e-12 * np.max(np.abs(B)):
        add('reciprocal-lattice', None, {'lib': crys.reciplatt.tolist(), 'model': B.tolist()})
    zone = check_zone(crys, B, add)
    # groups: the library's rotations (for the orbit-weight oracle) and the brute-force point group (for the shells)
    rots_lib, keys = [], set()
    for g in sorted(crys.G, key=lambda g: tuple(g.rot.ravel())):
        k = tuple(np.round(g.cartrot, 8).ravel() + 0.0)
        if k not in keys:
            keys.add(k); rots_lib.append(np.array(g.cartrot, dtype=float))
    pg = bv.point_group(L, crys.basis)
    pgkeys = set(tuple(np.round(Q, 6).ravel() + 0.0) for Q in pg)
    notsym = [R for R in rots_lib if tuple(np.round(R, 6).ravel() + 0.0) not in pgkeys]
    if notsym:
        add('rotation-not-in-point-group', None, {'n': len(notsym), 'example': notsym[0].tolist()})
    amin = min(np.linalg.norm(L[:, i]) for i in range(dim))
    shell_list = bv.shells(L, 3 * amin * (1 + 1e-9), pg)
    Linv = np.linalg.inv(L)
    shell_unit = [np.round(np.dot(S, Linv.T)).astype(int) for S in shell_list]
    outcomes = set()
    outcomes.add('zone|{}|{}'.format(name, zone))
    nontriv = trans = 0
    for N in case['meshes']:
        try:
            dig, nt, nc = check_mesh(crys, B, rots_lib, shell_list, shell_unit, [int(n) for n in N], add)
        except Exception as e:
            add('exception', N, '{}: {}'.format(type(e).__name__, e)); continue
        trans += nc
        if dig is not None:
            outcomes.add('mesh|{}|{}'.format(name, dig))
            nontriv += bool(nt)
    return {'states': len(case['meshes']), 'transitions': trans, 'execs': 2 * len(case['meshes']) + 1,
            'outcomes': sorted(outcomes), 'nontrivial': nontriv, 'violations': viols,
            'sample': {'case': case['key'], 'zone': zone, 'point_group_order_model': len(pg), 'rotations_lib': len(rots_lib),
                       'shells': len(shell_list), 'lattice_vectors_in_shells': int(sum(len(s) for s in shell_list))}}
