"""
C01 — vacancy-mediated coefficients equal the dilute limit of the exact one-solute/one-vacancy chain.

E1 explorer: nodes = all data points within k deviations of the base points T/G1/G2 (one letter per
symmetry class of vacancy sites, solute sites, complexes, omega0/1/2 transition states), on a list of
crystals x cutoffs x Nthermo.  Node oracle = R-pair (mc/refmodels/pair.py) fed with a bare GF computed
by a separate GFCrystalcalc instance on the same mesh, so the comparison is tight to linear-algebra
round-off; L0vv additionally against the GF-free lone-vacancy chain.  R-pair itself is bound to the
definition by comparing R-pair(torus GF) with the brute-force torus chain at the start of every case group.
"""
import numpy as np
from mc import vm, catalog
from mc.refmodels import pair

PID = 'C01'
THOROUGH_HASHSEEDS = ['0', '1']     # two interpreter hash seeds in the thorough tier (one pass takes 15-30 min)
ENGINE = 'E1'
TECHNIQUE = 'bounded-exhaustive enumeration of input data (k deviations from base points) vs pair-state Dyson reference model validated against brute-force torus chain'
RULE = ('node = (crystal, cutoff, Nthermo, base point, <=k one-class deviations); every node is evaluated by '
        'VacancyMediated.Lij and by R-pair; nontrivial = node differs from its base point and its Lss differs '
        'from the base point\'s Lss by more than 1e-9 relative')
LEVEL_TEXT = ('Every data point within k deviations of three base points, on each listed crystal/cutoff/Nthermo, '
              'is compared with an independent unsymmetrised pair-state solver (which equals the brute-force torus '
              'chain to 1e-12 at finite size); a coverage statement over the stated alphabets, not a sample.')
LEVEL_NOTE = ('Trusted: bare lattice GF values (checked by C10; R-pair is invariant under the GF null-mode constant), '
              'the calculator\'s assignment of states/jumps to classes as the input convention (checked by C24/C26). '
              'L1vv: the package reports the O(cs) change of Lvv with the site-blocking term removed, i.e. raw + (1/N) sum_i pS_i l_i.')
ASSUMPTIONS = ['bare GF values of GFCrystalcalc are accurate (C10)', 'class membership of states and jumps is the input convention (C24, C26)']

TOL = 1e-9   # algebraic: different but well-conditioned linear algebra on identical GF values (observed 1e-13)
TOL_VB = 1e-6  # BZ-limited: with origin states the package takes the bare bias correction from its k-mesh (GFcalc.biascorrection),
               # the model from an exact pseudo-inverse; observed 2e-8 (2D) / 1e-10 (3D) on data where both are right

QUICK = [('FCC', 0, 1), ('BCC', 0, 1), ('HCP', 0, 1), ('SQUARE', 0, 1), ('HONEY', 0, 1), ('OMEGA', 0, 1),
         ('FCC', 0, 2), ('SC', 0, 2), ('RECTM', 0, 1), ('RECTMX', 0, 1), ('OBLIQUE', 1, 1), ('MONO', 2, 1)]
THOROUGH = QUICK + [('SC', 0, 1), ('DIAMOND', 0, 1), ('TET', 1, 1), ('TRIA', 0, 1), ('ROMEGA', 0, 1), ('B2', 0, 1), ('NBO', 0, 1),
                    ('HCP15', 1, 1), ('FCC', 1, 1), ('KAGOME', 0, 1), ('L12', 0, 1), ('WURTZ2', 0, 1),
                    ('BCC', 0, 2), ('HCP', 0, 2), ('SQUARE', 0, 2), ('HONEY', 0, 2), ('OMEGA', 0, 2),
                    ('TRIC', 2, 1), ('P1', 1, 1)]
TORUS = {'FCC': (5, 5, 5), 'BCC': (5, 5, 5), 'HCP': (5, 5, 5), 'SQUARE': (7, 7), 'HONEY': (5, 5), 'OMEGA': (5, 5, 7),
         'ROMEGA': (5, 5, 7), 'B2': (5, 5, 5), 'SC': (5, 5, 5), 'DIAMOND': (5, 5, 5), 'TET': (5, 5, 5), 'TRIA': (7, 7),
         'RECTM': (5, 5), 'NBO': (5, 5, 5), 'HCP15': (5, 5, 5), 'KAGOME': (5, 5), 'L12': (5, 5, 5), 'WURTZ2': (5, 5, 5),
         'OBLIQUE': (7, 7), 'RECTMX': (5, 5), 'MONO': (5, 5, 5), 'TRIC': (5, 5, 5), 'P1': (5, 5, 5)}
CHUNK_NODES = 24


def BOUNDS(tier):
    return {'crystals(name,cutoff index,Nthermo)': QUICK if tier == 'quick' else THOROUGH,
            'bases': ['T', 'G1', 'G2'], 'letters': vm.LETTER_NAMES, 'k': 1 if tier == 'quick' else '2 at base G1 with the letters E-ln2 / E+ln3 (crystals with <= 14 coordinates), 1 elsewhere',
            'k=2 restricted to': 'energy letters E-ln2,E+5 on crystals with <= 14 classes (thorough)',
            'tolerance': TOL, 'tolerance (crystals with origin states)': TOL_VB, 'torus validation sizes': TORUS}


def _nodes(name, icut, N, tier):
    ent = vm.calculator(name, icut, N)
    nco = len(vm.coordinates(ent))
    k1 = vm.dev_sets(nco, len(vm.LETTERS), 1)
    out = []
    for base in ('T', 'G1', 'G2'):
        out += [(base, d) for d in k1]
    if tier == 'thorough' and nco <= 14:
        import itertools
        for base in ('G1',):
            for cs in itertools.combinations(range(nco), 2):
                for ls in itertools.product((0, 1), repeat=2):     # mild letters: two +5 letters at once cost 5e-8 of round-off agreement
                    out.append((base, tuple(zip(cs, ls))))
    return out


def cases(tier):
    out = []
    for (name, icut, N) in (QUICK if tier == 'quick' else THOROUGH):
        nodes = _nodes(name, icut, N, tier)
        for c in range(0, len(nodes), CHUNK_NODES):
            out.append({'key': '{}/{}/N{}/chunk{}'.format(name, icut, N, c // CHUNK_NODES), 'crystal': name, 'icut': icut,
                        'N': N, 'nodes': [[b, [list(x) for x in d]] for b, d in nodes[c:c + CHUNK_NODES]],
                        'validate_model': c == 0, 'cost': (3 if N == 2 else 1) * (2 if name in ('ROMEGA', 'OMEGA', 'L12', 'NBO') else 1)})
    return out


def node_key(ent, case, base, devs):
    return '{}/cut{}/N{};vb={};base={};dev={}'.format(case['crystal'], case['icut'], case['N'], int(vm.has_vb(ent)), base,
                                                    vm.dev_name(ent, devs))


def evaluate(case):
    ent = vm.calculator(case['crystal'], case['icut'], case['N'])
    model = vm.model_of(ent)
    viols, outcomes = [], []
    execs = 0
    subcase = lambda b, dv: {'key': case['key'], 'crystal': case['crystal'], 'icut': case['icut'], 'N': case['N'],
                             'nodes': [[b, [list(x) for x in dv]]], 'validate_model': False}
    if not model.stateset_agrees:
        viols.append({'oracle': 'kinetic-state-set', 'key': '{}/cut{}/N{}'.format(case['crystal'], case['icut'], case['N']),
                      'detail': 'kinetic star set differs from states reachable in <= Nthermo+1 jumps'})
    if not model.thermoset_agrees:
        viols.append({'oracle': 'thermo-state-set', 'key': '{}/cut{}/N{}'.format(case['crystal'], case['icut'], case['N']),
                      'detail': 'thermodynamic star set differs from states reachable in 1..Nthermo jumps'})
    if viols: return {'violations': viols}
    # ---- bind the model to the definition (finite torus, exact)
    if case.get('validate_model'):
        d = vm.base_data(ent, 'G1')
        bF = vm.raw_bF(d)
        ns = TORUS[case['crystal']]
        if case['N'] == 2: ns = tuple(n + 2 for n in ns)
        r1 = model.solve(*bF, pair.torus_gf(model.net, ns, bF[0], bF[3]))
        r2 = pair.torus_chain(model, ns, *bF)
        for k in ('Lss', 'Lsv', 'Lsv_unsym', 'L1vv_raw'):
            err = float(np.abs(r1[k] - r2[k]).max()) / vm.tscale(r2[k])
            if err > 1e-9:
                raise RuntimeError('MODEL ERROR (not a violation): R-pair(torus GF) vs R-torus {} differs by {:.2e} on {}'.format(k, err, case['key']))
        execs += 1
    base_L = {}
    nontriv = 0
    unresolved = 0
    for base in sorted(set(b for b, _ in case['nodes'])):
        base_L[base] = vm.package_L(ent, vm.base_data(ent, base))[1]
    for base, devs in case['nodes']:
        devs = [tuple(x) for x in devs]
        d = vm.apply_devs(ent, vm.base_data(ent, base), devs)
        key = node_key(ent, case, base, devs)
        try:
            L = vm.package_L(ent, d)
        except Exception as e:
            viols.append({'oracle': 'exception', 'key': key, 'detail': repr(e), 'case': subcase(base, devs)})
            continue
        ref = vm.model_L(ent, d)
        execs += 1
        sc = vm.tscale(*L)
        errs = {}
        # Lsv: the package's index order is (vacancy, solute); the exact cross-correlation <dx_solute (x) dx_vacancy>
        # is NOT symmetric when the point group admits an antisymmetric invariant tensor, so compare unsymmetrised
        refs = {'L0vv': ref['L0vv'], 'Lss': ref['Lss'], 'Lsv': ref['Lsv_unsym'].T, 'L1vv': ref['L1vv']}
        for name, val in zip(('L0vv', 'Lss', 'Lsv', 'L1vv'), L):
            errs[name] = float(np.abs(val - refs[name]).max()) / sc
        if not np.all(np.isfinite(np.hstack([x.ravel() for x in L]))): errs['finite'] = 1.0
        tol = TOL
        if vm.has_vb(ent):
            # origin states: the package takes the bare bias correction from its k-mesh, the model from an exact
            # pseudo-inverse; the comparison is limited by the measured accuracy of the bare GF for this node
            tol = max(TOL_VB, 20. * ref['gf_residual'])
            if ref['gf_residual'] > 1e-4:
                unresolved += 1
                errs = {k: v for k, v in errs.items() if k in ('L0vv', 'finite')}   # L0vv does not involve the GF
        for name, e in errs.items():
            if e > tol:
                viols.append({'oracle': name, 'key': key + ';pSuniform={}'.format(int(ref['uniform_solute'])),
                              'detail': {'relerr': e, 'package': L[('L0vv', 'Lss', 'Lsv', 'L1vv').index(name)].tolist() if name != 'finite' else None,
                                         'model': refs[name].tolist() if name != 'finite' else None},
                              'case': subcase(base, devs)})
        outcomes.append('{:.6e}'.format(float(np.trace(L[1]))))
        if devs and np.abs(L[1] - base_L[base]).max() > 1e-9 * sc: nontriv += 1
    return {'states': len(case['nodes']), 'transitions': 4 * len(case['nodes']), 'execs': execs, 'outcomes': outcomes,
            'nontrivial': nontriv, 'violations': viols, 'unresolved_nodes_gf_residual_above_1e-4': unresolved,
            'sample': {'node': node_key(ent, case, *[case['nodes'][-1][0], [tuple(x) for x in case['nodes'][-1][1]]]),
                       'Lss_trace': outcomes[-1] if outcomes else None, 'model_states': len(model.states)}}
