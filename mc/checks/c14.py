"""
C14 — vacancy-mediated results depend only on their inputs, not on call history.

E2: explicit-state BFS over the real VacancyMediated object.  Operations (the alphabet):
  L:a L:b L:c L:x  evaluate Lij on input a, b (same vacancy data as a => same cache key, different solute data), c,
                x (= a with every exchange barrier lowered by 30: the large-omega2 algorithm on the same cache key)
  scribble      overwrite every array returned by the most recent Lij call with 7.0 (a caller editing its results)
  clear         clearcache()
  gf:same gf:6/4 calc.GFcalc = calc.GFcalculator(NGFmax) with the current / the other mesh parameter
  regen:1 regen:2 generate(N'); generatematrices(); generatetags()
  saveload      addhdf5 into an in-memory HDF5 file, loadhdf5 back, continue on the loaded object
  foreign       ANOTHER calculator (same network, lattice scaled by 1.25, Nthermo 1, loaded from a cache-less HDF5 file) evaluates
                a, b, c in the same process: state shared between instances (class attributes, module tables) would leak
States are kept as deep copies of (calculator, last result) so that aliasing between results and caches survives;
canon = (Nthermo, NGFmax, cached keys with the bytes of their values, bytes of the last result, alias pattern, reloaded).
Oracle: every Lij(x) equals the value a freshly constructed calculator with the current (Nthermo, NGFmax) returns for x.
"""
import copy, io, collections, hashlib
import numpy as np
import h5py
from onsager import OnsagerCalc
from mc import vm, catalog

PID = 'C14'
ENGINE = 'E2'
TECHNIQUE = 'explicit-state BFS over real VacancyMediated objects (deep-copied states, canonical state hashing); differential oracle against freshly constructed calculators'
RULE = ('states = distinct canonical states reached by operation sequences up to the depth bound from a fresh calculator; every operation of the alphabet '
        'is applied in every state; nontrivial = Lij transitions executed in a state whose history contains a scribble, regen, gf or saveload operation')
LEVEL_TEXT = 'Every operation sequence up to the depth bound (with state de-duplication) on each listed crystal; results compared with a fresh calculator bit-for-bit when the GF path is identical, to 1e-9 otherwise.'
LEVEL_NOTE = 'canon merges states with identical Nthermo, NGFmax, cache contents (bytes), last-result bytes and aliasing pattern: Lij reads nothing else that is mutable.'

THOROUGH_HASHSEEDS = ['0']      # one pass of the depth-4 search takes ~35 min; the state space does not depend on set iteration order
OPS = ['L:a', 'L:b', 'L:c', 'L:x', 'scribble', 'clear', 'gf:same', 'gf:other', 'regen:1', 'regen:2', 'saveload', 'foreign']
CONFIGS = {'FCC': ('FCC', 0), 'HONEY2': ('HONEY', 1), 'RECTM': ('RECTM', 0), 'HCP': ('HCP', 0), 'SQUARE': ('SQUARE', 0), 'ROMEGA': ('ROMEGA', 0)}


def BOUNDS(tier):
    return {'crystals': ['FCC', 'HONEY2 (honeycomb, 2 jump types)', 'RECTM (origin states)'] if tier == 'quick' else list(CONFIGS), 'depth': '3' if tier == 'quick' else '4 on FCC, HONEY2, RECTM; 3 on HCP, SQUARE, ROMEGA (one interpreter hash seed)', 'ops': OPS,
            'inputs': 'a = base G1, b = G1 with one solute-vacancy class shifted by +ln3 (same vacancy data), c = base G2, x = a with every exchange barrier lowered by 30 (large-omega2 algorithm, same vacancy data)', 'NGFmax': [4, 6]}


def cases(tier):
    names = ['FCC', 'HONEY2', 'RECTM'] if tier == 'quick' else list(CONFIGS)   # RECTM: origin states   # HONEY2: two jump types (the GF pole cutoff depends on the input)
    depth = 3 if tier == 'quick' else 4
    deep = ('FCC', 'HONEY2', 'RECTM')
    # the BFS of one crystal is split by its first operation to use the pool
    return [{'key': '{}/first={}'.format(n, op), 'config': n, 'first': op, 'depth': depth if (tier == 'quick' or n in deep) else 3, 'cost': 3 if op.startswith('regen') else 1} for n in names for op in OPS]


_FRESH = {}


def fresh(config, N, NGF):
    k = (config, N, NGF)
    if k not in _FRESH:
        name, icut = CONFIGS[config]
        ent = vm.calculator(name, icut, N, NGF)
        _FRESH[k] = ent
    return _FRESH[k]


def input_data(config, N, which):
    ent = fresh(config, N, 4)
    if which == 'a': return vm.base_data(ent, 'G1')
    if which == 'c': return vm.base_data(ent, 'G2')
    d = vm.base_data(ent, 'G1')
    if which == 'x':
        d = {k: np.array(v, dtype=float).copy() for k, v in d.items()}
        d['eneT2'] = d['eneT2'] - 30.
        return d
    coords = vm.coordinates(ent)
    ci = next(n for n, (kind, _) in enumerate(coords) if kind == 'SV')
    return vm.apply_devs(ent, d, [(ci, 1)])


_REF = {}


def reference(config, N, NGF, which):
    k = (config, N, NGF, which)
    if k not in _REF:
        name, icut = CONFIGS[config]
        crys, chem, sl, jn = catalog.network(name, icut)
        calc = OnsagerCalc.VacancyMediated(crys, chem, sl, jn, N, NGF)      # a fresh object, used once
        d = input_data(config, N, which)
        _REF[k] = tuple(np.array(x, copy=True) for x in calc.Lij(*calc.preene2betafree(1.0, **d)))
    return _REF[k]


_FOREIGN = {}


def foreign_eval(config):
    if config not in _FOREIGN:
        from onsager import crystal
        name, icut = CONFIGS[config]
        crys, chem, sl, jn = catalog.network(name, icut)
        crysF = crystal.Crystal(crys.lattice * 1.25, crys.basis, crys.chemistry)
        built = OnsagerCalc.VacancyMediated(crysF, chem, crysF.sitelist(chem), crysF.jumpnetwork(chem, catalog.meta(name)['cut'][icut] * 1.25), 1, 4)
        f = h5py.File('c14f.h5', 'w', driver='core', backing_store=False)
        try:
            built.addhdf5(f)
            _FOREIGN[config] = OnsagerCalc.VacancyMediated.loadhdf5(f)
        finally:
            f.close()
    c = _FOREIGN[config]
    c.clearcache()
    for which in 'abc':
        c.Lij(*c.preene2betafree(1.0, **input_data(config, 1, which)))


def canon(state):
    calc, last, reloaded = state[:3]
    h = hashlib.sha1()
    h.update(repr((int(calc.Nthermo), int(calc.NGFmax), bool(reloaded), bool(state[3]) if len(state) > 3 else False)).encode())
    ids = {}
    for name in ('GFvalues', 'Lvvvalues', 'etavvalues'):
        dct = getattr(calc, name)
        for key in sorted(dct, key=lambda k: k.betaene.tobytes() + k.betaeneT.tobytes()):
            v = np.asarray(dct[key])
            h.update(name.encode() + key.betaene.tobytes() + key.betaeneT.tobytes() + v.tobytes())
            ids[id(dct[key])] = name
    ids[id(calc.GFcalc.D)] = 'GFcalc.D'
    if last is None: h.update(b'nolast')
    else:
        for a in last:
            h.update(np.asarray(a).tobytes())
            h.update((ids.get(id(a), 'own')).encode())
    # the GF calculator's current rates matter only through cache misses, which recompute them: not part of the state
    return h.hexdigest()


def apply(config, state, op):
    """returns (newstate, violations list of (oracle, detail), nontrivial flag)"""
    calc, last, reloaded = copy.deepcopy(state[:3])
    foreign = bool(state[3]) if len(state) > 3 else False
    fails = []
    if op == 'foreign':
        try:
            foreign_eval(config)
        except Exception as e:
            return (calc, last, reloaded, True), [('exception', '{}: {} in the foreign calculator'.format(type(e).__name__, e))], True
        return (calc, last, reloaded, True), [], True
    if op.startswith('L:'):
        which = op[2]
        d = input_data(config, calc.Nthermo, which)
        try:
            L = calc.Lij(*calc.preene2betafree(1.0, **d))
        except Exception as e:
            import traceback
            tb = traceback.extract_tb(e.__traceback__)[-1]
            return (calc, None, reloaded, foreign), [('exception', '{}: {} @ {}:{}'.format(type(e).__name__, e, tb.name, tb.lineno))], True
        ref = reference(config, int(calc.Nthermo), int(calc.NGFmax), which)
        sc = vm.tscale(*ref)
        for name, a, b in zip(('L0vv', 'Lss', 'Lsv', 'L1vv'), L, ref):
            a = np.asarray(a)
            if a.shape != b.shape or not np.all(np.isfinite(a)):
                fails.append((name, {'got': a.tolist(), 'fresh': b.tolist()})); continue
            e = float(np.abs(a - b).max()) / sc
            if e > 1e-9: fails.append((name, {'relerr': e, 'got': a.tolist(), 'fresh': b.tolist()}))
        last = L
    elif op == 'scribble':
        if last is None: return None, [], False
        for a in last: np.asarray(a)[...] = 7.0
    elif op == 'clear':
        calc.clearcache()
    elif op == 'gf:same':
        calc.GFcalc = calc.GFcalculator(calc.NGFmax)
    elif op == 'gf:other':
        calc.GFcalc = calc.GFcalculator(6 if calc.NGFmax == 4 else 4)
    elif op.startswith('regen:'):
        N = int(op[6:])
        try:
            calc.generate(N)
            calc.generatematrices()
            calc.tags, calc.tagdict, calc.tagdicttype = calc.generatetags()
        except Exception as e:
            return (calc, None, reloaded, foreign), [('exception', '{}: {} in regenerate'.format(type(e).__name__, e))], True
    elif op == 'saveload':
        f = h5py.File('c14.h5', 'w', driver='core', backing_store=False)
        try:
            calc.addhdf5(f)
            calc = OnsagerCalc.VacancyMediated.loadhdf5(f)
        finally:
            f.close()
        reloaded = True
        last = None
    return (calc, last, reloaded, foreign), fails, True


def evaluate(case):
    config, depth = case['config'], case['depth']
    if 'history' in case:
        return {'violations': run_history(config, case['history'])}
    name, icut = CONFIGS[config]
    crys, chem, sl, jn = catalog.network(name, icut)
    start = (OnsagerCalc.VacancyMediated(crys, chem, sl, jn, 1, 4), None, False, False)
    st, fails, _ = apply(config, start, case['first'])
    viols, vkeys = [], set()
    transitions = 1
    nontriv = 0
    outcomes = set()

    def record(hist, op, fails):
        for orc, det in fails:
            # signature: what kind of history precedes the failing evaluation (shortest found first by BFS)
            marks = sorted(set(h.split(':')[0] for h in hist if not h.startswith('L:')))
            k = (orc, op, tuple(marks))
            if k in vkeys: continue
            vkeys.add(k)
            viols.append({'oracle': orc, 'key': '{};op={};after={}'.format(config, op, '+'.join(marks) or 'nothing'),
                          'detail': {'history': list(hist) + [op], 'what': det},
                          'case': {'key': case['key'], 'config': config, 'depth': depth, 'history': list(hist) + [op]}})
    if st is None:
        return {'states': 1, 'transitions': 1, 'violations': [], 'outcomes': []}
    record((), case['first'], fails)
    seen = {canon(st): (case['first'],)}
    frontier = collections.deque([(st, (case['first'],))]) if not fails else collections.deque()
    while frontier:
        state, hist = frontier.popleft()
        if len(hist) >= depth: continue
        for op in OPS:
            new, fails, _ = apply(config, state, op)
            if new is None: continue
            transitions += 1
            if op.startswith('L:'):
                if new[1] is not None: outcomes.add(op + ':{:.6e}'.format(float(np.trace(np.asarray(new[1][1])))))
                if any(not h.startswith('L:') for h in hist): nontriv += 1
            if fails:
                record(hist, op, fails); continue
            k = canon(new)
            if k not in seen:
                seen[k] = hist + (op,)
                frontier.append((new, hist + (op,)))
    return {'states': len(seen), 'transitions': transitions, 'execs': transitions, 'outcomes': sorted(outcomes), 'nontrivial': nontriv,
            'violations': viols, 'sample': {'config': config, 'first': case['first'], 'depth': depth,
                                            'longest history': list(max(seen.values(), key=len))}}


def run_history(config, history):
    name, icut = CONFIGS[config]
    crys, chem, sl, jn = catalog.network(name, icut)
    state = (OnsagerCalc.VacancyMediated(crys, chem, sl, jn, 1, 4), None, False, False)
    out = []
    for n, op in enumerate(history):
        new, fails, _ = apply(config, state, op)
        if new is None: continue
        for orc, det in fails:
            marks = sorted(set(h.split(':')[0] for h in history[:n] if not h.startswith('L:')))
            out.append({'oracle': orc, 'key': '{};op={};after={}'.format(config, op, '+'.join(marks) or 'nothing'), 'detail': det})
        if fails: break
        state = new
    return out
