"""
C02 -- Interstitial.diffusivity and GFCrystalcalc.Diffusivity equal the exact long-time diffusivity.

Input-lattice explorer (E1): for every network (crystal x cutoff) and every base point T/G1/G2/X, every data
point within k one-letter deviations of the base is evaluated on the real code and compared with R-chain1
(mc/refmodels/chain1.py: site-basis chain, full pseudo-inverse, no symmetry reduction).
"""
import numpy as np
from onsager import OnsagerCalc, GFcalc
from mc import catalog
from mc.refmodels import chain1

PID = 'C02'
THOROUGH_HASHSEEDS = ['0', '1']     # two interpreter hash seeds in the thorough tier (one pass takes 15-30 min)
ENGINE = 'E1'
TECHNIQUE = ('exhaustive enumeration of all data points within k letter-deviations of 4 base points on every '
             'network of a crystal catalogue; node oracle = independent site-basis chain model (R-chain1)')
RULE = ('node = (network, base, set of <=k (coordinate, letter) deviations); coordinates = site energy, site '
        'prefactor, transition energy, transition prefactor of every symmetry class (classes identified by '
        'geometry); nontrivial = node differs from its base AND its model D differs from the base D by >1e-9')
LEVEL_TEXT = ('every node of the stated finite data lattice is decided against a model that is itself bound to '
              'the definition (dispersion of the diffusive eigenvalue) at start-up')
LEVEL_NOTE = 'data outside the alphabets and crystals outside the list are not covered'
ASSUMPTIONS = [
    'R-chain1 is the definition of long-time diffusivity (checked at start-up: FCC analytic value and '
    '-1/2 d2 lambda/dk2 of the k-dependent rate matrix on 3 crystals, 1e-5)',
    'GFCrystalcalc is not driven on networks whose exact D is singular (RUMPLED2, HEXM cutoff 0: graph-connected '
    'but not percolating in every direction; the lattice Green function does not exist and SetRates raises)',
    'Interstitial is only driven with connected networks (PYROPE: GF only)',
    'GF nodes are cut deterministically to <= kGF deviations (see bounds)',
]

# crystals: interstitial sublattices + single-species networks (+ two local polar crystals, see chain1.EXTRA)
NETS = ['FCC_O', 'FCC_T', 'FCC_OT', 'BCC_O', 'BCC_T', 'HCP_OT', 'HONEY', 'ROMEGA', 'RUMPLED2', 'WURTZ2', 'P1', 'P1_3', 'PMMM_G', 'P2MM_G', 'OBL3', 'TET4I',
        'RECTM', 'HEXM', 'KAGOME', 'POLAR4', 'PM2D', 'PYROPE']
GF_ONLY = ('PYROPE',)
GF_SKIP = (('RUMPLED2', 0), ('HEXM', 0))    # exact D singular (verified against the model in evaluate)
TOL = 1e-9      # algebraic: different but well-conditioned linear algebra (observed 1e-16 .. 2e-12)
TOL0 = 1e-13    # round-off allowance relative to the uncorrelated part D0 (D = D0 + correction may cancel)
CHUNK_NODES = {'int': 4000, 'gf': 60}
MAXV = 1        # violations reported per case and oracle (fewest deviations first); the count is in detail


def kbounds(tier):
    return {'k': 2 if tier == 'quick' else 3, 'kGF': 1 if tier == 'quick' else 2}


def networks():
    out = []
    for n in NETS:
        for ic in range(len(chain1.meta(catalog, n)['cut'])):
            out.append((n, ic))
    return out


def _shape(name, icut):
    crys, chem, sl, jn = chain1.network(catalog, name, icut)
    return len(sl), len(jn)


_SHAPES = {}


def shape(name, icut):
    if (name, icut) not in _SHAPES: _SHAPES[(name, icut)] = _shape(name, icut)
    return _SHAPES[(name, icut)]


def BOUNDS(tier):
    kb = kbounds(tier)
    return {'networks': ['{}:cut{}'.format(n, ic) for n, ic in networks()],
            'bases': list(chain1.BASES), 'energy_deviations(added)': [l for l, v in chain1.ENE_DEV],
            'prefactor_deviations(multiplied)': [l for l, v in chain1.PRE_DEV],
            'k_interstitial': kb['k'], 'k_GF': kb['kGF'] if kb['kGF'] == 1 else '2 around G1, G2; 1 around T, X',
            'tolerance': '|D-Dmodel| <= 1e-9*max|D| + 1e-13*max|D0| + 4*eps*cond(omega)*max|correction|',
            'gf_skipped_singular_D': ['{}:cut{}'.format(n, ic) for n, ic in GF_SKIP],
            'gf_only(disconnected)': list(GF_ONLY)}


def cases(tier):
    kb = kbounds(tier)
    out = [{'key': 'selfcheck', 'kind': 'selfcheck', 'cost': 5.}]
    for name, ic in networks():
        ns, nj = shape(name, ic)
        for kind in ('int', 'gf'):
            if kind == 'int' and name in GF_ONLY: continue
            if kind == 'gf' and (name, ic) in GF_SKIP: continue
            k = kb['k'] if kind == 'int' else kb['kGF']
            nn = len(chain1.nodes(ns, nj, k))
            if kind == 'int':
                nch = max(1, -(-nn // CHUNK_NODES[kind]))
                blist = [[b] for b in chain1.BASES]
            else:       # the GF calculator is expensive to construct: all four bases in one case
                nch = max(1, -(-4 * nn // CHUNK_NODES[kind]))
                blist = [list(chain1.BASES)]
                if k > 1:   # thorough: kGF = 2 only around G1 and G2, kGF = 1 around T and X (SetRates costs 0.1-0.3 s)
                    nn1 = len(chain1.nodes(ns, nj, 1))
                    out.append({'key': '{}:cut{}:T+X:gf:k1:0/1'.format(name, ic), 'net': name, 'icut': ic, 'bases': ['T', 'X'],
                                'kind': kind, 'k': 1, 'chunk': [0, 1], 'cost': 2 * nn1 * 0.25})
                    blist = [['G1', 'G2']]
                    nch = max(1, -(-2 * nn // CHUNK_NODES[kind]))
            for bases in blist:
                for c in range(nch):
                    out.append({'key': '{}:cut{}:{}:{}:k{}:{}/{}'.format(name, ic, '+'.join(bases), kind, k, c, nch),
                                'net': name, 'icut': ic, 'bases': bases, 'kind': kind, 'k': k, 'chunk': [c, nch],
                                'cost': (len(bases) * nn / nch) * (0.002 if kind == 'int' else 0.25)})
    return out


EPS = 2.2e-16


def _tol(Dm, D0, Dc, cond):
    """algebraic tolerance, widened by the measured conditioning: the correction b.omega^+.b is the solution of a
    linear system of condition number `cond` (ratio of the extreme relaxation rates, up to 1e10 at the X base with a +5
    letter) and both the package and the model carry a forward error of order eps*cond*|correction|; factor 4 = 2 sides
    x 2.  For cond <= 1e3 (bases T, G1, G2) this term is < 1e-12*|correction|."""
    return TOL * abs(Dm).max() + TOL0 * abs(D0).max() + 4 * EPS * cond * abs(Dc).max()


def evaluate(case):
    if case['kind'] == 'selfcheck':
        fails = chain1.selfcheck(catalog)
        return {'states': 4, 'execs': 4, 'transitions': 4, 'outcomes': ['selfcheck-{}'.format(len(fails))],
                'violations': [{'oracle': 'model-selfcheck', 'key': f.split(' ')[0], 'detail': f} for f in fails]}
    name, ic, kind = case['net'], case['icut'], case['kind']
    crys, chem, sl, jn = chain1.network(catalog, name, ic)
    ns, nj = len(sl), len(jn)
    srank, jrank, skeys, jkeys = chain1.classranks(crys, chem, sl, jn)
    if 'devs' in case:      # replay of one node
        nodelist = [(case['base'], tuple(((kd, int(r)), l) for (kd, r), l in case['devs']))]
    else:
        allnodes = [(b, d) for b in case['bases'] for d in chain1.nodes(ns, nj, case['k'])]
        c, nch = case['chunk']
        nodelist = allnodes[c::nch]
    if kind == 'int':
        calc = OnsagerCalc.Interstitial(crys, chem, sl, jn)
        branch = 'NV{}:{}'.format(calc.NV, 'solve' if calc.omega_invertible else 'pinv')
    else:
        calc = GFcalc.GFCrystalcalc(crys, chem, sl, jn)
        branch = 'gf'
    Dbase = {}
    for b in set(b for b, d in nodelist):
        Dbase[b] = chain1.from_network(crys, chem, sl, jn, *chain1.toclassorder(chain1.basedata(b, ns, nj), srank, jrank)).D()
    viols, outcomes, nontriv, nbias = [], set(), 0, 0
    nviol = {}
    for base, devs in nodelist:
        data = chain1.toclassorder(chain1.nodedata(base, ns, nj, devs), srank, jrank)
        ch = chain1.from_network(crys, chem, sl, jn, *data)
        D0m, Dcm = ch.Dparts()
        Dm = D0m + Dcm
        nk = '{}:cut{}:{}:{}'.format(name, ic, base, chain1.nodekey(devs))
        sub = {'key': nk + ':' + kind, 'net': name, 'icut': ic, 'base': base, 'kind': kind,
               'devs': [[[kd, r], l] for (kd, r), l in devs]}
        try:
            if kind == 'int':
                D = calc.diffusivity(*data)
            else:
                calc.SetRates(*data)
                D = calc.Diffusivity()
                if D is not calc.D and not np.array_equal(D, calc.D):
                    raise ArithmeticError('Diffusivity() differs from attribute D')
        except Exception as e:
            nviol[base] = nviol.get(base, 0) + 1
            if nviol[base] <= MAXV:
                viols.append({'oracle': 'exception-' + kind, 'key': nk, 'detail': '{}: {}'.format(type(e).__name__, e), 'case': sub})
            continue
        D = np.array(D)
        err = abs(D - Dm).max()
        if not (D.shape == Dm.shape and np.all(np.isfinite(D)) and err <= _tol(Dm, D0m, Dcm, ch.cond())):
            nviol[base] = nviol.get(base, 0) + 1
            if nviol[base] <= MAXV:
                viols.append({'oracle': 'D-' + kind, 'key': nk,
                              'detail': {'D': D.tolist(), 'model': Dm.tolist(), 'relerr': float(err / max(abs(Dm).max(), 1e-300)),
                                         'branch': branch, 'model_correction': Dcm.tolist(), 'cond': ch.cond()},
                              'case': sub})
        if devs and abs(Dm - Dbase[base]).max() > 1e-9 * abs(Dbase[base]).max(): nontriv += 1
        if abs(Dcm).max() > 1e-9 * abs(D0m).max(): nbias += 1
        if len(outcomes) < 300:
            outcomes.add('{}:{}:{}'.format(branch, name, np.array2string(np.round(np.diag(D) / max(abs(D0m).max(), 1e-300), 5))))
    for v in viols:
        b = v['key'].split(':')[2]
        if nviol.get(b, 0) > MAXV: v['detail'] = {'first': v['detail'], 'violating_nodes_of_this_base_in_case': nviol[b]}
    return {'states': len(nodelist), 'transitions': len(nodelist), 'execs': len(nodelist), 'outcomes': sorted(outcomes),
            'nontrivial': nontriv, 'violations': viols,
            'sample': {'case': case['key'], 'branch': branch, 'nodes': len(nodelist), 'nodes_with_bias_correction': nbias,
                       'site_classes': [str(k) for k in sorted(skeys)], 'jump_classes': [str(k) for k in sorted(jkeys)]}}
