"""
C13 — saved and reloaded objects reproduce results exactly.

E3 (lock-step product of an object and its reloaded copy):
  vm     : VacancyMediated on each crystal; every history over {a, b, S} of the depth bound with at least one S
           (a, b = evaluate Lij on input a / b (b shares the vacancy data with a), S = addhdf5 + loadhdf5 into an
           in-memory file; after S both the original and the copy continue; F = a foreign calculator -- the same
           network on a lattice scaled by 1.25 -- is saved before use, reloaded and evaluated on a, b, c in the same process; M = the caller
           overwrites in place the arrays it passed to its last Lij call with the values of input c, without calling anything); after the history every input of the
           pool {a, b, c} is evaluated on both: results must be equal (==, same arithmetic), tags equal, caches equal
  gf     : GFCrystalcalc save/load (before any SetRates, as documented), then SetRates + every endpoint of a small set
  stars  : StarSet / VectorStarSet save/load: states, stars, index tables, vector stars, outer products
  taylor : Taylor3D / Taylor2D expansions from the structural alphabet
  yaml   : every catalogue crystal, every group operation, every pair state of a 2-shell star set, every cluster
           site and cluster of a 3rd-order expansion, thermo-kinetic keys: dump -> load -> equal, field by field
"""
import itertools
import numpy as np
import h5py, yaml
from onsager import crystal, OnsagerCalc, GFcalc, crystalStars as stars, cluster, PowerExpansion
from mc import vm, catalog, inter

PID = 'C13'
ENGINE = 'E3'
TECHNIQUE = 'lock-step exploration of (object, reloaded copy) over all save positions in bounded histories; bitwise equality of all subsequent results; exhaustive YAML round trips over instance pools'
RULE = ('vm: every history of length <= depth over {a,b,S,F,M} containing S; state = (original, copy); nontrivial = histories in which the save '
        'happens after the cache was populated; yaml/hdf5 pools: every listed instance')
LEVEL_TEXT = 'All save positions in all histories up to the depth bound, all instances of the pools; equality is exact (same arithmetic on both sides).'
LEVEL_NOTE = 'HDF5 files are in memory (driver=core, backing_store=False); YAML through yaml.dump / yaml.load(Loader=yaml.Loader) as the package tests do.'

VMCRYS = [('FCC', 0), ('HCP', 0), ('SQUARE', 0), ('HONEY', 0), ('OMEGA', 0), ('ROMEGA', 0), ('B2', 0)]
YCRYS = ['SC', 'FCC', 'BCC', 'HCP', 'OMEGA', 'ROMEGA', 'B2AB', 'NBO', 'FCC_OT', 'SQUARE', 'HONEY', 'KAGOME', 'RECTM', 'HEXM', 'TRIC', 'P1', 'WURTZ2']


def BOUNDS(tier):
    return {'vm crystals': VMCRYS[:4] if tier == 'quick' else VMCRYS, 'history depth': 3 if tier == 'quick' else 4, 'yaml crystals': YCRYS,
            'gf crystals': ['HCP', 'OMEGA', 'HONEY', 'PYROPE' if tier != 'quick' else 'SQUARE']}


def cases(tier):
    out = []
    for (n, i) in (VMCRYS[:4] if tier == 'quick' else VMCRYS):
        depth = 3 if tier == 'quick' else 4
        hs = [h for L in range(1, depth + 1) for h in itertools.product('abSFM', repeat=L) if 'S' in h]
        for c in range(0, len(hs), 12):
            out.append({'key': 'vm/{}/{}'.format(n, c // 12), 'type': 'vm', 'crystal': n, 'icut': i, 'histories': [''.join(h) for h in hs[c:c + 12]], 'cost': 2})
    for n in ['HCP', 'OMEGA', 'HONEY'] + (['PYROPE'] if tier != 'quick' else ['SQUARE']):
        out.append({'key': 'gf/' + n, 'type': 'gf', 'crystal': n, 'cost': 1})
    for n in ['FCC', 'HCP', 'HONEY', 'ROMEGA', 'B2', 'SQUARE']:
        out.append({'key': 'stars/' + n, 'type': 'stars', 'crystal': n, 'cost': 1})
    out.append({'key': 'taylor', 'type': 'taylor', 'cost': 1})
    for n in YCRYS:
        out.append({'key': 'yaml/' + n, 'type': 'yaml', 'crystal': n, 'cost': 0.5})
    return out


def memfile(name='c13'):
    return h5py.File(name + '.h5', 'w', driver='core', backing_store=False)


def evaluate(case):
    return {'vm': eval_vm, 'gf': eval_gf, 'stars': eval_stars, 'taylor': eval_taylor, 'yaml': eval_yaml}[case['type']](case)


# ----------------------------------------------------------------------------------------------- vm
def eval_vm(case):
    name, icut = case['crystal'], case['icut']
    crys, chem, sl, jn = catalog.network(name, icut)
    ent = vm.calculator(name, icut, 1)
    data = {'a': vm.base_data(ent, 'G1'), 'c': vm.base_data(ent, 'G2')}
    ci = next(n for n, (kind, _) in enumerate(vm.coordinates(ent)) if kind == 'SV')
    data['b'] = vm.apply_devs(ent, data['a'], [(ci, 1)])
    viols, outcomes, ntr, nontriv = [], [], 0, 0

    def V(orc, hist, det):
        viols.append({'oracle': orc, 'key': 'vm/{};history={}'.format(name, hist), 'detail': det,
                      'case': dict(case, histories=[hist])})
    # the foreign calculator of letter F: same network on the lattice scaled by 1.25 (same input keys, different results)
    crysF = crystal.Crystal(crys.lattice * 1.25, crys.basis, crys.chemistry)
    slF, jnF = crysF.sitelist(chem), crysF.jumpnetwork(chem, catalog.meta(name)['cut'][icut] * 1.25)
    for hist in case['histories']:
        calcs = [OnsagerCalc.VacancyMediated(crys, chem, sl, jn, 1)]
        lastargs = {}
        populated_before_save = False
        try:
            for n, op in enumerate(hist):
                if op == 'F':
                    f = memfile('c13f')
                    try:
                        OnsagerCalc.VacancyMediated(crysF, chem, slF, jnF, 1).addhdf5(f)
                        foreign = OnsagerCalc.VacancyMediated.loadhdf5(f)
                    finally:
                        f.close()
                    for o in 'abc': foreign.Lij(*foreign.preene2betafree(1.0, **data[o]))
                    ntr += 3
                elif op == 'S':
                    if any(len(c.GFvalues) > 0 for c in calcs): populated_before_save = True
                    new = []
                    for c in calcs:
                        f = memfile()
                        try:
                            c.addhdf5(f)
                            new.append(OnsagerCalc.VacancyMediated.loadhdf5(f))
                        finally:
                            f.close()
                    calcs = calcs + new
                elif op == 'M':
                    # the caller reuses, in place, the arrays of its last Lij call to hold input c (no call is made)
                    for c in calcs:
                        la = lastargs.get(id(c))
                        if la is None: continue
                        for arr, newarr in zip(la, c.preene2betafree(1.0, **data['c'])): arr[...] = newarr
                else:
                    res = []
                    for c in calcs:
                        args = c.preene2betafree(1.0, **data[op])
                        lastargs[id(c)] = args
                        res.append(tuple(np.array(x) for x in c.Lij(*args)))
                    ntr += len(calcs)
                    for k in range(1, len(res)):
                        for nm, x, y in zip(('L0vv', 'Lss', 'Lsv', 'L1vv'), res[0], res[k]):
                            if not np.array_equal(x, y):
                                V(nm, hist, {'step': n, 'copy': k, 'maxdiff': float(np.abs(x - y).max()), 'original': x.tolist(), 'copy value': y.tolist()})
            # afterwards: every input of the pool on every copy
            for op in 'abc':
                res = [tuple(np.array(x) for x in c.Lij(*c.preene2betafree(1.0, **data[op]))) for c in calcs]
                ntr += len(calcs)
                for k in range(1, len(res)):
                    for nm, x, y in zip(('L0vv', 'Lss', 'Lsv', 'L1vv'), res[0], res[k]):
                        if not np.array_equal(x, y):
                            V(nm, hist, {'after': op, 'copy': k, 'maxdiff': float(np.abs(x - y).max())})
                outcomes.append('{:.8e}'.format(float(np.trace(res[0][1]))))
            for k in range(1, len(calcs)):
                if calcs[k].tags != calcs[0].tags: V('tags', hist, 'tags differ on copy {}'.format(k))
                if calcs[k].tagdict != calcs[0].tagdict or calcs[k].tagdicttype != calcs[0].tagdicttype: V('tagdict', hist, 'copy {}'.format(k))
                for nm in ('GFvalues', 'Lvvvalues', 'etavvalues'):
                    A, B = getattr(calcs[0], nm), getattr(calcs[k], nm)
                    if set(A.keys()) != set(B.keys()) or any(not np.array_equal(A[key], B[key]) for key in A):
                        V('cache-' + nm, hist, 'cache differs on copy {}'.format(k))
        except Exception as e:
            V('exception', hist, repr(e))
        if populated_before_save: nontriv += 1
    return {'states': len(case['histories']), 'transitions': ntr, 'execs': ntr, 'outcomes': outcomes, 'nontrivial': nontriv, 'violations': viols,
            'sample': {'crystal': name, 'history': case['histories'][-1]}}


# ----------------------------------------------------------------------------------------------- gf
def eval_gf(case):
    name = case['crystal']
    crys, chem, sl, jn = catalog.network(name, 0)
    ent = {'sitelist': sl, 'jumpnetwork': jn, 'crys': crys, 'chem': chem}
    viols, ntr, outcomes = [], 0, []
    gf = GFcalc.GFCrystalcalc(crys, chem, sl, jn, 4)
    for stage in ('before-SetRates', 'after-SetRates'):
        if stage == 'after-SetRates':
            d0 = inter.base_data(ent, 'G2'); gf.SetRates(d0['pre'], d0['betaene'], d0['preT'], d0['betaeneT'])
        f = memfile()
        try:
            gf.addhdf5(f.create_group('GF'))
            cp = GFcalc.GFCrystalcalc.loadhdf5(crys, f['GF'])
        except Exception as e:
            viols.append({'oracle': 'exception', 'key': 'gf/{};{}'.format(name, stage), 'detail': repr(e)}); f.close(); continue
        f.close()
        for base in ('T', 'G1'):
            d = inter.base_data(ent, base)
            for g in (gf, cp): g.SetRates(d['pre'], d['betaene'], d['preT'], d['betaeneT'])
            N = gf.N
            for i in range(N):
                for j in range(N):
                    for R in itertools.product(range(-1, 2), repeat=crys.dim):
                        x = crys.lattice @ (np.array(R) + crys.basis[chem][j] - crys.basis[chem][i])
                        ntr += 1
                        a, b = gf(i, j, x), cp(i, j, x)
                        if a != b:
                            viols.append({'oracle': 'gf-value', 'key': 'gf/{};{};base={}'.format(name, stage, base), 'detail': {'orig': a, 'copy': b}}); break
            if not np.array_equal(gf.Diffusivity(), cp.Diffusivity()):
                viols.append({'oracle': 'gf-D', 'key': 'gf/{};{};base={}'.format(name, stage, base), 'detail': None})
            outcomes.append('{:.8e}'.format(float(gf(0, 0, np.zeros(crys.dim)))))
    return {'states': 2, 'transitions': ntr, 'execs': ntr, 'outcomes': outcomes, 'nontrivial': 1, 'violations': viols, 'sample': {'crystal': name}}


# ----------------------------------------------------------------------------------------------- stars
def eval_stars(case):
    name = case['crystal']
    crys, chem, sl, jn = catalog.network(name, 0)
    viols, ntr, outcomes = [], 0, []
    for N in (1, 2):
        for origin in (False, True):
            key = 'stars/{};N={};origin={}'.format(name, N, int(origin))
            S = stars.StarSet(jn, crys, chem, N, originstates=origin)
            Vs = stars.VectorStarSet(S)
            f = memfile()
            try:
                S.addhdf5(f.create_group('S')); Vs.addhdf5(f.create_group('V'))
                S2 = stars.StarSet.loadhdf5(crys, f['S'])
                V2 = stars.VectorStarSet.loadhdf5(S2, f['V'])
            except Exception as e:
                viols.append({'oracle': 'exception', 'key': key, 'detail': repr(e)}); f.close(); continue
            f.close()
            ntr += S.Nstates
            bad = []
            if (S.Nstates, S.Nshells, S.Nstars) != (S2.Nstates, S2.Nshells, S2.Nstars): bad.append('counts')
            if any(a != b or not np.array_equal(a.dx, b.dx) for a, b in zip(S.states, S2.states)): bad.append('states')
            if [list(s) for s in S.stars] != [list(s) for s in S2.stars]: bad.append('stars')
            if not np.array_equal(S.index, S2.index): bad.append('index')
            if any(S.stateindex(s) != S2.stateindex(s) or S.starindex(s) != S2.starindex(s) for s in S.states): bad.append('lookups')
            if Vs.Nvstars != V2.Nvstars: bad.append('Nvstars')
            elif any(list(p) != list(q) for p, q in zip(Vs.vecpos, V2.vecpos)) or \
                    any(not np.array_equal(np.array(v), np.array(w)) for v, w in zip(Vs.vecvec, V2.vecvec)): bad.append('vectors')
            if not np.array_equal(Vs.outer, V2.outer): bad.append('outer')
            # derived results from the copy: jump networks and expansions
            try:
                j1, t1, p1 = S.jumpnetwork_omega1(); j2, t2, p2 = S2.jumpnetwork_omega1()
                if t1 != t2 or p1 != p2 or [[ij for ij, dx in l] for l in j1] != [[ij for ij, dx in l] for l in j2]: bad.append('omega1-from-copy')
                if len(j1) > 0:
                    e1 = Vs.rateexpansions(j1, t1); e2 = V2.rateexpansions(j2, t2)
                    if any(not np.array_equal(a, b) for a, b in zip(e1, e2)): bad.append('rateexpansions-from-copy')
                g1, gs1 = Vs.GFexpansion(); g2, gs2 = V2.GFexpansion()
                if not np.array_equal(g1, g2): bad.append('GFexpansion-from-copy')
            except Exception as e:
                bad.append('derived raises ' + repr(e)[:80])
            for b in bad: viols.append({'oracle': 'hdf5-' + b.split(' ')[0], 'key': key, 'detail': b})
            outcomes.append('{}:{}:{}'.format(S.Nstates, S.Nstars, Vs.Nvstars))
    return {'states': 4, 'transitions': ntr, 'execs': ntr, 'outcomes': outcomes, 'nontrivial': 4, 'violations': viols, 'sample': {'crystal': name}}


# ----------------------------------------------------------------------------------------------- taylor
def eval_taylor(case):
    from mc.vm import hval
    viols, n = [], 0
    for cls, dim, tag in ((PowerExpansion.Taylor3D, 3, '3D'), (PowerExpansion.Taylor2D, 2, '2D')):
        cls()
        for nl in ([(0, 0)], [(2, 2)], [(-2, 0), (0, 2), (1, 3)], [(0, 4), (2, 4), (4, 4)], [(1, 1), (1, 1)]):
            for shape in ((), (1, 1), (2, 3)):
                for cplx in (False, True):
                    coeffs = []
                    for (nn, l) in nl:
                        npow = cls.powlrange[l]
                        arr = np.array([hval((tag, nn, l, k, shape)) for k in range(npow * int(np.prod(shape, dtype=int) if shape else 1))]).reshape((npow,) + shape)
                        if cplx: arr = arr + 1j * arr[::-1]
                        coeffs.append((nn, l, arr))
                    t = cls(coeffs)
                    f = memfile()
                    try:
                        t.addhdf5(f.create_group('T')); t2 = cls.loadhdf5(f['T'])
                    except Exception as e:
                        viols.append({'oracle': 'exception', 'key': 'taylor/{};nl={};shape={};complex={}'.format(tag, nl, shape, cplx), 'detail': repr(e)}); f.close(); continue
                    f.close()
                    n += 1
                    # entries with a repeated (n,l) cannot be told apart in a file keyed by (n,l): compare the evaluated expansions
                    u = np.array([0.3, -0.5, 0.8][:dim])
                    fn = {k: 1.0 for k in set((a, b) for a, b, c in t.coefflist)}
                    same = (len(t.coefflist) == len(t2.coefflist) and all(a[0] == b[0] and a[1] == b[1] and np.array_equal(a[2], b[2]) and a[2].dtype == b[2].dtype
                                                                          for a, b in zip(t.coefflist, t2.coefflist)))
                    if not same and not np.array_equal(np.asarray(t(u, fn)), np.asarray(t2(u, fn))):
                        viols.append({'oracle': 'taylor-roundtrip', 'key': 'taylor/{};nl={};shape={};complex={}'.format(tag, nl, shape, cplx),
                                      'detail': {'orig': [(a, b) for a, b, c in t.coefflist], 'copy': [(a, b) for a, b, c in t2.coefflist]}})
    return {'states': n, 'transitions': n, 'execs': n, 'outcomes': [str(n)], 'nontrivial': n, 'violations': viols, 'sample': {'expansions': n}}


# ----------------------------------------------------------------------------------------------- yaml
def rt(obj):
    return yaml.load(yaml.dump(obj), Loader=yaml.Loader)


def eval_yaml(case):
    name = case['crystal']
    crys = catalog.get(name)
    m = catalog.meta(name)
    viols, n = [], 0

    def V(orc, what, det=None):
        viols.append({'oracle': orc, 'key': 'yaml/{};{}'.format(name, what), 'detail': det})
    try:
        c2 = rt(crys)
        n += 1
        ok = (np.array_equal(crys.lattice, c2.lattice) and len(crys.basis) == len(c2.basis) and
              all(len(a) == len(b) and all(np.array_equal(u, v) for u, v in zip(a, b)) for a, b in zip(crys.basis, c2.basis)) and
              crys.chemistry == c2.chemistry and len(crys.G) == len(c2.G) and set(crys.G) == set(c2.G) and crys.Wyckoff == c2.Wyckoff
              and repr(crys) == repr(c2))
        if not ok: V('crystal', 'crystal')
        c3 = crystal.Crystal.fromdict(yaml.load(crys.simpleYAML(), Loader=yaml.Loader))
        n += 1
        if not (np.allclose(crys.lattice, c3.lattice, atol=1e-14) and len(c3.G) == len(crys.G)): V('crystal-simpleYAML', 'crystal')
    except Exception as e:
        V('exception', 'crystal', repr(e))
    for k, g in enumerate(sorted(crys.G, key=lambda g: (g.rot.tobytes(), tuple(np.round(g.trans, 6))))):
        try:
            g2 = rt(g); n += 1
            if not (g2 == g and np.array_equal(g.rot, g2.rot) and np.array_equal(g.trans, g2.trans) and np.array_equal(g.cartrot, g2.cartrot)
                    and g.indexmap == g2.indexmap and hash(g) == hash(g2)):
                V('groupop', 'op{}'.format(k))
        except Exception as e:
            V('exception', 'groupop', repr(e)); break
    chem = m['chem']
    try:
        jn = crys.jumpnetwork(chem, m['cut'][0])
        if len(jn) > 0:
            S = stars.StarSet(jn, crys, chem, 2, originstates=True)
            for s in S.states:
                s2 = rt(s); n += 1
                if not (s2 == s and np.array_equal(s.R, s2.R) and np.array_equal(s.dx, s2.dx) and hash(s) == hash(s2)):
                    V('pairstate', 'state'); break
    except Exception as e:
        V('exception', 'pairstate', repr(e))
    if crys.dim == 3 or True:
        try:
            clexp = cluster.makeclusters(crys, m['cut'][0], 3)
            for cs in clexp:
                for c in cs:
                    c2 = rt(c); n += 1
                    if not (c2 == c and hash(c2) == hash(c) and c2.Norder == c.Norder): V('cluster', 'order{}'.format(c.Norder)); break
                    for site in c.sites:
                        s2 = rt(site); n += 1
                        if not (s2 == site and hash(s2) == hash(site) and np.array_equal(site.R, s2.R) and tuple(site.ci) == tuple(s2.ci)): V('clustersite', 'site'); break
            def same(c2, c):
                # equal, same hash, same kind flags, same site list (a dropped flag changes what the object is)
                return (c2 == c and hash(c2) == hash(c) and c2.Norder == c.Norder and str(c2) == str(c)
                        and bool(getattr(c2, '__transition__', None)) == bool(getattr(c, '__transition__', None))
                        and bool(getattr(c2, '__vacancy__', None)) == bool(getattr(c, '__vacancy__', None)))
            vclexp = cluster.makeVacancyClusters(crys, chem, clexp)
            pools = [('vacancy-cluster', vclexp)]
            if len(jn) > 0:
                pools += [('ts-cluster', cluster.makeTSclusters(crys, chem, jn, clexp)),
                          ('vacancy-ts-cluster', cluster.makeTSclusters(crys, chem, jn, vclexp))]
            for pname, pool in pools:
                for cset in pool:
                    cl = sorted(cset, key=str)
                    for c in cl:
                        c2 = rt(c); n += 1
                        if not same(c2, c): V(pname, 'order{}'.format(c.Norder)); break
                        if c2 not in cset: V(pname + '-membership', 'order{}'.format(c.Norder)); break
        except Exception as e:
            V('exception', 'cluster', repr(e))
    k = OnsagerCalc.vacancyThermoKinetics(pre=np.ones(2), betaene=np.array([0., 0.3]), preT=np.ones(3), betaeneT=np.array([1., 1.2, 0.7]))
    try:
        k2 = rt(k); n += 1
        if not (k2 == k and hash(k2) == hash(k)): V('vTK', 'key')
    except Exception as e:
        V('exception', 'vTK', repr(e))
    return {'states': n, 'transitions': n, 'execs': n, 'outcomes': ['{}:{}'.format(name, n)], 'nontrivial': n, 'violations': viols, 'sample': {'crystal': name, 'instances': n}}
