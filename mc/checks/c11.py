"""
C11 -- Interstitial derivative outputs are true derivatives; dipole population.

E1 enumeration over networks x base data x (symmetry class, dipole letter):
  * population: Interstitial.siteDipoles / jumpDipoles vs the Reynolds average of the (symmetrised) input dipole
    over the stabiliser of the representative, carried to each member by an explicit group element;
  * elastodiffusion: Interstitial.elastodiffusion vs central finite differences of R-chain1 on the STRAINED
    network (jump vectors (1+eps).dx, every site/jump its own data, energies shifted by -P:eps);
  * activation barrier: diffusivity(CalcDeriv=True)[1] vs -d D/d t of R-chain1 with all beta*E scaled by (1+t).
Sign convention (from the elastodiffusion docstring + code comments: dipoles are "elastic dipoles / kB T",
rate derivative = rate*(P_T - P_i)): E -> E - P:eps.  Pinned by the hand-computed FCC case in `selfcheck`:
octahedral network, unit data, isotropic transition dipole p*1: D(eps*1) = (1+eps)^2 exp(3 p eps) D, so
sum_c d_xxcc = 2 + 3p.
"""
import itertools
import numpy as np
from onsager import OnsagerCalc
from mc import catalog
from mc.refmodels import chain1

PID = 'C11'
ENGINE = 'E1'
TECHNIQUE = ('exhaustive enumeration of (network, base data, class, dipole letter); oracles = finite differences '
             'of an independent strained site-basis chain model and explicit Reynolds averages over stabilisers')
RULE = ('case = (network, base, class kind); inside: every symmetry class x every elementary matrix E_ab + one '
        'generic non-symmetric matrix (one class at a time, first-order statements are linear in the dipole), plus '
        'zero dipoles and all-classes-generic; all 6 (3) strain components; barrier on all data nodes within k '
        'deviations; nontrivial = letter whose populated dipole is non-zero and changes the elastodiffusion tensor')
ASSUMPTIONS = [
    'base X is not used: with rate ratios 1e8 the finite-difference round-off eps*cond/h exceeds the tolerance',
    'R-chain1 on the strained network (every site / jump its own class) is the definition of D(strain)',
    'finite differences: h = 1e-4 central, tolerance 1e-6*scale (truncation ~1e-8, round-off ~1e-12)',
    'the transition-state dipole of a jump and of its reverse are the same object (stabiliser includes reversal)',
]

NETS = ['FCC_O', 'FCC_T', 'FCC_OT', 'BCC_O', 'BCC_T', 'HCP_OT', 'HONEY', 'ROMEGA', 'RUMPLED2', 'WURTZ2', 'P1', 'P1_3', 'PMMM_G', 'P2MM_G', 'OBL3', 'TET4I',
        'RECTM', 'HEXM', 'KAGOME', 'POLAR4', 'PM2D']
H = 1e-4
FDTOL = 1e-6
POPTOL = 1e-9       # algebraic: projection on an orthonormal basis vs group average
GEOM = 1e-6         # geometric matching of rotated jump vectors


def tierspec(tier):
    return {'bases': ['G1', 'G2'] if tier == 'quick' else ['G1', 'G2', 'T'], 'kbarrier': 1 if tier == 'quick' else 2}


def networks():
    return [(n, ic) for n in NETS for ic in range(len(chain1.meta(catalog, n)['cut']))]


def BOUNDS(tier):
    ts = tierspec(tier)
    return {'networks': ['{}:cut{}'.format(n, ic) for n, ic in networks()], 'bases': ts['bases'],
            'dipole_letters': 'E_ab (all a,b), GEN (generic non-symmetric), per class one at a time; ZERO; ALL',
            'strain_components': 'all 6 (3 in 2D), symmetric unit strains', 'h': H, 'fd_tolerance': FDTOL,
            'barrier_nodes': 'all data nodes within k={} deviations of the base'.format(ts['kbarrier'])}


def cases(tier):
    ts = tierspec(tier)
    out = [{'key': 'selfcheck', 'part': 'selfcheck', 'cost': 5.}]
    for name, ic in networks():
        for base in ts['bases']:
            for part in ('site', 'jump', 'barrier'):
                c = {'key': '{}:cut{}:{}:{}'.format(name, ic, base, part), 'net': name, 'icut': ic, 'base': base, 'part': part}
                if part == 'barrier': c['k'] = ts['kbarrier']
                c['cost'] = {'site': 1., 'jump': 3., 'barrier': 0.5 * ts['kbarrier']}[part]
                out.append(c)
    return out


# ----------------------------------------------------------------------------------------- dipole alphabet
def letters(dim):
    L = [('E{}{}'.format(a, b), a, b) for a in range(dim) for b in range(dim)]
    return [l[0] for l in L] + ['GEN']


def letter_matrix(dim, letter, shift=0):
    """E_ab: elementary matrix; GEN: fixed generic non-symmetric matrix (irrational multiples; `shift`
    gives a different one per class for the ALL letter)"""
    M = np.zeros((dim, dim))
    if letter.startswith('E'):
        M[int(letter[1]), int(letter[2])] = 1.
        return M
    for a in range(dim):
        for b in range(dim):
            M[a, b] = 1.5 * chain1._g(7 * shift + 3 * a + b, chain1.S5 if a <= b else chain1.S7)
    return M


# ------------------------------------------------------------------------------- reference dipole population
def _sym(P): return 0.5 * (P + P.T)


def ref_site_dipoles(crys, chem, sitelist, dipoles):
    """Reynolds average of sym(P) over the stabiliser of the first site of each class, carried by an explicit g"""
    N = len(crys.basis[chem])
    G = list(crys.G)
    out = np.zeros((N, crys.dim, crys.dim))
    for sites, P in zip(sitelist, dipoles):
        i0 = sites[0]
        stab = [g for g in G if g.indexmap[chem][i0] == i0]
        Pref = sum(np.dot(g.cartrot, np.dot(_sym(P), g.cartrot.T)) for g in stab) / len(stab)
        for i in sites:
            g = next(g for g in G if g.indexmap[chem][i0] == i)
            out[i] = np.dot(g.cartrot, np.dot(Pref, g.cartrot.T))
    return out


def _maps(g, chem, rep, mem):
    """+1 if g maps jump rep onto jump mem, -1 if onto the reverse of mem, 0 otherwise"""
    (i0, j0), dx0 = rep
    (i, j), dx = mem
    rdx = np.dot(g.cartrot, dx0)
    if g.indexmap[chem][i0] == i and g.indexmap[chem][j0] == j and np.all(abs(rdx - dx) < GEOM): return 1
    if g.indexmap[chem][i0] == j and g.indexmap[chem][j0] == i and np.all(abs(rdx + dx) < GEOM): return -1
    return 0


def ref_jump_dipoles(crys, chem, jumpnetwork, dipoles):
    G = list(crys.G)
    out = []
    for jl, P in zip(jumpnetwork, dipoles):
        rep = jl[0]
        stab = [g for g in G if _maps(g, chem, rep, rep) != 0]
        Pref = sum(np.dot(g.cartrot, np.dot(_sym(P), g.cartrot.T)) for g in stab) / len(stab)
        lis = []
        for mem in jl:
            g = next(g for g in G if _maps(g, chem, rep, mem) != 0)
            lis.append(np.dot(g.cartrot, np.dot(Pref, g.cartrot.T)))
        out.append(lis)
    return out


# -------------------------------------------------------------------------------------- strained chain model
def strained_chain(crys, chem, sitelist, jumpnetwork, data, sitedip, jumpdip, eps):
    pre, bene, preT, beneT = data
    N = len(crys.basis[chem])
    spre, sene = np.zeros(N), np.zeros(N)
    for w, sites in enumerate(sitelist):
        for i in sites:
            spre[i] = pre[w]
            sene[i] = bene[w] - np.sum(sitedip[i] * eps)
    F = np.eye(crys.dim) + eps
    jumps = []
    for c, jl in enumerate(jumpnetwork):
        for n, ((i, j), dx) in enumerate(jl):
            jumps.append((i, j, np.dot(F, dx), preT[c], beneT[c] - np.sum(jumpdip[c][n] * eps)))
    return chain1.Chain(crys.dim, spre, sene, jumps)


def strains(dim):
    out = []
    for c in range(dim):
        for d in range(c, dim):
            S = np.zeros((dim, dim))
            S[c, d] += 0.5
            S[d, c] += 0.5
            out.append(((c, d), S))
    return out


def fd_elastodiffusion(crys, chem, sl, jn, data, sitedip, jumpdip):
    dim = crys.dim
    d = np.zeros((dim,) * 4)
    for (c, e), S in strains(dim):
        Dp = strained_chain(crys, chem, sl, jn, data, sitedip, jumpdip, H * S).D()
        Dm = strained_chain(crys, chem, sl, jn, data, sitedip, jumpdip, -H * S).D()
        d[:, :, c, e] = d[:, :, e, c] = (Dp - Dm) / (2 * H)
    return d


# ------------------------------------------------------------------------------------------------- evaluate
def _selfcheck():
    fails = list(chain1.selfcheck(catalog))
    crys, chem, sl, jn = chain1.network(catalog, 'FCC_O', 0)
    p = 0.7
    data = (np.ones(1), np.zeros(1), np.ones(1), np.zeros(1))
    sd = np.zeros((1, 3, 3))
    jd = [[p * np.eye(3) for _ in jn[0]]]
    d = fd_elastodiffusion(crys, chem, sl, jn, data, sd, jd)
    hyd = d[0, 0, 0, 0] + d[0, 0, 1, 1] + d[0, 0, 2, 2]
    if abs(hyd - (2 + 3 * p)) > 1e-6: fails.append('FCC_O model hydrostatic derivative {} != {}'.format(hyd, 2 + 3 * p))
    it = OnsagerCalc.Interstitial(crys, chem, sl, jn)
    D0, Dp = it.elastodiffusion(data[0], data[1], [np.zeros((3, 3))], data[2], data[3], [p * np.eye(3)])
    hydp = Dp[0, 0, 0, 0] + Dp[0, 0, 1, 1] + Dp[0, 0, 2, 2]
    viol = [{'oracle': 'model-selfcheck', 'key': f.split(' ')[0], 'detail': f} for f in fails]
    if abs(hydp - (2 + 3 * p)) > 1e-9:
        viol.append({'oracle': 'elastodiffusion-hand', 'key': 'FCC_O:hydrostatic', 'detail': {'package': float(hydp), 'hand': 2 + 3 * p}})
    return {'states': 5, 'execs': 5, 'transitions': 5, 'outcomes': ['selfcheck-{}'.format(len(fails)), 'hyd{:.6f}'.format(hydp)],
            'violations': viol}


def _barrier(case, crys, chem, sl, jn, it, srank, jrank):
    name, ic, base = case['net'], case['icut'], case['base']
    ns, nj = len(sl), len(jn)
    nodelist = [tuple(((kd, int(r)), l) for (kd, r), l in case['devs'])] if 'devs' in case else chain1.nodes(ns, nj, case['k'])
    viols, outcomes, nontriv = [], set(), 0
    for devs in nodelist:
        rd = chain1.nodedata(base, ns, nj, devs)
        data = chain1.toclassorder(rd, srank, jrank)

        def Dt(t):
            return chain1.from_network(crys, chem, sl, jn, data[0], (1 + t) * data[1], data[2], (1 + t) * data[3]).D()

        Dm = Dt(0.)
        # 4th-order central difference: the 3rd t-derivative of D grows like (barrier)^3 (up to ~1e4 at the X base
        # with a +5 letter), which would put the 2nd-order truncation h^2/6*f''' at the 1e-6 tolerance
        dDm = -(8 * (Dt(H) - Dt(-H)) - (Dt(2 * H) - Dt(-2 * H))) / (12 * H)
        nk = '{}:cut{}:{}:barrier:{}'.format(name, ic, base, chain1.nodekey(devs))
        sub = dict(case, key=nk, devs=[[[kd, r], l] for (kd, r), l in devs])
        try:
            D, Db = it.diffusivity(*data, CalcDeriv=True)
        except Exception as e:
            viols.append({'oracle': 'exception', 'key': nk, 'detail': '{}: {}'.format(type(e).__name__, e), 'case': sub})
            continue
        # scale: the derivative is D times a barrier of order max|bE|; never below max|D|
        # ... nor below the uncorrelated part of D (networks that do not percolate have D = 0 by exact cancellation)
        D0bare = abs(chain1.from_network(crys, chem, sl, jn, data[0], data[1], data[2], data[3]).D0()).max()
        scale = max(abs(dDm).max(), abs(Dm).max(), D0bare)
        err = abs(Db - dDm).max()
        if not (np.all(np.isfinite(Db)) and err <= FDTOL * scale):
            if len(viols) < 1:
                viols.append({'oracle': 'barrier-fd', 'key': nk, 'case': sub,
                              'detail': {'Db': np.array(Db).tolist(), 'model_minus_dD_dbeta': dDm.tolist(), 'err/scale': float(err / scale)}})
        if abs(dDm).max() > 1e-9 * abs(Dm).max() and devs: nontriv += 1
        if len(outcomes) < 200: outcomes.add('Eb:' + np.array2string(np.round(np.diag(Db) / scale, 4)))
    return {'states': len(nodelist), 'transitions': len(nodelist), 'execs': len(nodelist), 'nontrivial': nontriv,
            'outcomes': sorted(outcomes), 'violations': viols,
            'sample': {'case': case['key'], 'nodes': len(nodelist)}}


def evaluate(case):
    if case['part'] == 'selfcheck': return _selfcheck()
    name, ic, base, part = case['net'], case['icut'], case['base'], case['part']
    crys, chem, sl, jn = chain1.network(catalog, name, ic)
    dim = crys.dim
    ns, nj = len(sl), len(jn)
    srank, jrank, skeys, jkeys = chain1.classranks(crys, chem, sl, jn)
    it = OnsagerCalc.Interstitial(crys, chem, sl, jn)
    if part == 'barrier': return _barrier(case, crys, chem, sl, jn, it, srank, jrank)
    data = chain1.toclassorder(chain1.basedata(base, ns, nj), srank, jrank)
    Dm = chain1.from_network(crys, chem, sl, jn, *data).D()
    zeroS = [np.zeros((dim, dim)) for _ in sl]
    zeroJ = [np.zeros((dim, dim)) for _ in jn]
    # the enumerated dipole inputs: (label, site dipoles by class, jump dipoles by class)
    nclass = ns if part == 'site' else nj
    ranks = srank if part == 'site' else jrank
    inputs = []
    if 'letter' in case:     # replay of one input
        want = [(case['rank'], case['letter'])]
    else:
        want = [(None, 'ZERO')] + [(r, l) for r in range(nclass) for l in letters(dim)] + [(None, 'ALL')]
    for r, l in want:
        dS, dJ = [z.copy() for z in zeroS], [z.copy() for z in zeroJ]
        if l == 'ALL':
            for w in range(ns): dS[w] = letter_matrix(dim, 'GEN', 1 + srank[w])
            for c in range(nj): dJ[c] = letter_matrix(dim, 'GEN', 11 + jrank[c])
        elif l != 'ZERO':
            (dS if part == 'site' else dJ)[ranks.index(r)] = letter_matrix(dim, l)
        inputs.append((r, l, dS, dJ))
    d_zero = fd_elastodiffusion(crys, chem, sl, jn, data, np.zeros((len(crys.basis[chem]), dim, dim)),
                                [[np.zeros((dim, dim)) for _ in jl] for jl in jn])
    viols, outcomes, nontriv, ncmp = [], set(), 0, 0
    for r, l, dS, dJ in inputs:
        tag = '{}{}:{}'.format(part, '' if r is None else r, l)
        pre_key = '{}:cut{}:{}'.format(name, ic, base)
        sub = dict(case, key=pre_key + ':' + tag, rank=r, letter=l)
        refS = ref_site_dipoles(crys, chem, sl, dS)
        refJ = ref_jump_dipoles(crys, chem, jn, dJ)
        # ---- population
        popbad = False
        try:
            pkgS = np.array(it.siteDipoles(dS))
            pkgJ = [[np.array(P) for P in lis] for lis in it.jumpDipoles(dJ)]
        except Exception as e:
            viols.append({'oracle': 'exception', 'key': pre_key + ':population:' + tag, 'detail': '{}: {}'.format(type(e).__name__, e), 'case': sub})
            continue
        pscale = max(1., max(abs(P).max() for P in dS + dJ))
        errS = abs(pkgS - refS).max()
        errJ = max(abs(np.array(a) - np.array(b)).max() for a, b in zip(pkgJ, refJ))
        ncmp += 1
        if errS > POPTOL * pscale or errJ > POPTOL * pscale or [len(a) for a in pkgJ] != [len(a) for a in refJ]:
            popbad = True
            viols.append({'oracle': 'dipole-population', 'key': pre_key + ':population:' + tag, 'case': sub,
                          'detail': {'max_site_err': float(errS), 'max_jump_err': float(errJ),
                                     'rank_of_pkg_rep_dipole': int(np.linalg.matrix_rank((pkgS[sl[ranks.index(r)][0]] if part == 'site' else pkgJ[ranks.index(r)][0]), tol=1e-9)) if r is not None else None,
                                     'pkg_rep': (pkgS[sl[ranks.index(r)][0]] if part == 'site' else pkgJ[ranks.index(r)][0]).tolist() if r is not None else None,
                                     'reynolds_rep': (refS[sl[ranks.index(r)][0]] if part == 'site' else refJ[ranks.index(r)][0]).tolist() if r is not None else None}})
        # ---- elastodiffusion
        dref = fd_elastodiffusion(crys, chem, sl, jn, data, refS, refJ)
        try:
            D0, Dp = it.elastodiffusion(data[0], data[1], dS, data[2], data[3], dJ)
        except Exception as e:
            viols.append({'oracle': 'exception', 'key': pre_key + ':elastodiffusion:' + tag, 'detail': '{}: {}'.format(type(e).__name__, e), 'case': sub})
            continue
        Dp = np.array(Dp)
        D0bare = abs(chain1.from_network(crys, chem, sl, jn, data[0], data[1], data[2], data[3]).D0()).max()
        scale = max(abs(dref).max(), abs(Dm).max(), D0bare)   # (D0bare: D = 0 by exact cancellation on non-percolating networks)
        ncmp += 2
        if abs(np.array(D0) - Dm).max() > 1e-9 * abs(Dm).max() + 1e-13:
            viols.append({'oracle': 'elastodiffusion-D0', 'key': pre_key + ':elastodiffusion:D0:' + tag, 'case': sub,
                          'detail': {'D0': np.array(D0).tolist(), 'model': Dm.tolist()}})
        err = abs(Dp - dref).max()
        if not (Dp.shape == dref.shape and np.all(np.isfinite(Dp)) and err <= FDTOL * scale):
            det = {'err/scale': float(err / scale), 'population_also_wrong': popbad,
                   'worst_component': [int(x) for x in np.unravel_index(np.argmax(abs(Dp - dref)), Dp.shape)],
                   'package': float(Dp.flat[np.argmax(abs(Dp - dref))]), 'model_fd': float(dref.flat[np.argmax(abs(Dp - dref))])}
            if popbad:
                # is the tensor at least the derivative for the dipoles the package populated?
                dpk = fd_elastodiffusion(crys, chem, sl, jn, data, pkgS, pkgJ)
                det['consistent_with_package_populated_dipoles'] = bool(abs(Dp - dpk).max() <= FDTOL * scale)
            viols.append({'oracle': 'elastodiffusion-fd', 'key': pre_key + ':elastodiffusion:' + tag, 'case': sub, 'detail': det})
        elif popbad:
            pass
        if popbad:
            # derivative algebra in isolation: against the model fed with the package's own populated dipoles
            dpk = fd_elastodiffusion(crys, chem, sl, jn, data, pkgS, pkgJ)
            ncmp += 1
            if abs(Dp - dpk).max() > FDTOL * max(scale, abs(dpk).max()):
                viols.append({'oracle': 'elastodiffusion-fd-pkgdipoles', 'key': pre_key + ':elastodiffusion:pkgdipoles:' + tag, 'case': sub,
                              'detail': {'err/scale': float(abs(Dp - dpk).max() / scale)}})
        if l not in ('ZERO',) and max(abs(refS).max(), max(abs(np.array(x)).max() for x in refJ)) > 1e-9 \
                and abs(dref - d_zero).max() > 1e-6 * scale:
            nontriv += 1
        if len(outcomes) < 300:
            outcomes.add('{}:{}'.format(name, np.array2string(np.round(np.array([Dp[(a, a, c, c)] for a in range(dim) for c in range(dim)]) / scale, 3))))
    # collapse: one violation per oracle and case (the first = simplest input); the others are listed in its detail
    byor = {}
    for v in viols: byor.setdefault(v['oracle'], []).append(v)
    kept = []
    for o, vs in byor.items():
        if len(vs) > 1:
            vs[0]['detail'] = {'first': vs[0]['detail'], 'violating_inputs_in_case': len(vs),
                               'all': [':'.join(v['key'].split(':')[-2:]) for v in vs][:80]}
        kept.append(vs[0])
    return {'states': len(inputs), 'transitions': ncmp, 'execs': len(inputs) * 2, 'nontrivial': nontriv, 'outcomes': sorted(outcomes),
            'violations': kept,
            'sample': {'case': case['key'], 'inputs': len(inputs), 'NV': it.NV,
                       'classes': [str(k) for k in sorted(skeys if part == 'site' else jkeys)]}}
