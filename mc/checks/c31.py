"""
C31 -- cluster enumeration is complete and cluster identity is geometric.

E1 (input-lattice) explorer.  Two kinds of cases:

 enum      (crystal, cutoff interval, maxorder, exclusion subset): makeclusters vs the brute-force clique
           enumeration of R-geom (energy.brute_clusters); every generated set must be exactly one union-find
           orbit under crys.G (group action recomputed from rot/trans), sets disjoint, union == brute set.
           For every non-excluded species and every jump-network shell interval below the cluster cutoff:
           makeVacancyClusters, makeTSclusters on the plain and on the vacancy expansion, each compared with
           the set derived by definition from the input expansion and the jump network, and partitioned
           into orbits (under G, and G+reversal for vacancy TS clusters, whose sets hold both directions).
 identity  (crystal, cutoff interval): pool = every generated cluster of every kind; rebuilt under every
           translation in {-1,0,1}^3 x every permutation of the non-special sites: == / hash unchanged;
           all pairs of the pool + one-site variants: (a == b) <=> (canonical keys equal), equal => same hash.
"""
import itertools
import numpy as np
from onsager import cluster
from mc.refmodels import energy as en

PID = 'C31'
ENGINE = 'E1'
TECHNIQUE = ('exhaustive enumeration of (crystal, cutoff interval, order, exclusion, jump shell); brute-force clique '
             'enumeration + union-find orbits as reference; all translations x permutations for identity')
RULE = ('enum: one case per crystal x cutoff-shell-interval x maxorder x exclusion subset (+ every species x jump '
        'shell for TS/vacancy sets); non-trivial = reference has clusters of order >= 2. identity: every generated '
        'cluster x 27 translations x all permutations of non-special sites, all pool pairs, all one-site variants')
LEVEL_TEXT = ('small-scope exhaustive: the cutoff is covered by region abstraction (one representative per interval '
              'between critical distances), order and exclusions completely up to the bound')
ASSUMPTIONS = ['crys.G is the space group (checked by C18); its action on sites is recomputed from rot/trans',
               'cutoffs equal to a neighbour distance (ties) are excluded',
               'vacancy-TS reference follows the four variants documented in the comments of makeTSclusters']

CRYSTALS = ['FCC', 'BCC', 'HCP', 'B2AB', 'FCC_O', 'SKEWSQ', 'P1AAB', 'P1CHAIN']    # SKEWSQ: skewed noreduce cell (design finding F9)


def _nshell(tier): return 3 if tier == 'quick' else 4
def _maxorder(tier, icut=0): return 4 if (tier != 'quick' or icut <= 2) else 3


def BOUNDS(tier):
    return {'crystals': CRYSTALS, 'cutoff_intervals': '(0,d1),(d1,d2)..(d{0},d{1})'.format(_nshell(tier), _nshell(tier) + 1),
            'maxorder': '1..4' if tier != 'quick' else '1..4 up to the 2nd shell interval, 1..3 for the 3rd', 'exclusions': 'every subset of species',
            'jump shells': 'every chem-sublattice shell interval below the cluster cutoff',
            'identity': {'translations': '{-1,0,1}^3', 'permutations': 'all of non-special sites',
                         'pool cutoff interval': '2nd (quick) / 2nd and 3rd (thorough)', 'order': 4}}


def cases(tier):
    out = []
    ns = _nshell(tier)
    for name in CRYSTALS:
        nchem = len(en.get_crystal(name).basis)
        for icut in range(ns + 1):
            for order in range(1, _maxorder(tier, icut) + 1):
                if order == 1 and icut > 0: continue
                if icut == 0 and order > 2: continue      # below the first shell nothing grows
                for r in range(nchem + 1):
                    for excl in itertools.combinations(range(nchem), r):
                        out.append({'key': 'enum:{}:cut{}:o{}:x{}'.format(name, icut, order, ''.join(map(str, excl)) or '-'),
                                    'kind': 'enum', 'crystal': name, 'icut': icut, 'order': order, 'exclude': list(excl),
                                    'cost': (icut + 1) ** 2 * order ** 2 * (nchem - r)})
        for icut in ([2] if tier == 'quick' else [2, 3]):
            for kinds in (['C', 'V'], ['TS'], ['VTS']):
                out.append({'key': 'identity:{}:cut{}:{}'.format(name, icut, '+'.join(kinds)), 'kind': 'identity', 'crystal': name,
                            'icut': icut, 'order': 4, 'kinds': kinds, 'cost': 200 * icut * len(kinds[0])})
    return out


# ------------------------------------------------------------------------------------------------
def jump_pairs(crys, chem, jn):
    """set of (i, j, R): jump from (chem,i,0) to (chem,j,R), computed from dx"""
    inv = np.linalg.inv(crys.lattice)
    out = set()
    for cls in jn:
        for (i, j), dx in cls:
            u = np.dot(inv, dx) - crys.basis[chem][j] + crys.basis[chem][i]
            r = np.round(u)
            if np.max(np.abs(u - r)) > 1e-6: raise RuntimeError('jump does not connect sites')
            out.add((int(i), int(j), tuple(int(v) for v in r)))
    return out


def is_jump(pairs, chem, a, b):
    if a[0] != chem or b[0] != chem: return False
    return (a[1], b[1], tuple(x - y for x, y in zip(b[2], a[2]))) in pairs


def ref_vacancy(keys, chem):
    out = set()
    for k in keys:
        sites = en.key_sites(k)
        for n, s in enumerate(sites):
            if s[0] == chem: out.add(en.canon('V', [s] + sites[:n] + sites[n + 1:]))
    return out


def ref_ts(keys, chem, pairs):
    out = set()
    for k in keys:
        sites = en.key_sites(k)
        for a in range(len(sites)):
            for b in range(len(sites)):
                if a != b and is_jump(pairs, chem, sites[a], sites[b]):
                    out.add(en.canon('TS', [sites[a], sites[b]] + [s for n, s in enumerate(sites) if n not in (a, b)]))
    return out


def ref_vts(vkeys, chem, pairs):
    out = set()
    for k in vkeys:
        sites = en.key_sites(k)
        v, rest = sites[0], sites[1:]
        if v[0] != chem: continue
        for n, j in enumerate(rest):
            if is_jump(pairs, chem, v, j):
                others = rest[:n] + rest[n + 1:]
                out.add(en.canon('VTS', [v, j] + others))
                out.add(en.canon('VTS', [v, j, j] + others))
                out.add(en.canon('VTS', [j, v] + others))
                out.add(en.canon('VTS', [j, v, v] + others))
    return out


def vts_reverse(k):
    """the same transition state seen from the other end: (a->b ; S) -> (b->a ; S with b replaced by a)"""
    sites = en.key_sites(k)
    a, b, rest = sites[0], sites[1], sites[2:]
    return en.canon('VTS', [b, a] + [a if s == b else s for s in rest])


def compare_sets(crys, ga, generated, reference, label, base, viols, stats, extra=None):
    """generated: list of sets of real Cluster objects; reference: set of canonical keys"""
    gkeys = []
    for clset in generated:
        ks = [en.cluster_key(cl) for cl in clset]
        kset = set(ks)
        if len(kset) != len(ks):
            viols.append({'oracle': label + '-duplicate-in-set', 'key': '{}:{}'.format(base, en.class_descriptor(crys, clset)),
                          'detail': 'set of {} Cluster objects holds {} distinct clusters'.format(len(ks), len(kset))})
        gkeys.append(kset)
    union = set().union(*gkeys) if gkeys else set()
    for n, a in enumerate(gkeys):
        for m in range(n):
            if a & gkeys[m]:
                k = min(a & gkeys[m])
                viols.append({'oracle': label + '-not-disjoint', 'key': '{}:{}'.format(base, en.descriptor(crys, k[0], en.key_sites(k))),
                              'detail': '{} clusters appear in two sets'.format(len(a & gkeys[m]))})
    missing, surplus = reference - union, union - reference
    for what, ks in (('missing', missing), ('surplus', surplus)):
        seen = set()
        for k in sorted(ks):
            d = en.descriptor(crys, k[0], en.key_sites(k))
            if d in seen: continue
            seen.add(d)
            viols.append({'oracle': label + '-' + what, 'key': '{}:{}'.format(base, d),
                          'detail': {'example': list(map(list, en.key_sites(k))), 'n': len(ks)}})
    orbs, escaped = en.orbits(ga, reference, extra)
    if escaped:
        if label == 'enum': raise RuntimeError('brute-force set is not closed under the group: {}'.format(escaped[0]))
        # derived reference built from a generated expansion that is itself not closed (reported by the enum oracles)
        viols.append({'oracle': label + '-input-expansion-not-closed', 'key': base, 'detail': str(escaped[0])[:300]})
        return union
    orbset = set(orbs)
    for kset, clset in zip(gkeys, generated):
        stats['transitions'] += 1
        if frozenset(kset) not in orbset:
            # closed at all?
            sub, esc = en.orbits(ga, kset, extra)
            what = 'not closed under symmetry' if esc else ('{} orbits in one set'.format(len(sub)) if len(sub) > 1 else 'not an orbit of the reference set')
            viols.append({'oracle': label + '-not-one-orbit', 'key': '{}:{}'.format(base, en.class_descriptor(crys, clset)),
                          'detail': what})
    stats['outcomes'].add('{}:{}sets:{}'.format(label, len(generated), sorted(len(s) for s in gkeys)))
    return union


def eval_enum(case):
    crys = en.get_crystal(case['crystal'])
    ga = en.GroupAction(crys)
    nsh = max(case['icut'], 1) + 1
    cuts = en.cutoffs(crys, nsh)
    cutoff = cuts[case['icut']]
    order, excl = case['order'], tuple(case['exclude'])
    base = '{}:cut{}:o{}:x{}'.format(case['crystal'], case['icut'], order, ''.join(map(str, excl)) or '-')
    viols = []
    stats = {'transitions': 0, 'outcomes': set()}
    ref = en.brute_clusters(crys, cutoff, order, excl)
    refall = set().union(*ref.values())
    clexp = cluster.makeclusters(crys, cutoff, order, exclude=list(excl))
    execs = 1
    for clset in clexp:
        for cl in clset:
            sites = en.cluster_sites(cl)
            if len(set(sites)) != len(sites) or len(cl) != len(sites) or len(sites) > order or any(s[0] in excl for s in sites):
                viols.append({'oracle': 'enum-illformed', 'key': '{}:{}'.format(base, en.descriptor(crys, 'C', sites)), 'detail': str(cl)})
    genall = compare_sets(crys, ga, clexp, refall, 'enum', base, viols, stats)
    # the derived (vacancy / TS) sets are specified relative to the expansion they are given
    nontriv = 1 if any(ref[k] for k in ref if k >= 2) else 0
    # ---- vacancy and TS clusters for every non-excluded species
    for chem in range(len(crys.basis)):
        if chem in excl: continue
        cname = crys.chemistry[chem]
        vexp = cluster.makeVacancyClusters(crys, chem, clexp); execs += 1
        vref = ref_vacancy(genall, chem)
        vgen = compare_sets(crys, ga, vexp, vref, 'vac', base + ':' + cname, viols, stats)
        for cl in (c for s in vexp for c in s):
            if any(int(x) != 0 for x in cl.vacancy().R) or cl.vacancy().ci[0] != chem:
                viols.append({'oracle': 'vac-not-at-origin', 'key': base + ':' + cname, 'detail': str(cl)}); break
        # jump networks: one per shell interval of the chem sublattice below the cluster cutoff
        csh = en.shells(crys, 6, chems=[chem])
        for nj, d in enumerate(csh[:-1]):
            if d >= cutoff: break
            jcut = 0.5 * (d + min(csh[nj + 1], cutoff))    # inside (d_k, min(d_k+1, cluster cutoff))
            jn = crys.jumpnetwork(chem, jcut)
            pairs = jump_pairs(crys, chem, jn)
            jbase = '{}:{}:jump<{:.3f}'.format(base, cname, jcut)
            ts = cluster.makeTSclusters(crys, chem, jn, clexp); execs += 1
            compare_sets(crys, ga, ts, ref_ts(genall, chem, pairs), 'ts', jbase, viols, stats)
            vts = cluster.makeTSclusters(crys, chem, jn, vexp); execs += 1
            compare_sets(crys, ga, vts, ref_vts(vgen, chem, pairs), 'vts', jbase, viols, stats, extra=vts_reverse)
            for cl in (c for s in ts + vts for c in s):
                if any(int(x) != 0 for x in cl.transitionstate()[0].R):
                    viols.append({'oracle': 'ts-initial-not-at-origin', 'key': jbase, 'detail': str(cl)}); break
            if ts or vts: nontriv = 1
    return {'states': 1, 'transitions': stats['transitions'], 'execs': execs, 'outcomes': sorted(stats['outcomes']),
            'nontrivial': nontriv, 'violations': viols,
            'sample': {'case': case['key'], 'cutoff': cutoff, 'reference_clusters': {str(k): len(v) for k, v in ref.items()},
                       'generated_sets': len(clexp)}}


# ------------------------------------------------------------------------------------------------
def make(kind, sites):
    cs = [cluster.ClusterSite((c, i), np.array(R, dtype=int)) for (c, i, R) in sites]
    return cluster.Cluster(cs, transition=kind in ('TS', 'VTS'), vacancy=kind in ('V', 'VTS'))


def eval_identity(case):
    crys = en.get_crystal(case['crystal'])
    cuts = en.cutoffs(crys, case['icut'] + 1)
    cutoff = cuts[case['icut']]
    base = '{}:cut{}'.format(case['crystal'], case['icut'])
    clexp = cluster.makeclusters(crys, cutoff, case['order'])
    pool = []
    kinds = case['kinds']
    if 'C' in kinds: pool += [c for s in clexp for c in s]
    for chem in range(len(crys.basis)):
        vexp = cluster.makeVacancyClusters(crys, chem, clexp)
        if 'V' in kinds: pool += [c for s in vexp for c in s]
        sh = [d for d in en.shells(crys, 5, chems=[chem]) if d < cutoff]
        if sh and ('TS' in kinds or 'VTS' in kinds):
            jn = crys.jumpnetwork(chem, cutoff)
            if 'TS' in kinds: pool += [c for s in cluster.makeTSclusters(crys, chem, jn, clexp) for c in s]
            if 'VTS' in kinds: pool += [c for s in cluster.makeTSclusters(crys, chem, jn, vexp) for c in s]
    viols, seen = [], set()

    def bad(oracle, cl, detail):
        kind = en.cluster_kind(cl)
        key = '{}:{}'.format(base, en.descriptor(crys, kind, en.cluster_sites(cl)))
        if (oracle, key) in seen: return
        seen.add((oracle, key))
        viols.append({'oracle': oracle, 'key': key, 'detail': detail})

    trans = list(itertools.product((-1, 0, 1), repeat=crys.lattice.shape[0]))
    ntr, outcomes = 0, set()
    keys = [en.cluster_key(cl) for cl in pool]
    for cl, k in zip(pool, keys):
        kind = en.cluster_kind(cl)
        sites = en.cluster_sites(cl)
        ns = en.nspecial(kind)
        h = hash(cl)
        for t in trans:
            sh = [(c, i, tuple(a + b for a, b in zip(R, t))) for (c, i, R) in sites]
            for perm in itertools.permutations(range(ns, len(sh))):
                c2 = make(kind, sh[:ns] + [sh[p] for p in perm])
                ntr += 1
                if not (c2 == cl) or not (cl == c2) or (c2 != cl):
                    bad('identity-eq-translation-permutation', cl, {'t': list(t), 'perm': list(perm)})
                if hash(c2) != h:
                    bad('identity-hash-translation-permutation', cl, {'t': list(t), 'perm': list(perm)})
                if c2 not in {cl: 1}:
                    bad('identity-set-membership', cl, {'t': list(t), 'perm': list(perm)})
        if kind == 'TS':   # the reverse of a (non-vacancy) TS cluster is the same transition state
            c2 = make(kind, [sites[1], sites[0]] + sites[2:]); ntr += 1
            if not (c2 == cl) or hash(c2) != h: bad('identity-ts-reverse', cl, str(c2))
        # one-site variants: replace one site (special or not) by a nearby site, or drop/add the flags
        variants = []
        cells = list(itertools.product((-1, 0, 1), repeat=crys.lattice.shape[0]))
        cand = [(c, i, R) for c in range(len(crys.basis)) for i in range(len(crys.basis[c])) for R in cells]
        for n in range(len(sites)):
            for s in cand:
                if s in sites: continue
                variants.append((kind, sites[:n] + [s] + sites[n + 1:]))
        if kind in ('TS', 'VTS'):
            # the same sites with every other ordered choice of the transition pair
            for a in range(len(sites)):
                for b in range(len(sites)):
                    if a != b and (a, b) != (0, 1) and sites[a] != sites[b]:
                        variants.append((kind, [sites[a], sites[b]] + [s for n, s in enumerate(sites) if n not in (a, b)]))
        for k2 in ('C', 'V', 'TS', 'VTS'):
            if k2 != kind and len(sites) >= en.nspecial(k2) and len(set(sites)) == len(sites): variants.append((k2, sites))
        for k2, s2 in variants:
            c2 = make(k2, s2); ntr += 1
            same = (en.canon(k2, s2) == k)
            if (c2 == cl) != same or (cl == c2) != same:
                bad('identity-eq-vs-geometry', cl, {'other': [k2, [list(map(str, s)) for s in s2]], 'geometric_equal': same})
            if same and hash(c2) != h: bad('identity-hash-vs-geometry', cl, str(c2))
    # all pairs of the pool
    hs = [hash(c) for c in pool]
    neq = 0
    for a in range(len(pool)):
        for b in range(a + 1):
            ntr += 1
            same = keys[a] == keys[b]
            if (pool[a] == pool[b]) != same or (pool[b] == pool[a]) != same:
                bad('identity-eq-vs-geometry', pool[a], {'other': str(pool[b]), 'geometric_equal': same})
            elif same and hs[a] != hs[b]:
                bad('identity-hash-vs-geometry', pool[a], str(pool[b]))
            neq += same
    for cl in pool: outcomes.add(en.descriptor(crys, en.cluster_kind(cl), en.cluster_sites(cl)))
    collisions = len(pool) - len(set(hs))
    return {'states': len(pool), 'transitions': ntr, 'execs': ntr, 'outcomes': sorted(outcomes), 'nontrivial': sum(1 for c in pool if c.Nsites >= 2),
            'violations': viols, 'sample': {'case': case['key'], 'pool': len(pool), 'hash_collisions_in_pool': collisions}}


def evaluate(case):
    if case['kind'] == 'enum': return eval_enum(case)
    return eval_identity(case)
