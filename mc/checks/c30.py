"""
C30 -- automator.supercelltar: the archive is complete and self-consistent.

E1 enumeration over (calculator, supercell matrix, option set).  The archive is written to and read from
memory; every file the property speaks about is read back and compared with the supercell dictionary;
the bundled trans.pl is run by perl on every transformation file (in a private temporary directory).
If onsager.automator cannot be imported there is exactly one case and one violation.
"""
import io, os, re, json, shutil, tarfile, tempfile, subprocess, warnings
import numpy as np
from onsager import supercell, OnsagerCalc
from mc import catalog
from mc.refmodels import occ as R

try:
    from onsager import automator
    IMPORT_ERROR = None
except Exception as _e:                      # F11: pkg_resources is gone
    automator = None
    IMPORT_ERROR = '{}: {}'.format(type(_e).__name__, _e)

PID = 'C30'
ENGINE = 'E1'
TECHNIQUE = ('every archive member of supercelltar read back from memory and compared with the supercell dictionary; '
             'bundled trans.pl executed by perl on every transformation file; Makefile prerequisites resolved; '
             'GNU make run on the unpacked archive')
RULE = ('case = (calculator, supercell matrix, option set); all states, transition endpoints, transformation files, '
        'Makefile rules, NEBlists and symlinks of the archive are checked; nontrivial = transformation files whose '
        'operation or reordering is not the identity and that perl reproduced')
LEVEL_TEXT = 'bounded-exhaustive over the listed supercell dictionaries and option sets; every archive member is checked'
ASSUMPTIONS = ['the relaxed CONTCAR keeps the atom order and cell of the POSCAR it started from (the state POSCAR stands in '
               'for it; a second run appends a velocity block as VASP does)',
               'POTCAR is supplied by the user (the ../POTCAR symlink target is the one allowed dangling link)',
               'nebmake.pl / Vasp.pm are only checked for presence (third-party VTST scripts)',
               'supercell.yaml is only required to be written (default option) -- it is not loaded back']

PERL = '/usr/bin/perl'
MAKE = '/usr/bin/make'
MATS = {
    '1I': np.eye(3, dtype=int).tolist(), '2I': (2 * np.eye(3, dtype=int)).tolist(), '3I': (3 * np.eye(3, dtype=int)).tolist(),
    'd2hnf': [[2, 1, 0], [0, 1, 0], [0, 0, 1]], 'hex6': [[2, 1, 0], [1, 2, 0], [0, 0, 2]],
    'cub2': [[-2, 2, 2], [2, -2, 2], [2, 2, -2]], '4I': (4 * np.eye(3, dtype=int)).tolist(),
}
OPTS = {
    'default': {},
    'alt': {'basedir': 'run7', 'KPOINTS': '', 'YAMLdef': None, 'statename': 'st_', 'transitionname': 'ts_',
            'IDformat': '{:03d}', 'JSONdict': 'map.json'},
    'noyaml': {'YAMLdef': None},
}
CALCS_Q = [('I', 'FCC_OT', 0), ('I', 'FCC_OT', 2), ('I', 'HCP_OT', 1), ('V', 'FCC', 0), ('V', 'BCC', 0), ('V', 'HCP', 0), ('V', 'B2', 0),
           ('I', 'OT_FCC', 1), ('I', 'B2AB_O', 0), ('I', 'B2AOB', 0), ('V', 'B2AB', 0)]
CALCS_T = CALCS_Q + [('I', 'FCC_OT', 1), ('I', 'HCP_OT', 0), ('I', 'BCC_O', 0), ('V', 'FCC', 1), ('V', 'HCP15', 0)]
MATS_Q = ['1I', '2I', 'd2hnf', '3I']
MATS_T = MATS_Q + ['hex6', 'cub2', '4I']
SITECAP = {'quick': 120, 'thorough': 300}
YAMLCAP = 60          # default options (with supercell.yaml) only up to this many sites; 'noyaml' above


def _nsites(cname, mname):
    return catalog.get(cname).N * abs(int(round(np.linalg.det(np.array(MATS[mname], dtype=float)))))


def _configs(tier):
    calcs, mats = (CALCS_Q, MATS_Q) if tier == 'quick' else (CALCS_T, MATS_T)
    out = []
    for kind, cname, icut in calcs:
        for m in mats:
            n = _nsites(cname, m)
            if n > SITECAP[tier]: continue
            out.append((kind, cname, icut, m, 'default' if n <= YAMLCAP else 'noyaml'))
            if m in ('2I', 'd2hnf'): out.append((kind, cname, icut, m, 'alt'))
    return out


def BOUNDS(tier):
    if automator is None: return {'import_error': IMPORT_ERROR}
    conf = _configs(tier)
    return {'dictionaries': sorted(set('{}:{}:cut{}:{}'.format(*c[:4]) for c in conf)), 'option_sets': OPTS,
            'matrices': {m: MATS[m] for m in sorted(set(c[3] for c in conf))}, 'site_cap': SITECAP[tier],
            'yaml_written_up_to_sites': YAMLCAP}


def cases(tier):
    if automator is None:
        return [{'key': 'import onsager.automator', 'what': 'import'}]
    return [{'key': '{}:{}:cut{}:{}:{}'.format(k, c, i, m, o), 'what': 'tar', 'kind': k, 'crystal': c, 'icut': i,
             'matrix': m, 'opts': o, 'tier': tier, 'cost': _nsites(c, m)} for k, c, i, m, o in _configs(tier)]


def empty_like(sup):
    s = sup.copy()
    for n in range(len(s.occ)): s.setocc(n, -1)
    # leave junk in the target: POSCAR_occ must empty it
    s.setocc(len(s.occ) - 1, 0)
    return s


def evaluate(case):
    if case['what'] == 'import':
        try:
            import importlib
            importlib.import_module('onsager.automator')
        except Exception as e:
            return {'violations': [{'oracle': 'exception', 'key': 'import onsager.automator',
                                    'detail': '{}: {}'.format(type(e).__name__, e)}], 'outcomes': ['import-failed']}
        return {'violations': [], 'outcomes': ['import-ok']}
    from mc.checks import c29
    kind, cname, icut, mname = case['kind'], case['crystal'], case['icut'], case['matrix']
    opts = dict(OPTS[case['opts']])
    pre = case['key']
    viols, outcomes = [], set()

    def V(oracle, key, detail):
        viols.append({'oracle': oracle, 'key': '{}:{}'.format(pre, key), 'detail': detail})

    calc = c29.make_calc(kind, cname, icut)
    M = np.array(MATS[mname], dtype=int)
    with warnings.catch_warnings():
        warnings.simplefilter('ignore')
        sd = calc.makesupercells(M)
    states, transitions, transmapping = sd['states'], sd['transitions'], sd['transmapping']

    def ctag(tag):
        return min(calc.tags[calc.tagdicttype[tag]][calc.tagdict[tag]])

    before = {t: R.state_of(s) for t, s in states.items()}
    buf = io.BytesIO()
    with tarfile.open(fileobj=buf, mode='w') as tar:
        automator.supercelltar(tar, sd, timestamp=0, **opts)
    if {t: R.state_of(s) for t, s in states.items()} != before: V('inputs-mutated', 'states', 'supercelltar changed the dictionary')
    buf.seek(0)
    base = opts.get('basedir', '')
    if base and not base.endswith('/'): base += '/'
    files, dirs, links, modes = {}, set(), {}, {}
    with tarfile.open(fileobj=buf, mode='r') as tar:
        for m in tar.getmembers():
            if not m.name.startswith(base): V('outside-basedir', 'member:' + m.name, base); continue
            name = m.name[len(base):]
            if name in files or name in dirs or name in links: V('duplicate-member', 'member:' + name, 'written twice')
            modes[name] = m.mode
            if m.isdir(): dirs.add(name)
            elif m.issym(): links[name] = m.linkname
            elif m.isfile(): files[name] = tar.extractfile(m).read().decode('ascii')
            else: V('member-type', 'member:' + name, str(m.type))
    statename, transname = opts.get('statename', 'relax.'), opts.get('transitionname', 'neb.')
    jsonname = opts.get('JSONdict', 'tags.json')
    kpoints = opts.get('KPOINTS', 'x') not in (None, '')

    # ---- tag map <-> directories
    if jsonname not in files:
        V('tagmap-missing', jsonname, sorted(files)[:10]); return {'violations': viols}
    tagmap = json.loads(files[jsonname])
    alltags = list(states) + list(transitions)
    if sorted(tagmap.values()) != sorted(alltags): V('tagmap-not-bijective', 'tags', {'in map': len(tagmap), 'tags': len(alltags)})
    if set(tagmap.keys()) != dirs: V('tagmap-vs-directories', 'dirs', {'map only': sorted(set(tagmap) - dirs), 'archive only': sorted(dirs - set(tagmap))})
    dirof = {t: d for d, t in tagmap.items()}
    for t in states:
        if not dirof.get(t, '').startswith(statename): V('directory-name', 'state:' + ctag(t), dirof.get(t))
    for t in transitions:
        if not dirof.get(t, '').startswith(transname): V('directory-name', 'trans:' + ctag(t), dirof.get(t))
    if len(set(dirof.values())) != len(alltags): V('tagmap-not-bijective', 'dirs', 'two tags share a directory')

    # ---- POSCAR files read back
    def readback(fname, sup, key, nameline):
        if fname not in files: V('file-missing', key, fname); return False
        text = files[fname]
        ok = True
        try:
            tgt = empty_like(sup)
            tgt.POSCAR_occ(text)
            if R.state_of(tgt) != R.state_of(sup) or not (tgt == sup):
                ok = False
                V('poscar-readback', key, {'file': fname, 'chemorder read': R.state_of(tgt)[1], 'given': R.state_of(sup)[1]})
        except Exception as e:
            ok = False
            V('poscar-readback', key, {'file': fname, 'raised': '{}: {}'.format(type(e).__name__, e)})
        # own reader: cell, counts, positions in chemorder order
        name, latt, counts, pos = R.read_poscar(text)
        want = np.array([sup.pos[i] for l in sup.chemorder for i in l]).reshape((-1, 3))
        if not (np.allclose(latt, sup.lattice, atol=1e-12) and counts == [len(l) for l in sup.chemorder]
                and pos.shape == want.shape and np.all(np.abs(R.wrap(pos - want)) < 1e-12)):
            ok = False
            V('poscar-content', key, {'file': fname, 'counts': counts, 'want': [len(l) for l in sup.chemorder]})
        if not name.startswith(nameline): V('poscar-name', key, {'file': fname, 'first line': name, 'expected start': nameline})
        return ok

    nfiles = 0
    if 'reference' in sd:
        nfiles += readback('POSCAR', sd['reference'], 'reference', 'Defect-free reference')
    elif 'POSCAR' in files:
        V('unexpected-file', 'POSCAR', 'no reference supercell was given')
    for t in sorted(states):
        d = dirof.get(t)
        if d is None: continue
        k = 'state:' + ctag(t)
        nfiles += readback(d + '/POSCAR', states[t], k, t)
        if files.get(d + '/INCAR', '').split('\n')[0] != 'SYSTEM = ' + t: V('incar-system', k, files.get(d + '/INCAR', '')[:80])
        if links.get(d + '/POTCAR') != '../POTCAR': V('symlink', k + ':POTCAR', links.get(d + '/POTCAR'))
        if kpoints and links.get(d + '/KPOINTS') != '../KPOINTS': V('symlink', k + ':KPOINTS', links.get(d + '/KPOINTS'))
    if kpoints and 'KPOINTS' not in files: V('file-missing', 'KPOINTS', 'symlinks point to ../KPOINTS')
    if not kpoints and ('KPOINTS' in files or any(n.endswith('/KPOINTS') for n in links)): V('unexpected-file', 'KPOINTS', 'KPOINTS disabled')
    for n, tgt in links.items():
        if tgt not in ('../POTCAR', '../KPOINTS'): V('symlink', 'link:' + n, tgt)
    for scr in ('trans.pl', 'nebmake.pl'):
        if scr not in files: V('file-missing', scr, 'script not bundled')
        elif not modes[scr] & 0o100: V('not-executable', scr, oct(modes[scr]))
    if 'Vasp.pm' not in files: V('file-missing', 'Vasp.pm', 'module used by nebmake.pl not bundled')
    if 'YAMLdef' not in opts and 'supercell.yaml' not in files: V('file-missing', 'supercell.yaml', 'default option')
    if 'trans.pl' in files:
        with open(os.path.join(os.path.dirname(supercell.__file__), 'trans.pl')) as f:
            if f.read() != files['trans.pl']: V('script-differs', 'trans.pl', 'bundled script is not the package file')

    # ---- Makefile
    rules, norecipe = {}, []
    if 'Makefile' not in files: V('file-missing', 'Makefile', '')
    else:
        mk = files['Makefile']
        if '# structure of NEB runs:' not in mk: V('makefile', 'marker', 'template marker missing')
        tail = mk.split('# structure of NEB runs:')[-1]
        for line in tail.split('\n'):
            if not line.strip(): continue
            mm = re.match(r'^(\S+):\s*(.*)$', line)
            if not mm: V('makefile', 'line', line); continue
            if mm.group(1) in rules: V('makefile', 'rule-twice:' + mm.group(1), line)
            rules[mm.group(1)] = mm.group(2).split()
        for var, scr in (('makeneb', 'nebmake.pl'), ('transform', 'trans.pl')):
            if not re.search(r'^{} := "\./{}"$'.format(var, re.escape(scr)), mk, re.M): V('makefile', 'variable:' + var, 'does not name ./' + scr)
        # pattern rules with a recipe that runs the transformation script on the prerequisites
        patterns = [re.compile('^' + re.escape(mm.group(1)).replace('%', '.+') + '$')
                    for mm in re.finditer(r'^(\S*%\S*):[^\n]*\n\t@\$\(transform\) \$\^ > \$@', mk, re.M)]
        norecipe = sorted(tg for tg in rules if not any(pt.match(tg) for pt in patterns))
        if norecipe:
            V('makefile-no-recipe', 'transitionname=' + transname,
              {'targets without a matching pattern rule "$(transform) $^ > $@"': norecipe[:6], 'count': len(norecipe)})
    statedirs = {dirof[t] for t in states if t in dirof}
    for target, pres in sorted(rules.items()):
        for p in pres:
            if p in files: continue
            d, _, f = p.rpartition('/')
            if f == 'CONTCAR' and d in statedirs: continue
            V('makefile-prerequisite', 'rule:' + target, {'prerequisite': p, 'problem': 'neither in the archive nor <state directory>/CONTCAR'})

    # ---- transitions: endpoint files, transformation files, perl
    tmp = tempfile.mkdtemp(prefix='verif_c30_')
    nperl = nontrivial = 0
    neblist, jobs = {}, []
    try:
        if 'trans.pl' in files:
            with open(os.path.join(tmp, 'trans.pl'), 'w') as f: f.write(files['trans.pl'])
        for t in sorted(transitions):
            d = dirof.get(t)
            if d is None: continue
            kt = 'trans:' + ctag(t)
            tm = transmapping[t]
            if files.get(d + '/INCAR', '').split('\n')[0] != 'SYSTEM = ' + t: V('incar-system', kt, files.get(d + '/INCAR', '')[:80])
            if links.get(d + '/POTCAR') != '../POTCAR': V('symlink', kt + ':POTCAR', links.get(d + '/POTCAR'))
            for which, idx, lead in (('init', 0, 'initial '), ('final', 1, 'final ')):
                k = kt + ':' + which
                end = transitions[t][idx]
                mp = tm[idx] if len(tm) > idx else None
                given, ref = d + '/POSCAR.' + which, d + '/POS.' + which
                target = d + '/POSCAR.' + which
                if mp is None:
                    # unmapped (escape) endpoint: the POSCAR itself must be in the archive, no rule, no trans file
                    nfiles += readback(given, end, k, lead + t)
                    if ref in files or d + '/trans.' + which in files or target in rules:
                        V('unmapped-endpoint-files', k, 'POS/trans/rule present for an endpoint without mapping')
                    outcomes.add(('unmapped', which))
                    continue
                nfiles += readback(ref, end, k, lead + t)
                if ref not in files: continue          # reported as file-missing by readback
                if given in files: V('mapped-endpoint-files', k, 'POSCAR.{} given although it is to be made from the relaxed state'.format(which))
                stag, g, mapping = mp
                sdir = dirof.get(stag)
                tf = d + '/trans.' + which
                if tf not in files: V('file-missing', k, tf); continue
                if rules.get(target) != [tf, '{}/CONTCAR'.format(sdir)]:
                    V('makefile-rule', k, {'rule': rules.get(target), 'expected': [tf, '{}/CONTCAR'.format(sdir)]})
                neblist.setdefault(sdir, set()).add(d)
                tlines = files[tf].split('\n')
                if tlines[0] != sdir: V('trans-header', k, {'first line': tlines[0], 'state directory': sdir})
                # independent reading of the file: rot, trans, flat mapping
                try:
                    rot = np.array([[int(x) for x in tlines[r].split()] for r in (1, 2, 3)])
                    tr = np.array([float(x) for x in tlines[4].split()])
                    flat = [int(x) for x in tlines[5].split()]
                    shift = np.cumsum([0] + [len(l) for l in end.chemorder])
                    wantflat = [int(mi + shift[c]) for c, cm in enumerate(mapping) for mi in cm]
                    if not (np.all(rot == g.rot) and np.allclose(tr, g.trans, atol=1e-15) and flat == wantflat):
                        V('trans-file', k, {'file': tf, 'mapping in file': flat[:12], 'expected': wantflat[:12]})
                except Exception as e:
                    V('trans-file', k, {'file': tf, 'unreadable': str(e)}); continue
                if 'trans.pl' not in files or sdir is None or sdir + '/POSCAR' not in files: continue
                ecounts = R.read_poscar(files[ref])[2]
                ident = bool(np.all(rot == np.eye(3, dtype=int)) and np.allclose(tr, 0) and flat == list(range(len(flat))))
                # quick tier: the CONTCAR-with-velocities variant only for the first transformation of the archive
                for variant in (('poscar', 'contcar') if (case.get('tier') == 'thorough' or not jobs) else ('poscar',)):
                    src = files[sdir + '/POSCAR']
                    if variant == 'contcar':      # what VASP writes: blank line + velocities after the positions
                        src = src + ' \n' + ''.join('  0.00000000E+00  0.00000000E+00  0.00000000E+00\n' for _ in range(sum(ecounts)))
                    n = len(jobs)
                    with open(os.path.join(tmp, 't{}'.format(n)), 'w') as f: f.write(files[tf])
                    with open(os.path.join(tmp, 'c{}'.format(n)), 'w') as f: f.write(src)
                    jobs.append((k + ':' + variant, variant, which, files[ref], ident,
                                 bool(np.all(rot == np.eye(3, dtype=int))), flat == list(range(len(flat)))))
            # every endpoint is either given or has a rule
            for which in ('init', 'final'):
                have, rule = (d + '/POSCAR.' + which) in files, (d + '/POSCAR.' + which) in rules
                if have == rule: V('endpoint-source', kt + ':' + which, {'file in archive': have, 'Makefile rule': rule})
        # one shell per case runs `perl trans.pl <trans file> <CONTCAR>` for every job (cheaper than forking python)
        if jobs:
            script = ''.join('{perl} trans.pl t{n} c{n} > o{n} 2> e{n}; echo $? > r{n}\n'.format(perl=PERL, n=n) for n in range(len(jobs)))
            subprocess.run(['/bin/sh', '-c', script], cwd=tmp)
        for n, (kv, variant, which, reftext, ident, rotid, mapid) in enumerate(jobs):
            nperl += 1
            rd = lambda x: open(os.path.join(tmp, x + str(n))).read() if os.path.exists(os.path.join(tmp, x + str(n))) else ''
            rc, err, out = rd('r').strip(), rd('e'), rd('o')
            if rc != '0' or err.strip():
                V('perl-failed', kv, {'rc': rc, 'stderr': err[:300]}); continue
            try:
                oname, olatt, ocounts, opos = R.read_poscar(out)
            except Exception as e:
                V('perl-output-unreadable', kv, str(e)); continue
            ename, elatt, ecounts, epos = R.read_poscar(reftext)
            # tolerance 1e-8 on direct coordinates modulo 1: the files carry 16 decimals; trans.pl works in doubles
            if not (np.allclose(olatt, elatt, atol=1e-12) and ocounts == ecounts and opos.shape == epos.shape
                    and np.all(np.abs(R.wrap(opos - epos)) < 1e-8)):
                bad = [] if opos.shape != epos.shape else [int(x) for x in np.nonzero(np.abs(R.wrap(opos - epos)).max(axis=1) >= 1e-8)[0]]
                V('perl-endpoint', kv, {'counts': [ocounts, ecounts], 'lines that differ': bad[:10]})
            elif variant == 'poscar':
                if not ident: nontrivial += 1
                outcomes.add(('perl-ok', which, ident, rotid, mapid))
        # end to end: unpack the archive, let the state POSCARs stand in for the relaxed CONTCARs, and let GNU make
        # build the endpoints through the archive's own Makefile and ./trans.pl (quick: first transition only)
        mtargets = sorted(tg for tg in rules if tg.rpartition('/')[0] in tagmap and tagmap[tg.rpartition('/')[0]] in transitions)
        if case.get('tier') != 'thorough': mtargets = [tg for tg in mtargets if tg.rpartition('/')[0] == mtargets[0].rpartition('/')[0]]
        if mtargets and not norecipe and os.path.exists(MAKE):
            mk_dir = os.path.join(tmp, 'mk')
            for dname in sorted(dirs): os.makedirs(os.path.join(mk_dir, dname), exist_ok=True)
            os.makedirs(mk_dir, exist_ok=True)
            for fname, text in files.items():
                with open(os.path.join(mk_dir, fname), 'w') as f: f.write(text)
                os.chmod(os.path.join(mk_dir, fname), modes[fname] & 0o777)
            for sdir in statedirs:
                if sdir + '/POSCAR' in files: shutil.copy(os.path.join(mk_dir, sdir, 'POSCAR'), os.path.join(mk_dir, sdir, 'CONTCAR'))
            pm = subprocess.run([MAKE, '-s'] + mtargets, cwd=mk_dir, capture_output=True, text=True)
            nperl += len(mtargets)
            if pm.returncode != 0 or pm.stderr.strip():
                V('make-failed', 'make', {'rc': pm.returncode, 'stderr': pm.stderr[:300], 'targets': mtargets[:4]})
            else:
                for tg in mtargets:
                    d, which = tg.rpartition('/')[0], tg.rpartition('.')[2]
                    kv = 'trans:' + ctag(tagmap[d]) + ':' + which + ':make'
                    try:
                        with open(os.path.join(mk_dir, tg)) as f: oname, olatt, ocounts, opos = R.read_poscar(f.read())
                        ename, elatt, ecounts, epos = R.read_poscar(files[d + '/POS.' + which])
                        if not (np.allclose(olatt, elatt, atol=1e-12) and ocounts == ecounts and opos.shape == epos.shape
                                and np.all(np.abs(R.wrap(opos - epos)) < 1e-8)):
                            V('make-endpoint', kv, {'target': tg, 'problem': 'made file is not the transition endpoint'})
                        else: outcomes.add(('make-ok', which))
                    except Exception as e:
                        V('make-endpoint', kv, {'target': tg, 'problem': '{}: {}'.format(type(e).__name__, e)})
        for target in rules:
            d = target.rpartition('/')[0]
            if d not in tagmap or tagmap[d] not in transitions or not re.match(r'.*/POSCAR\.(init|final)$', target):
                V('makefile-target', 'rule:' + target, 'target is not an endpoint of a transition directory')
        # NEBlist files
        for sdir in statedirs:
            want = sorted(neblist.get(sdir, ()))
            got = files.get(sdir + '/NEBlist')
            if (got is None) != (not want) or (got is not None and [x for x in got.split('\n') if x] != want):
                V('neblist', 'state:' + ctag(tagmap[sdir]), {'file': got, 'expected': want})
    finally:
        shutil.rmtree(tmp, ignore_errors=True)
    return {'states': len(files), 'transitions': nfiles + nperl + len(rules), 'execs': 1 + nperl,
            'outcomes': ['{}:{}:{}'.format(kind, cname, o) for o in outcomes], 'nontrivial': nontrivial, 'violations': viols,
            'sample': {'case': pre, 'members': len(files) + len(dirs) + len(links), 'poscars_read_back': nfiles,
                       'perl_runs': nperl, 'makefile_rules': len(rules), 'nonidentity_transformations_reproduced': nontrivial}}
