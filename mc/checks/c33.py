"""
C33 -- the Monte Carlo sampler's state is a function of the occupation.

E2 explorer on the real MonteCarloSampler.  The state graph is the hypercube of occupations of a small supercell;
canon(state) = occupation.  From EVERY occupation as start state every operation of the menu is applied to a sampler
started there, and the result is compared with a second sampler object freshly start()ed on the new occupation.

Menu (what the docstrings of update()/deltaE_trial() allow: iterables of sites to occupy / unoccupy; "does not check
whether the same site appears in either iterable multiple times" -> no site is named twice, the vacancy is never
named; sites already in the requested state MAY be named and must be no-ops):
   flips   ([i],[]) or ([],[i]) for every site
   swaps   ([i],[j]) for every unoccupied i, occupied j
   multi   every (occsites, unoccsites), |.| <= 2 each, disjoint, drawn from ALL non-vacancy sites
Depth 2 (two updates without restart): all states x all menu pairs for supercells with <= 4 mobile sites; for the
8-site supercells the start states with counting index = 0 mod 17 and flips+swaps for both steps.

Oracles after every transition: occ, E, clustercount (all interactions incl. barrier interactions), occupied /
unoccupied sets (as sets; vacancy in neither), and deltaE_trial over the flips+swaps menu of the new state equal
those of the fresh sampler (<= 4 sites: after every transition; 8 sites: after flips and swaps);
deltaE_trial(op) == E(after) - E(before).  Values: sqrt(prime) tables (non-degenerate, so any miscount shows).
"""
import itertools
import numpy as np
from mc.refmodels import energy as en

PID = 'C33'
ENGINE = 'E2'
TECHNIQUE = 'explicit-state exploration of the occupation hypercube on the real sampler vs a freshly started sampler'
RULE = ('state = occupation (all 2^n, or 2^(n-1) with a vacancy); every menu operation from every state; depth-2 histories '
        'as stated; non-trivial = transitions that change the occupation and the energy')
ASSUMPTIONS = ['callers do not name a site twice in one update/trial and never name the vacancy (docstrings)',
               'tolerance 1e-10 on energies of O(100): sums of the same values in different order',
               'samplers with a jump network are built with generic KRA/TS values']
TOL = 1e-10


def _configs(tier):
    # (supercell, icut, order, vacancy sites, with jump network?)
    if tier == 'quick':
        return [('B2AB211sB', 2, 3, [None, 0, 1], [False, True]), ('B2AB211m', 2, 3, [None, 2], [False, True]),
                ('HCP211', 2, 3, [None, 0, 3], [False, True]),
                ('FCC2I', 2, 3, [None, 5], [False, True])]
    return [('B2AB211sB', 2, 3, [None, 0, 1], [False, True]), ('B2AB211sA', 2, 3, [None, 1], [False, True]),
            ('HCP211', 2, 4, [None, 0, 1, 2, 3], [False, True]), ('B2AB211m', 2, 3, [None, 0, 1, 2, 3], [False, True]),
            ('FCCskew4', 2, 3, [None, 0, 2], [False, True]), ('FCCO211sPd', 2, 3, [None, 0, 1], [False, True]),
            ('FCC2I', 2, 3, [None, 0, 5], [False, True]), ('FCC2I', 3, 3, [None, 3], [False, True]),
            ('B2AB221sB', 2, 3, [None, 2], [False, True]), ('HCP221', 2, 3, [None, 6], [False, True])]


def _stride(tier, nm):
    # 8-site supercells, quick tier: the (<=2 in, <=2 out) menu is applied from every 4th occupation of each chunk (counting order),
    # flips and swaps from every occupation; thorough: everything from every occupation
    return 4 if (tier == 'quick' and nm > 4) else 1


def BOUNDS(tier):
    return {'configs(supercell,cutoff interval,order,vacancy sites,jump network)': _configs(tier),
            'spectator occupations': 'all', 'start states': 'all occupations', 'menu': 'flips, swaps, all (<=2 in, <=2 out) incl. no-op names' + (' (8-site supercells: multi menu from every 4th occupation)' if tier == 'quick' else ''),
            'depth': 2, 'values': 'sqrt(prime) tables'}


def cases(tier):
    out = []
    for name, icut, order, vacs, jns in _configs(tier):
        sup = en.build_supercell(name)
        nm, ns = len(sup.mobilepos), len(sup.specpos)
        for vac in vacs:
            nstates = 2 ** (nm - (vac is not None))
            nchunk = max(1, nstates // 16) if nm > 4 else (nstates if nm > 2 else 1)
            for jn in jns:
                for sb in itertools.product((0, 1), repeat=ns):
                    for ch in range(nchunk):
                        out.append({'key': '{}:cut{}o{}:vac{}:{}:s{}:chunk{}of{}'.format(name, icut, order, '-' if vac is None else vac,
                                                                                     'jn' if jn else 'nojn', ''.join(map(str, sb)) or '-', ch, nchunk),
                                    'sup': name, 'icut': icut, 'order': order, 'vac': vac, 'jn': jn, 'socc': list(sb),
                                    'chunk': ch, 'nchunk': nchunk, 'multi_stride': _stride(tier, nm), 'cost': nstates / nchunk * nm ** 3 * (2 if jn else 1)})
    return out


# ------------------------------------------------------------------------------------------------
def opstr(op):
    return 'occ{}unocc{}'.format(list(op[0]), list(op[1])).replace(' ', '')


def menu_basic(occ, vac):
    ops = []
    n = len(occ)
    for i in range(n):
        if i == vac: continue
        ops.append(((i,), ()) if occ[i] == 0 else ((), (i,)))
    for i in range(n):
        for j in range(n):
            if i == vac or j == vac: continue
            if occ[i] == 0 and occ[j] == 1: ops.append(((i,), (j,)))
    return ops


def menu_multi(n, vac):
    sites = [i for i in range(n) if i != vac]
    subs = [()] + [(i,) for i in sites] + list(itertools.combinations(sites, 2))
    ops = []
    for a in subs:
        for b in subs:
            if set(a) & set(b) or (not a and not b): continue
            ops.append((a, b))
    return ops


def model_apply(occ, op):
    new = occ.copy()
    for i in op[0]: new[i] = 1
    for i in op[1]: new[i] = 0
    return new


def observe(smp):
    return {'occ': np.asarray(smp.occ).tolist(), 'E': float(smp.E()), 'cc': np.asarray(smp.clustercount).tolist(),
            'oset': sorted(int(x) for x in smp.occupied_set), 'uset': sorted(int(x) for x in smp.unoccupied_set)}


class Fresh:
    """table of observations of a freshly started sampler, by occupation"""

    def __init__(self, smp, vac):
        self.smp, self.vac, self.tab = smp, vac, {}

    def get(self, occ):
        k = tuple(int(x) for x in occ)
        r = self.tab.get(k)
        if r is None:
            self.smp.start(np.array(k, dtype=int))
            r = observe(self.smp)
            r['trials'] = [float(self.smp.deltaE_trial(a, b)) for a, b in menu_basic(k, self.vac)]
            self.tab[k] = r
        return r


def compare(smp, fresh, want_occ, vac, with_trials):
    """list of (what, detail) differences between the history sampler and the fresh table entry"""
    ref = fresh.get(want_occ)
    got = observe(smp)
    out = []
    if got['occ'] != [int(x) for x in want_occ]: out.append(('occ', [got['occ'], [int(x) for x in want_occ]]))
    if abs(got['E'] - ref['E']) > TOL: out.append(('E', [got['E'], ref['E']]))
    if got['cc'] != ref['cc']: out.append(('clustercount', [got['cc'], ref['cc']]))
    if got['oset'] != [i for i, o in enumerate(want_occ) if o == 1] or got['oset'] != ref['oset']: out.append(('occupied_set', [got['oset'], ref['oset']]))
    if got['uset'] != [i for i, o in enumerate(want_occ) if o == 0] or got['uset'] != ref['uset']: out.append(('unoccupied_set', [got['uset'], ref['uset']]))
    if with_trials and not out:
        for (a, b), w in zip(menu_basic(want_occ, vac), ref['trials']):
            g = float(smp.deltaE_trial(a, b))
            if abs(g - w) > TOL:
                out.append(('deltaE_trial-after', [opstr((a, b)), g, w])); break
    return out


def run_history(setup, socc, start, ops):
    """replay: list of violations of one history (used by --replay)"""
    smp, fr = setup.sampler(socc), Fresh(setup.sampler(socc), setup.vac)
    occ = np.array(start, dtype=int)
    smp.start(occ.copy())
    out = []
    for op in ops:
        op = (tuple(op[0]), tuple(op[1]))
        e0 = float(smp.E()); de = float(smp.deltaE_trial(*op))
        smp.update(*op)
        occ = model_apply(occ, op)
        diffs = compare(smp, fr, occ, setup.vac, True)
        if abs(de - (fr.get(occ)['E'] - e0)) > TOL: diffs.append(('deltaE_trial-vs-dE', [de, fr.get(occ)['E'] - e0]))
        for what, det in diffs:
            out.append({'oracle': what, 'key': 'replay', 'detail': det})
    return out


def evaluate(case):
    setup = en.Setup(case['sup'], case['icut'], case['order'], case['vac'], case['jn'])
    socc = np.array(case['socc'], dtype=int)
    vac, nm = setup.vac, setup.nm
    base = setup.label(socc)
    if 'history' in case:
        v = run_history(setup, socc, case['start'], case['history'])
        for x in v: x['key'] = '{}:start{}:{}'.format(base, en.bits(case['start']), ';'.join(opstr(o) for o in case['history']))
        return {'violations': v}
    smp = setup.sampler(socc)
    fresh = Fresh(setup.sampler(socc), vac)
    small = nm <= 4
    multi = menu_multi(nm, vac)
    allocc = list(en.all_occupations(nm, vac))
    mine = [o for n, o in enumerate(allocc) if n % case['nchunk'] == case['chunk']]
    viols, seen = [], set()
    ntrans, nontriv, outcomes = 0, 0, set()

    def bad(what, start, hist, det):
        kind = ';'.join('multi' if (len(o[0]) + len(o[1]) > 2 or len(o[0]) == 2 or len(o[1]) == 2) else ('swap' if len(o[0]) + len(o[1]) == 2 else 'flip') for o in hist)
        if (what, kind) in seen: return
        seen.add((what, kind))
        viols.append({'oracle': what, 'key': '{}:start{}:{}'.format(base, en.bits(start), ';'.join(opstr(o) for o in hist)), 'detail': det,
                      'case': dict(case, start=[int(x) for x in start], history=[[list(o[0]), list(o[1])] for o in hist])})

    def step(occ, op, hist, with_trials):
        """apply op to smp (already in state occ); returns new occupation or None when an oracle failed"""
        nonlocal ntrans, nontriv
        e0 = float(smp.E())
        de = float(smp.deltaE_trial(*op))
        smp.update(*op)
        new = model_apply(occ, op)
        ntrans += 1
        diffs = compare(smp, fresh, new, vac, with_trials)
        e1 = fresh.get(new)['E']
        if abs(de - (e1 - e0)) > TOL: diffs.append(('deltaE_trial-vs-dE', [de, e1 - e0]))
        if np.any(new != occ) and abs(e1 - e0) > 1e-9: nontriv += 1
        outcomes.add(round(e1, 9))
        for what, det in diffs: bad(what, hist[0], hist[1], det)
        return None if diffs else new

    for n, start in enumerate(mine):
        basic = menu_basic(start, vac)
        basicset = set(basic)
        idx = n * case['nchunk'] + case['chunk']
        ops1 = basic + ([o for o in multi if o not in basicset] if n % case.get('multi_stride', 1) == 0 else [])
        for op in ops1:
            smp.start(start.copy())
            step(start, op, (start, [op]), small or op in basicset)
        # depth 2
        if small:
            first, second = ops1, None
        elif idx % 17 == 0:
            first, second = basic, 'basic'
        else:
            continue
        for op1 in first:
            smp.start(start.copy())
            mid = step(start, op1, (start, [op1]), False)
            if mid is None: continue
            ops2 = menu_basic(mid, vac) if second == 'basic' else (menu_basic(mid, vac) + [o for o in multi if o not in set(menu_basic(mid, vac))])
            for op2 in ops2:
                smp.start(start.copy()); smp.update(*op1)
                step(mid, op2, (start, [op1, op2]), small)
    return {'states': len(mine), 'transitions': ntrans, 'execs': ntrans, 'outcomes': [str(o) for o in outcomes], 'nontrivial': nontriv,
            'violations': viols, 'sample': {'case': case['key'], 'classes': len(setup.classes), 'jumps': len(smp.jumps) if smp.jumps else 0,
                                            'interactions': int(len(smp.interactvalue)), 'energy_interactions': int(smp.Nenergy)}}
