"""
C21 -- jump networks are complete, closed and obstruction-aware
        (Crystal.jumpnetwork / Crystal.jumpnetwork2lattice / Crystal.nnlist).

Input-lattice explorer (E1).  A node is (crystal, re-description matrix, species, cutoff interval, obstruction
request).  The continuous parameters are enumerated by region abstraction: the network can only change when the
cutoff crosses a neighbour distance or the obstruction distance crosses a perpendicular distance of an
other-species atom to a jump segment; both sets of critical values are computed here by brute force and one
representative (the midpoint) of every open interval is run through the real code.

Reference (R-geom, mc/refmodels/bravais.py): lattice points enumerated in a range derived from the
reciprocal-lattice heights (valid for any skewed cell), no symmetry used to *generate* anything; symmetry
only enters as union-find over the already complete jump list.
"""
import itertools
import numpy as np
from onsager import crystal
from mc import catalog
from mc.refmodels import bravais as bv

PID = 'C21'
ENGINE = 'E1'
TECHNIQUE = ('exhaustive enumeration of (crystal x unimodular re-description x species x cutoff interval x obstruction '
             'interval) on the real Crystal.jumpnetwork, compared with a brute-force lattice-point model')
RULE = ('one cutoff per open interval between consecutive distinct same-species neighbour distances (below the 1st '
        'shell ... between 4th and 5th), one obstruction distance per open interval between consecutive distinct '
        'perpendicular distances (foot inside the closed segment) below the longest jump, as scalar and as per-species '
        'list; nontrivial = calls whose expected network is non-empty and, for obstruction requests, where the request '
        'removes at least one jump and keeps at least one')
LEVEL_TEXT = ('complete for the listed crystals/descriptions up to the 4th shell: every threshold region of both continuous '
              'parameters is visited, so within the bounds the statement is decided, not sampled')
LEVEL_NOTE = ('Crystal.G of the crystal under test is taken as "the space group" (its correctness is C18; for skewed noreduce '
              'cells gengroup returns a set that is not even closed under composition: measured per case, tagged G-open); lattice and basis are read from the constructed Crystal object')
ASSUMPTIONS = [
    'ties are excluded: a cutoff equal to a neighbour distance and an obstruction distance equal to a perpendicular '
    'distance are not in the alphabet; the default closestdistance=0 is a tie when a jump passes exactly through an '
    'other-species atom (perpendicular distance 0) -- those jumps are treated as "either answer accepted" and the '
    'observed behaviour is recorded in the outcomes',
    'obstruction is the documented one: another species\' atom whose perpendicular foot lies inside the closed jump '
    'segment and whose perpendicular distance is below the request; atoms beyond the segment ends never obstruct; an atom '
    'whose foot is EXACTLY a segment end is a tie (either answer accepted) when it alone decides the verdict',
    'per-species requests are lists (the only container the code/docstring accept); the entry of the mobile species itself '
    'must be ignored and is set to 7.0',
    'Crystal.G is trusted to consist of symmetry operations (C18); site images are recomputed here from rot/trans only',
    'violation keys end in ;ctx=<tags> when the INPUT (not the outcome) breaks a precondition of the algorithm, measured '
    'independently: G-open = Crystal.G not closed under composition; jump-range = a jump below the cutoff needs a lattice '
    'index beyond round(cutoff/|a_i|)+1; obst-range = an obstructing atom of the request lies beyond that index range. Tags '
    'never change a verdict; an obstruction variant is not reported again when the same oracle already fails for the plain '
    'request at the same cutoff',
]

NSHELL = 4
TOL = 1e-7

# extra crystals (three species, so that per-species obstruction lists matter); not in the shared catalogue
A = np.array
EXTRA = {
    'PEROV3': lambda: crystal.Crystal(np.eye(3), [[np.zeros(3)], [0.5 * np.ones(3)],
                                                  [A([0.5, 0.5, 0.]), A([0.5, 0., 0.5]), A([0., 0.5, 0.5])]], ['A', 'B', 'O']),
    'TETP3': lambda: crystal.Crystal(np.diag([1., 1., 1.3]), [[np.zeros(3)], [A([0.5, 0.5, 0.45])],
                                                              [A([0.5, 0., 0.2]), A([0., 0.5, 0.2])]], ['A', 'B', 'O']),
    'OBL3': lambda: crystal.Crystal(A([[1., 0.3], [0., 1.1]]), [[np.zeros(2)], [A([0.5, 0.4])], [A([0.3, 0.8]), A([0.75, 0.15])]],
                                    ['A', 'B', 'C']),
}


def base_crystal(name):
    return EXTRA[name]() if name in EXTRA else catalog.get(name)


QUICK_SKIP = {'B2AB_O', 'B2AOB'}     # three species x 6 interstitial sites: the closestdistance product costs minutes (thorough only)


def all_names(tier='thorough'):
    return [n for n in catalog.names() + list(EXTRA) if not (tier == 'quick' and n in QUICK_SKIP)]


def build(name, mk):
    """mk = 'cat' (the catalogue crystal as constructed, reduced) or the key of a unimodular matrix M: the same
    crystal described by lattice.M, built with noreduce=True"""
    base = base_crystal(name)
    if mk == 'cat': return base
    M = bv.mparse(mk)
    Minv = np.linalg.inv(M)
    latt = np.dot(base.lattice, M)
    basis = [[np.dot(Minv, u) for u in bc] for bc in base.basis]
    return crystal.Crystal(latt, basis, list(base.chemistry), noreduce=True)


# quick tier: crystals with several species (large obstruction alphabets) or many mobile atoms get 4 re-descriptions
# instead of 9 (the lists are written into BOUNDS); thorough: THOROUGH_SHORT crystals use the full quick list
QUICK_SHORT = {'PYROPE', 'HCP_OT', 'BCC_T', 'PEROV3', 'TETP3', 'NBO', 'FCC_OT', 'FCC_O', 'FCC_T', 'BCC_O', 'B2AB', 'WURTZ2',
               'OT_FCC', 'TET4I', 'PMMM_G', 'TRIC2NR', 'PM_TILT', 'P1_3', 'RECTMX'}
QUICK_TINY = {'PYROPE', 'BCC_T', 'HCP_OT', 'OT_FCC', 'FCC_OT', 'PEROV3', 'TETP3'}
THOROUGH_SHORT = {'PYROPE', 'HCP_OT', 'BCC_T', 'PEROV3', 'TETP3', 'NBO', 'FCC_OT', 'OT_FCC', 'B2AB_O', 'B2AOB', 'TET4I', 'PMMM_G'}


def matrices_for(name, dim, tier):
    if tier == 'quick':
        ms = [bv.mkey(M) for M in bv.redescriptions(dim, 'quick')]
        if name in QUICK_SHORT: ms = [ms[1], ms[dim + 1], ms[dim + 4]]   # E_01, E_0d(-1), big[2] (big[0] costs minutes on multi-species cells)
        if name in QUICK_TINY: ms = ms[:2]      # many-atom cells: catalogue description + two elementary shears only
    else:
        ms = [bv.mkey(M) for M in bv.redescriptions(dim, 'quick' if name in THOROUGH_SHORT else 'thorough')]
    return ['cat'] + ms


def _dims():
    return {n: base_crystal(n).dim for n in all_names()}


def BOUNDS(tier):
    d3 = [bv.mkey(M) for M in bv.redescriptions(3, tier)]
    d2 = [bv.mkey(M) for M in bv.redescriptions(2, tier)]
    return {'crystals': all_names(tier), 'redescriptions_3d': ['cat'] + d3, 'redescriptions_2d': ['cat'] + d2,
            'fewer_redescriptions': ({'crystals': sorted(QUICK_SHORT), 'list': matrices_for('NBO', 3, 'quick')} if tier == 'quick' else
                                     {'crystals': sorted(THOROUGH_SHORT), 'list': matrices_for('NBO', 3, 'thorough')}),
            'species': 'every species of every crystal',
            'cutoff': 'midpoint of (0,d1),(d1,d2),...,(d4,d5); d_k = k-th distinct same-species neighbour distance '
                      '(brute force, merged within 1e-7); ties excluded',
            'closestdistance': 'default 0; scalar and list: midpoint of every open interval between consecutive distinct '
                               'perpendicular distances below the longest jump of the network'
                               + (' (first 3 intervals and the last one per cutoff)' if tier == 'quick' else '')
                               + '; three-species crystals: full product of the per-species interval representatives'
                               + (' (first 2 + last per species)' if tier == 'quick' else ' (first 4 + last per species)'),
            'nnlist': 'every atom of the species at every cutoff of the alphabet'}


def cases(tier):
    out = []
    dims = _dims()
    for name in all_names(tier):
        base = base_crystal(name)
        for mk in matrices_for(name, dims[name], tier):
            for chem in range(base.Nchem):
                nat = len(base.basis[chem])
                out.append({'key': '{};M={};chem={}'.format(name, mk, chem), 'crys': name, 'M': mk, 'chem': chem,
                            'tier': tier, 'cost': nat * nat * (3 if base.Nchem > 1 else 1) * (2 if base.dim == 3 else 1)})
    return out


# ---------------------------------------------------------------- helpers
def site_image(g, basis_c, u):
    """index of the atom of one species at rot.u + trans (mod lattice)"""
    v = np.dot(g.rot, u) + g.trans
    for k, w in enumerate(basis_c):
        d = v - w
        if np.all(np.abs(d - np.round(d)) < 1e-6): return k
    raise RuntimeError('group operation does not map the species onto itself')


def jkey(i, j, dx):
    return (int(i), int(j)) + bv.vkey(dx)


def interval_reps(crit, top, keep=None):
    """midpoints of the open intervals between consecutive values of [0]+crit+[top] (crit sorted, < top);
    zero-width intervals (crit[0]==0) are dropped.  Returns list of (interval index, value).
    keep = None: all; else (nfirst): the first nfirst intervals and the last one"""
    pts = [0.] + [c for c in crit if c > TOL] + [top]
    reps = [(k, 0.5 * (pts[k] + pts[k + 1])) for k in range(len(pts) - 1) if pts[k + 1] - pts[k] > 10 * TOL]
    if keep is not None and len(reps) > keep + 1: reps = reps[:keep] + reps[-1:]
    return reps


def obstruction_alphabet(Nchem, chem, perp, dmax, tier):
    """list of (descriptor, argument passed to jumpnetwork or None for default, per-species thresholds list)"""
    alph = [('default', None, [0. if c != chem else -1. for c in range(Nchem)])]
    if Nchem < 2: return alph
    others = [c for c in range(Nchem) if c != chem]
    allv = [e[1] for lst in perp.values() for e in lst if e[1] < dmax * (1 - 1e-6)]
    for k, x in interval_reps(bv.distinct_sorted(allv, TOL), dmax, 3 if tier == 'quick' else None):
        alph.append(('s{}'.format(k), x, [x if c != chem else -1. for c in range(Nchem)]))
        alph.append(('l{}'.format(k), [x if c != chem else 7.0 for c in range(Nchem)], [x if c != chem else -1. for c in range(Nchem)]))
    if len(others) >= 2:
        per = []
        for c in others:
            vc = [e[1] for lst in perp.values() for e in lst if e[0] == c and e[1] < dmax * (1 - 1e-6)]
            per.append(interval_reps(bv.distinct_sorted(vc, TOL), dmax, 2 if tier == 'quick' else 4))
        for combo in itertools.product(*per):
            arg = [7.0] * Nchem
            thr = [-1.] * Nchem
            for c, (k, x) in zip(others, combo):
                arg[c] = x; thr[c] = x
            alph.append(('p' + '.'.join(str(k) for k, x in combo), arg, thr))
    return alph


# ---------------------------------------------------------------- the node oracle
def check_network(crys, chem, cutoff, arg, thr, ref, perp, G):
    """run the real jumpnetwork and compare.  Returns (list of (oracle, detail), digest info)"""
    fails = []
    latt, basis_c = crys.lattice, crys.basis[chem]
    jn = crys.jumpnetwork(chem, cutoff) if arg is None else crys.jumpnetwork(chem, cutoff, arg)
    # expected: mandatory / forbidden / don't care (ties)
    must, forbid, tie = set(), set(), set()
    endsens = set()    # jumps whose obstruction status hinges on an atom whose foot is exactly a segment end
    for k in ref:
        state = state_noend = 0   # 0 free, 1 tie, 2 obstructed
        for (c, d, n, end) in perp.get(k, ()):
            if thr[c] < 0: continue
            st = 2 if d < thr[c] - TOL else (1 if abs(d - thr[c]) <= TOL else 0)
            state = max(state, st)
            if not end: state_noend = max(state_noend, st)
        if state != state_noend:
            # the verdict hinges on an atom whose perpendicular foot is exactly a segment end: the package decides with an
            # exact floating-point comparison (0 <= x.dx <= dx.dx), so on a rotated cell round-off picks the side: a tie
            endsens.add(k); tie.add(k)
        else:
            (must, tie, forbid)[state].add(k)
    flat = [jkey(i, j, dx) for cl in jn for (i, j), dx in cl]
    got = set(flat)
    if len(flat) != len(got):
        dup = sorted(k for k in got if flat.count(k) > 1)
        fails.append(('duplicate-jump', {'n': len(flat) - len(got), 'example': dup[0]}))
    missing = sorted(must - got)
    extra = sorted(got - must - tie)
    if missing:
        fails.append(('jumps-missing', {'n_missing': len(missing), 'n_expected': len(must), 'n_got': len(got), 'example': missing[0]}))
    if extra:
        what = 'not-a-jump-below-cutoff' if any(k not in forbid for k in extra) else \
            ('obstructed-only-by-endpoint-foot' if all(k in endsens for k in extra) else 'obstructed')
        fails.append(('jumps-extra', {'n_extra': len(extra), 'kind': what, 'example': extra[0]}))
    tie_kept = len(tie & got)
    # every returned entry is internally consistent: dx = L(R + u_j - u_i) for an integer R
    for cl in jn:
        for (i, j), dx in cl:
            r = np.dot(crys.invlatt, dx) - (basis_c[j] - basis_c[i])
            if np.max(np.abs(r - np.round(r))) > 1e-6:
                fails.append(('jump-not-lattice', {'jump': jkey(i, j, dx)})); break
    # closure and orbit structure on what was returned
    uf = bv.UnionFind(got)
    notclosed = None
    byk = {}
    for cl in jn:
        for (i, j), dx in cl: byk[jkey(i, j, dx)] = (i, j, dx)
    imgs = [[site_image(g, basis_c, u) for u in basis_c] for g in G]
    for k, (i, j, dx) in byk.items():
        kr = jkey(j, i, -dx)
        if kr not in got:
            notclosed = notclosed or ('reversal', k)
        else:
            uf.union(k, kr)
        for g, im in zip(G, imgs):
            kg = jkey(im[i], im[j], np.dot(g.cartrot, dx))
            if kg not in got:
                notclosed = notclosed or ('group', k)
            else:
                uf.union(k, kg)
    if notclosed:
        fails.append(('not-closed', {'under': notclosed[0], 'jump': notclosed[1]}))
    libclasses = set(frozenset(jkey(i, j, dx) for (i, j), dx in cl) for cl in jn)
    if len(libclasses) != len(jn) or sum(len(c) for c in libclasses) != len(got):
        fails.append(('classes-overlap', {'nclasses': len(jn)}))
    if not notclosed and libclasses != uf.classes():
        fails.append(('class-partition', {'lib': sorted(len(c) for c in libclasses), 'orbits': sorted(len(c) for c in uf.classes())}))
    # lattice form
    jl = crys.jumpnetwork2lattice(chem, jn)
    bad = None
    if len(jl) != len(jn) or any(len(a) != len(b) for a, b in zip(jl, jn)):
        bad = 'shape'
    else:
        for cl, cll in zip(jn, jl):
            for ((i, j), dx), ((i2, j2), R) in zip(cl, cll):
                R = np.asarray(R)
                if (i, j) != (i2, j2) or not np.issubdtype(R.dtype, np.integer) or R.shape != (crys.dim,):
                    bad = 'index/dtype'; break
                if np.max(np.abs(np.dot(latt, R + basis_c[j] - basis_c[i]) - dx)) > 1e-8:
                    bad = 'dx != L(R+u_j-u_i) for {}'.format(jkey(i, j, dx)); break
                k = jkey(i, j, dx)
                if k in ref and not np.array_equal(R, ref[k][3]):
                    bad = 'R differs from brute force for {}'.format(k); break
            if bad: break
    if bad: fails.append(('lattice-roundtrip', {'what': bad}))
    info = {'n': len(got), 'classes': sorted(len(c) for c in libclasses), 'expected': len(must), 'removed': len(forbid),
            'ties': len(tie), 'ties_kept': tie_kept}
    return fails, info


def evaluate(case):
    name, mk, chem = case['crys'], case['M'], case['chem']
    tier = case.get('tier', 'quick')
    crys = build(name, mk)
    latt, basis = crys.lattice, crys.basis
    G = sorted(crys.G, key=lambda g: (tuple(g.rot.ravel()), tuple(np.round(g.trans, 6))))
    dists = bv.neighbour_distances(latt, basis[chem], NSHELL + 1)
    cuts = [(0, 0.5 * dists[0])] + [(k, 0.5 * (dists[k - 1] + dists[k])) for k in range(1, NSHELL + 1)]
    mingap = min(b - a for a, b in zip([0.] + dists[:-1], dists))
    only_cut, only_obs = case.get('icut'), case.get('obs')
    viols, outcomes = [], set()
    states = transitions = nontriv = 0
    seen = set()
    # context tags (never change a verdict; they make the key say which documented precondition of the
    # algorithm the input breaks, so that distinct root causes get distinct signatures):
    #   G-open      Crystal.G of this description is not closed under composition (measured here)
    #   jump-range  a jump below the cutoff has a lattice-vector component beyond round(cutoff/|a_i|)+1
    #   obst-range  an obstructing atom of this request lies beyond that range from the start site
    Gset = set(crys.G)
    g_open = not all((g * h) in Gset for g in G for h in G)
    alen = [np.linalg.norm(latt[:, i]) for i in range(crys.dim)]

    def add(oracle, key, detail, icut, obs, ctx=()):
        if ctx: key = key + ';ctx=' + '+'.join(ctx)
        if (oracle, key) in seen: return
        seen.add((oracle, key))
        sub = {'key': case['key'], 'crys': name, 'M': mk, 'chem': chem, 'tier': tier, 'icut': icut}
        if obs is not None: sub['obs'] = obs
        viols.append({'oracle': oracle, 'key': key, 'detail': detail, 'case': sub})

    for icut, cutoff in cuts:
        if only_cut is not None and icut != only_cut: continue
        ref = bv.brute_jumps(latt, basis[chem], cutoff)
        perp = bv.perp_table(latt, basis, chem, ref) if crys.Nchem > 1 else {}
        dmax = max([np.linalg.norm(v[2]) for v in ref.values()] or [0.])
        ckey = '{};M={};chem={};cut={}'.format(name, mk, chem, icut)
        reach = [int(np.round(cutoff / a)) + 1 for a in alen]
        jump_range = any(abs(int(v[3][d])) > reach[d] for v in ref.values() for d in range(crys.dim))
        base_ctx = (['G-open'] if g_open else []) + (['jump-range'] if jump_range else [])
        # nnlist for every atom of the species
        if only_obs is None:
            for i in range(len(basis[chem])):
                states += 1
                try:
                    nn = crys.nnlist((chem, i), cutoff)
                    want = sorted(bv.vkey(v[2]) for v in ref.values() if v[0] == i)
                    have = sorted(bv.vkey(x) for x in nn)
                    transitions += 1
                    if want != have:
                        add('nnlist', ckey, {'atom': i, 'expected': len(want), 'got': len(have),
                                             'missing': len(set(want) - set(have)), 'extra': len(set(have) - set(want)),
                                             'duplicates': len(have) - len(set(have)), 'cutoff': cutoff}, icut, None,
                            ['jump-range'] if jump_range else [])
                    outcomes.add('nn|{}|{}|{}|{}'.format(name, chem, icut, len(have)))
                except Exception as e:
                    add('exception', ckey + ';nnlist', '{}: {}'.format(type(e).__name__, e), icut, None)
        default_failed = set()
        for desc, arg, thr in obstruction_alphabet(crys.Nchem, chem, perp, dmax, tier):
            if only_obs is not None and desc != only_obs: continue
            states += 1
            okey = ckey if desc == 'default' else ckey + ';cd=' + desc
            try:
                fails, info = check_network(crys, chem, cutoff, arg, thr, ref, perp, G)
            except Exception as e:
                add('exception', okey, '{}: {}'.format(type(e).__name__, e), icut, desc)
                continue
            transitions += 5
            obst_range = any(thr[c] >= 0 and d < thr[c] and any(abs(n[q]) > reach[q] for q in range(crys.dim))
                             for lst in perp.values() for (c, d, n, end) in lst)
            ctx = base_ctx + (['obst-range'] if obst_range else [])
            for orc, det in fails:
                # the same oracle already failing for the plain request at this cutoff is the minimal failing
                # input; the obstruction variants of it are not reported again
                if desc == 'default': default_failed.add(orc)
                elif orc in default_failed: continue
                det = dict(det); det['cutoff'] = cutoff; det['closestdistance'] = arg
                add(orc, okey, det, icut, desc, ctx)
            if info['expected'] > 0 and (desc == 'default' or (info['removed'] > 0)):
                nontriv += 1
            outcomes.add('jn|{}|{}|{}|{}|{}|{}|tie{}:{}'.format(name, chem, icut, desc, info['n'], info['classes'],
                                                               info['ties'], info['ties_kept']))
    return {'states': states, 'transitions': transitions, 'execs': states, 'outcomes': sorted(outcomes),
            'nontrivial': nontriv, 'violations': viols,
            'sample': {'case': case['key'], 'shell_distances': [round(d, 6) for d in dists], 'min_gap': round(mingap, 8),
                       'cutoffs': [round(c, 6) for k, c in cuts], 'group_order': len(G), 'group_closed': not g_open}}
