"""
C19 — cell reduction recovers the same crystal from any supercell description.

Explorer E1: 14 primitive crystals (12 of the catalogue + two spin-ordered ones) x ALL Hermite-normal-form
supercells of determinant 2-3 (quick) / 2-6 (thorough) x 3 unimodular re-bases (one left-handed) x atom orders (reversal, all cyclic shifts, all 6 orders of
three-atom lists) x single-coordinate noise (+-3e-10, +4e-9).
Every description is written down from the definition by R-geom (no package code) and handed to the real
constructor with reduction enabled; the result is compared with the primitive description.
"""
import re
import numpy as np
from onsager import crystal
from mc import catalog
from mc.refmodels import geom
from mc.checks import c18      # genBZG memo

PID = 'C19'
ENGINE = 'E1'
TECHNIQUE = 'exhaustive enumeration of supercell re-descriptions (all HNF matrices of the stated determinants) through the real constructor'
RULE = ('case = (crystal, determinant, chunk of HNF matrices); per HNF: all atom orders of the alphabet on the plain description, 3 orders on the two other re-bases, and every '
        'single-coordinate noise pattern (+-3e-10 or +4e-9 on one coordinate of one atom) on the plain description. '
        'nontrivial = descriptions whose reduction really had to remove a translation (all of them: det >= 2) and whose '
        'input differs from the plain HNF description (re-based, re-ordered or noisy)')
LEVEL_TEXT = 'exhaustive over all HNF supercells of the stated determinants and the stated re-description alphabet'
LEVEL_NOTE = 'noise amplitudes are two fixed values below the 1e-8 threshold; primitive crystals are 14 fixed ones'
ASSUMPTIONS = [
    'Crystal.genBZG memoised per distinct lattice (see C18)',
    'the supercells are built from the primitive crystal object (its lattice and basis); the reference atom counts and group '
    'orders are the fixed table EXPECT (space-group knowledge, cross-checked with the brute-force group), not package output',
    'additional oracle same-lattice: the reduced lattice must generate the same point lattice as the primitive one '
    '(implied by "recovers the same crystal"; reported under its own oracle name)',
]

CRYSTALS = ['FCC', 'BCC', 'HCP', 'DIAMOND', 'OMEGA', 'B2AB', 'WURTZ2', 'P1', 'RHOM', 'HONEY', 'RECTM', 'SQ2MM', 'AFM', 'UUDD']
# noise letters (index -> signed amplitude): +-3e-10 (DESIGN 5.1) and one larger value that is still below the 1e-8
# threshold but above threshold/det, which the threshold rescaling inside reduce() has to absorb
NOISES = [3e-10, -3e-10, 4e-9, 'all4.5e-9']    # last: +4.5e-9 on EVERY copy of one primitive atom (one coordinate)
# independent reference for the primitive descriptions: atoms per species and the order of the space group modulo
# lattice translations (Fm-3m, Im-3m, P6_3/mmc, Fd-3m, P6/mmm, Pm-3m, P6_3mc, P-1, R-3m, p6mm, p2mm, p4mm; the two
# spin crystals: Pm-3m and Pmmm doubled by the translation that flips all spins).  Fixed numbers, so that a defect of
# the reduction that also hits the primitive description cannot hide in the comparison.
EXPECT = {'FCC': ([1], 48), 'BCC': ([1], 48), 'HCP': ([2], 24), 'DIAMOND': ([2], 48), 'OMEGA': ([3], 24), 'B2AB': ([1, 1], 48),
          'WURTZ2': ([2, 2], 12), 'P1': ([2], 2), 'RHOM': ([1], 12), 'HONEY': ([2], 12), 'RECTM': ([2], 4), 'SQ2MM': ([1, 2], 8),
          'AFM': ([2], 96), 'UUDD': ([4], 16)}


def primitive(name):
    if name == 'AFM':   # B2-type antiferromagnet: one species, scalar spins +1 / -1 (not reducible because of the spins)
        return crystal.Crystal(np.eye(3), [np.zeros(3), 0.5 * np.ones(3)], ['U'], spins=[1, -1])
    if name == 'UUDD':  # up-up-down-down chain: u -> u + c/4 maps positions and the first spin, but is not a symmetry
        return crystal.Crystal(np.diag([1., 1.1, 2.3]), [np.array([0., 0., z]) for z in (0., 0.25, 0.5, 0.75)], ['U'],
                               spins=[1, 1, -1, -1])
    return catalog.get(name)


def dets(tier):
    return [2, 3] if tier == 'quick' else [2, 3, 4, 5, 6]


def BOUNDS(tier):
    return {'crystals': CRYSTALS, 'determinants': dets(tier),
            'HNF_counts_3D': {d: len(geom.hnf_matrices(3, d)) for d in dets(tier)},
            'HNF_counts_2D': {d: len(geom.hnf_matrices(2, d)) for d in dets(tier)},
            'rebases_3D': [U.tolist() for U in geom.REBASES3], 'rebases_2D': [U.tolist() for U in geom.REBASES2],
            'atom_orders': 're-base 0: reversal + all cyclic shifts per species list (+ the two remaining orders for lists of three '
                           'atoms, i.e. all 6); re-bases 1, 2: as generated, reversed, rotated by one',
            'noise': '{} on one direct coordinate of one atom, every (atom, coordinate, value), on re-base 0 / order id'.format(NOISES) +
                     ('' if tier == 'quick' else '; for det 5, 6 only the atoms of the first two supercell images (deterministic cut)')}


def cases(tier):
    out = []
    for name in CRYSTALS:
        dim = 2 if name in ('HONEY', 'RECTM', 'SQ2MM') else 3
        for det in dets(tier):
            H = geom.hnf_matrices(dim, det)
            chunk = 5 if dim == 3 else 12
            for b in range(0, len(H), chunk):
                out.append({'key': '{}:det{}:hnf{}-{}'.format(name, det, b, min(b + chunk, len(H)) - 1), 'name': name, 'det': det,
                            'range': [b, min(b + chunk, len(H))], 'tier': tier, 'cost': det * det * (min(b + chunk, len(H)) - b)})
    return out


_PERM3 = {'p021': (0, 2, 1), 'p102': (1, 0, 2)}     # the two orders of 3 atoms that are neither a rotation nor the reversal


def reorder(lis, order):
    """order: 0 / 'id'; 1 / 'rev' reversal; 'rotK' rotate left by K (modulo the length); 'p021','p102' for lists of
    exactly three atoms (with id, rev, rot1, rot2 these are all 6 orders of 3 atoms; longer lists: all cyclic shifts
    + reversal, DESIGN 5.1)"""
    lis = list(lis)
    if order in (0, 'id'): return lis
    if order in (1, 'rev'): return lis[::-1]
    if order == 2: order = 'rot1'
    if order.startswith('rot'):
        k = int(order[3:]) % len(lis)
        return lis[k:] + lis[:k]
    if len(lis) == 3: return [lis[i] for i in _PERM3[order]]
    return lis


def order_specs(maxlen):
    return ['id', 'rev'] + ['rot{}'.format(k) for k in range(1, maxlen)] + ['p021', 'p102']


def describe(prim, S, ir, order, noise):
    """(lattice, basis, spins) of the supercell description; noise = None or (species, atom, coordinate, sign)"""
    dim = prim.dim
    L, basis = geom.supercell_description(prim.lattice, prim.basis, S)
    spins = None
    if prim.spins is not None:
        det = int(round(abs(np.linalg.det(S))))
        spins = [[s for _ in range(det) for s in sl] for sl in prim.spins]     # same order as supercell_description
    U = (geom.REBASES3 if dim == 3 else geom.REBASES2)[ir]
    L, basis = geom.rebase(L, basis, U)
    basis = [reorder(b, order) for b in basis]
    if spins is not None: spins = [reorder(s, order) for s in spins]
    if noise is not None:
        c, a, k, ni = noise
        if isinstance(NOISES[ni], str):
            # every copy of primitive atom a is displaced by the same 4.5e-9 (below the threshold): in the reduced cell that is
            # det x 4.5e-9 relative to the other atoms, which only the rescaled threshold of reduce() absorbs
            nprim = len(prim.basis[c])
            basis[c] = [u.copy() for u in basis[c]]
            for n, u in enumerate(basis[c]):
                if n % nprim == a % nprim: u[k] += 4.5e-9
        else:
            basis[c][a] = basis[c][a].copy(); basis[c][a][k] += NOISES[ni]
    return L, basis, spins


def check_one(prim, ref, S, ir, order, noise):
    L, basis, spins = describe(prim, S, ir, order, noise)
    try:
        new = crystal.Crystal(L, basis, chemistry=list(prim.chemistry), spins=spins)
    except Exception as e:
        return [('exception', '{}: {}'.format(type(e).__name__, e))], None
    fails = []
    counts = [len(b) for b in new.basis]
    if counts != ref['counts']:
        fails.append(('species-counts', 'atoms per cell {} instead of {}'.format(counts, ref['counts'])))
    vpa = new.volume / max(new.N, 1)
    if abs(vpa - ref['vpa']) > 1e-9 * ref['vpa']:
        fails.append(('volume-per-atom', '{:.12f} instead of {:.12f}'.format(vpa, ref['vpa'])))
    if not np.linalg.det(new.lattice) > 0:
        fails.append(('right-handed', 'det(lattice) = {:.6f}'.format(np.linalg.det(new.lattice))))
    if len(new.G) != ref['nG']:
        fails.append(('group-order', '|G| = {} instead of {}'.format(len(new.G), ref['nG'])))
    M = np.dot(np.linalg.inv(prim.lattice), new.lattice)
    if np.max(np.abs(M - np.round(M))) > 1e-7 or abs(abs(np.linalg.det(np.round(M))) - 1) > 1e-9:
        fails.append(('same-lattice', 'prim.lattice^-1 . lattice = {} is not integer unimodular'.format(np.round(M, 6).tolist())))
    return fails, (new.N, len(new.G))


def variants(prim, S, tier):
    dim = prim.dim
    det = int(round(abs(np.linalg.det(S))))
    maxlen = det * max(len(atoms) for atoms in prim.basis)
    three = any(len(atoms) * det == 3 for atoms in prim.basis)
    for order in order_specs(maxlen):          # every order on the plain description
        if order.startswith('p') and not three: continue
        yield 0, order, None
    for ir in (1, 2):                          # the re-based descriptions with three orders
        for order in ('id', 'rev', 'rot1'):
            yield ir, order, None
    for c, atoms in enumerate(prim.basis):
        na = len(atoms) * det
        lim = na if (tier == 'quick' or det <= 4) else min(na, 2 * len(atoms))
        for a in range(lim):
            for k in range(dim):
                for ni in range(len(NOISES)):
                    if isinstance(NOISES[ni], str) and (a >= len(atoms) or len(atoms) < 2): continue     # one pattern per primitive atom
                    yield 0, 'id', (c, a, k, ni)


def evaluate(case):
    prim = primitive(case['name'])
    dim = prim.dim
    tier = case.get('tier', 'quick')
    counts, nG = EXPECT[case['name']]
    ref = {'counts': counts, 'vpa': abs(np.linalg.det(prim.lattice)) * (prim.N / float(sum(counts))) / prim.N, 'nG': nG}
    H = geom.hnf_matrices(dim, case['det'])
    viols, seen, outcomes = [], set(), set()
    states = nontriv = 0
    if [len(b) for b in prim.basis] != counts or len(prim.G) != nG:
        viols.append({'oracle': 'primitive-description', 'key': case['name'],
                      'detail': 'the primitive description itself is built with {} atoms per species and |G| = {}; expected {} and {}'.format(
                          [len(b) for b in prim.basis], len(prim.G), counts, nG), 'case': dict(case)})
    if 'single' in case:
        s = case['single']
        todo = [(np.array(s['S']), [(s['ir'], s['order'], tuple(s['noise']) if s['noise'] else None)])]
    else:
        todo = [(S, list(variants(prim, S, tier))) for S in H[case['range'][0]:case['range'][1]]]
    for S, vlist in todo:
        sname = 'S=' + ';'.join(','.join(str(int(x)) for x in row) for row in S)
        for ir, order, noise in vlist:
            states += 1
            if ir or order not in (0, 'id') or noise: nontriv += 1
            fails, res = check_one(prim, ref, S, ir, order, noise)
            outcomes.add('{}:{}'.format(case['name'], res))
            for orc, det in fails:
                nz = 'none' if noise is None else 'sp{}:atom{}:x{}:{}'.format(noise[0], noise[1], noise[2], NOISES[noise[3]] if isinstance(NOISES[noise[3]], str) else '{:+g}'.format(NOISES[noise[3]]))
                kind = re.sub(r'[-+]?\d+(\.\d+)?', '#', det)[:60]
                key = '{}:{}:rebase{}:order={}:noise={}|{}'.format(case['name'], sname, ir, order, nz, kind if orc == 'exception' else '')
                cls = (orc, kind)          # per case: the simplest input of every (oracle, kind of failure)
                if cls in seen: continue
                seen.add(cls)
                viols.append({'oracle': orc, 'key': key, 'detail': det,
                              'case': {'key': key, 'name': case['name'], 'det': case['det'], 'tier': tier,
                                       'single': {'S': S.tolist(), 'ir': ir, 'order': order, 'noise': list(noise) if noise else None}}})
    return {'states': states, 'transitions': states * 5, 'execs': states, 'nontrivial': nontriv, 'outcomes': sorted(outcomes),
            'violations': viols, 'sample': {'case': case['key'], 'descriptions': states}}
