"""
C20 — site symmetry analysis gives exact orbits and invariant bases.

(a) catalogue + generated family: for every site the real pointG / Wyckoff / Wyckoffpos / VectorBasis /
    SymmTensorBasis / FullVectorBasis / addbasis results are compared with R-geom: the brute-force space group,
    union-find orbits, and the Reynolds (group-average) projectors.
(b) every subgroup of O_h (98), D_6h (54), D_4 (10, 2D), D_6 (16, 2D), enumerated by closure (generator pairs
    alone reach only 91 / 50 of the 3D ones; the closure is continued element by element until nothing new
    appears), in several hosts / orientations, installed as the site point group (attribute pointG; G likewise so that
    FullVectorBasis sees the same group) of a real one-atom crystal and pushed through the real methods.
"""
import copy, hashlib, math
import numpy as np
from onsager import crystal
from mc import catalog
from mc.refmodels import geom
from mc.checks import c18     # shared glue: family enumeration, genBZG memo, keys

PID = 'C20'
ENGINE = 'E1'
TECHNIQUE = ('exhaustive enumeration of sites of small crystals and of the full subgroup lattices of the holohedries; '
             'real site-symmetry results compared with brute-force orbits and Reynolds projectors')
RULE = ('case = catalogue crystal (x task) | family block | (host lattice, orientation) with all its subgroups; '
        'nontrivial = sites / subgroups whose stabiliser is neither trivial nor the whole holohedry of the lattice')
LEVEL_TEXT = ('exhaustive over the finite sets stated in bounds; projector equality decides "basis of exactly the invariant '
              'subspace" (dimension, span and orthonormality at once)')
LEVEL_NOTE = 'lattice parameters are one fixed generic table; the invariant-subspace oracle is exact linear algebra'
ASSUMPTIONS = [
    'Crystal.genBZG memoised per distinct lattice (see C18)',
    'the reference orbits / stabilisers come from the brute-force space group of the crystal\'s own reduced lattice and basis '
    '(C18 checks that crys.G equals it)',
    '(b): assigning crys.pointG / crys.G on a copy of a real one-atom crystal is the seam; every subgroup of the holohedry is a '
    'realisable site symmetry, the GroupOp objects are the ones the real constructor produced',
    'addbasis is only exercised with orbits that do not coincide with existing atoms',
    'tolerances: positions 1e-8 (crystal threshold); projectors / orthonormality 1e-9',
]
TOL, ALG = 1e-8, 1e-9

CAT_ALL = ['SC', 'FCC', 'BCC', 'TET', 'BCT', 'ORTH', 'MONO', 'TRIC', 'RHOM', 'HEXP', 'HCP', 'HCP15', 'DIAMOND', 'OMEGA',
           'ROMEGA', 'ROMEGA51', 'WURTZ', 'WURTZ2', 'B2', 'B2AB', 'L12', 'NBO', 'PYROPE', 'P1', 'RUMPLED2', 'FCC_OT', 'FCC_O',
           'FCC_T', 'BCC_O', 'BCC_T', 'HCP_OT', 'SQUARE', 'RECT', 'CRECT', 'TRIA', 'OBLIQUE', 'HONEY', 'RECTM', 'RECTM2',
           'TRIA2', 'KAGOME', 'SQ2MM', 'HEXM']
# fixed generic rotations for the re-oriented hosts of part (b)
def _rot3(axis, deg):
    a = np.array(axis, dtype=float); a /= np.linalg.norm(a)
    t = math.radians(deg)
    K = np.array([[0, -a[2], a[1]], [a[2], 0, -a[0]], [-a[1], a[0], 0]])
    return np.eye(3) + math.sin(t) * K + (1 - math.cos(t)) * np.dot(K, K)


def _rot2(deg):
    t = math.radians(deg)
    return np.array([[math.cos(t), -math.sin(t)], [math.sin(t), math.cos(t)]])


ORIENT3 = {'Q0': np.eye(3), 'Q1': _rot3((1, 2, 3), 37.), 'Q2': _rot3((-2, 1, 5), 111.)}
ORIENT2 = {'Q0': np.eye(2), 'Q1': _rot2(17.), 'Q2': _rot2(40.)}
HOSTS = [('cP', 'Q0'), ('cF', 'Q0'), ('cI', 'Q0'), ('cP', 'Q1'), ('cP', 'Q2'), ('hP', 'Q0'), ('hP', 'Q1'), ('hP', 'Q2'),
         ('tp', 'Q0'), ('tp', 'Q1'), ('tp', 'Q2'), ('hp', 'Q0'), ('hp', 'Q1'), ('hp', 'Q2')]
NSUB = {'cP': 98, 'cF': 98, 'cI': 98, 'hP': 54, 'tp': 10, 'hp': 16}

_N3 = {(1, 3): 'E', (1, -1): '2', (1, 0): '3', (1, 1): '4', (1, 2): '6', (-1, -3): 'i', (-1, 1): 'm', (-1, 0): '-3',
       (-1, -1): '-4', (-1, -2): '-6'}
_N2 = {(1, 2): 'E', (1, -2): '2', (1, -1): '3', (1, 0): '4', (1, 1): '6', (-1, 0): 'm'}


def pg_desc(cartrots):
    """hash-seed independent description of a point group: multiset of operation types, the mirror-line angles in
    2D, and a digest of the sorted rounded Cartesian matrices (pins the orientation)"""
    dim = cartrots[0].shape[0]
    names = {}
    angles = []
    for R in cartrots:
        k = (int(round(np.linalg.det(R))), int(round(np.trace(R))))
        nm = (_N3 if dim == 3 else _N2).get(k, '?')
        names[nm] = names.get(nm, 0) + 1
        if dim == 2 and nm == 'm':
            a = math.degrees(0.5 * math.atan2(R[1, 0] + R[0, 1], R[0, 0] - R[1, 1])) % 180.
            angles.append(round(a, 1) % 180.)
    rows = sorted(tuple(int(round(x * 1000)) for x in R.reshape(-1)) for R in cartrots)
    dg = hashlib.sha1(repr(rows).encode()).hexdigest()[:6]
    s = 'n{}:'.format(len(cartrots)) + '.'.join('{}x{}'.format(k, v) for k, v in sorted(names.items()))
    if angles: s += ':m@' + ','.join('{:g}'.format(a) for a in sorted(angles))
    return s + ':' + dg


# ------------------------------------------------------------------ oracles on one (crystal, site point group)
def check_bases(crys, ind, refrots, where):
    """real VectorBasis / vectlist / SymmTensorBasis of site `ind` against the Reynolds projectors of refrots"""
    fails = []
    dim = crys.dim
    Pv = geom.reynolds_vector(refrots)
    dv = int(round(np.trace(Pv)))
    try:
        vb = crys.VectorBasis(ind)
        vl = crys.vectlist(vb)
    except Exception as e:
        return [('vectorbasis-exception', where, '{}: {}'.format(type(e).__name__, e))], (dv, -1)
    if vl is None or len(vl) != dv or vb[0] != dv:
        fails.append(('vectorbasis-dim', where, 'VectorBasis dim {} / vectlist {} vectors, invariant subspace has dimension {}'.format(
            vb[0], None if vl is None else len(vl), dv)))
    else:
        if dv and np.max(np.abs(geom.gram(vl) - np.eye(dv))) > ALG:
            fails.append(('vectorbasis-orthonormal', where, 'gram {}'.format(np.round(geom.gram(vl), 6).tolist())))
        err = np.max(np.abs(geom.projector_of(vl, dim) - Pv))
        if err > ALG:
            fails.append(('vectorbasis-span', where, 'basis {} but invariant projector {} (err {:.2e})'.format(
                [np.round(v, 4).tolist() for v in vl], np.round(Pv, 4).tolist(), err)))
        # the documented meaning of the (dim, vect) pair: line direction (1) or plane normal (2)
        if dv == 1:
            if np.max(np.abs(np.outer(vb[1], vb[1]) - Pv)) > ALG and not any(f[0] == 'vectorbasis-span' for f in fails):
                fails.append(('vectorbasis-line', where, 'direction {}'.format(np.round(vb[1], 4).tolist())))
        if dv == 2 and dim == 3:
            if np.max(np.abs(np.eye(3) - np.outer(vb[1], vb[1]) - Pv)) > ALG:
                fails.append(('vectorbasis-normal', where, 'normal {}'.format(np.round(vb[1], 4).tolist())))
    Pt = geom.reynolds_symtensor(refrots)
    dt = int(round(np.trace(Pt)))
    try:
        tb = crys.SymmTensorBasis(ind)
    except Exception as e:
        fails.append(('tensorbasis-exception', where, '{}: {}'.format(type(e).__name__, e)))
        return fails, (dv, dt)
    if len(tb) != dt:
        fails.append(('tensorbasis-dim', where, '{} tensors, invariant subspace has dimension {}'.format(len(tb), dt)))
    else:
        if any(np.shape(T) != (dim, dim) or np.max(np.abs(T - T.T)) > ALG for T in tb):
            fails.append(('tensorbasis-symmetric', where, 'a basis tensor is not symmetric'))
        elif dt:
            if np.max(np.abs(geom.gram(tb) - np.eye(dt))) > ALG:
                fails.append(('tensorbasis-orthonormal', where, 'gram {}'.format(np.round(geom.gram(tb), 6).tolist())))
            err = np.max(np.abs(geom.projector_of([geom.symtensor_coords(T) for T in tb], Pt.shape[0]) - Pt))
            if err > ALG:
                fails.append(('tensorbasis-span', where, 'basis {} (err {:.2e})'.format([np.round(T, 4).tolist() for T in tb], err)))
    return fails, (dv, dt)


def check_fullvector(crys, perms, refrots, where, chemdesc=None):
    """real FullVectorBasis against the Reynolds projector on site vector fields; perms are flat atom permutations"""
    fails = []
    dim = crys.dim
    try:
        VBall, VVall = crys.FullVectorBasis()
    except Exception as e:
        return [('fullvector-exception', where, '{}: {}'.format(type(e).__name__, e))]
    off = 0
    for c, atoms in enumerate(crys.basis):
        N = len(atoms)
        pc = [[p[off + i] - off for i in range(N)] for p in perms]
        off += N
        P = geom.reynolds_field(pc, refrots, N)
        nb = int(round(np.trace(P)))
        VB, VV = crys.FullVectorBasis(c)
        w = where + ':chem{}'.format(c) + (':pg=' + chemdesc[c] if chemdesc else '')
        if len(VB) != len(VBall[c]) or (len(VB) and (not np.array_equal(VB, VBall[c]) or not np.array_equal(VV, VVall[c]))):
            fails.append(('fullvector-routes', w, 'FullVectorBasis(chem) differs from FullVectorBasis()[chem]'))
        if len(VB) != nb:
            fails.append(('fullvector-dim', w, '{} basis functions, invariant vector fields have dimension {}'.format(len(VB), nb)))
            continue
        if nb == 0: continue
        if np.shape(VB) != (nb, N, dim):
            fails.append(('fullvector-shape', w, 'shape {}'.format(np.shape(VB)))); continue
        err = np.max(np.abs(geom.projector_of(list(VB), N * dim) - P))
        if err > ALG:
            fails.append(('fullvector-span', w, 'sum_k |VB_k><VB_k| differs from the invariant-field projector by {:.2e}'.format(err)))
        ref = np.einsum('isa,jsb->abij', VB, VB)
        if np.shape(VV) != np.shape(ref) or np.max(np.abs(VV - ref)) > ALG:
            fails.append(('fullvector-VV', w, 'VV is not the outer product expansion of VB'))
    return fails


def site_name(crys, ind):
    x = np.dot(crys.lattice, crys.basis[ind[0]][ind[1]])
    return '{}@({})'.format(crys.chemistry[ind[0]], ','.join('{:.3f}'.format(v + 0.0 if abs(v) > 5e-4 else 0.0) for v in x))


def check_crystal(crys, name, wyck_positions, add_positions, lattice_holo=None, do_sites=True, maxorbit=None):
    """all part-(a) oracles on a real crystal.  Returns (fails, stats)"""
    fails = []
    dim, L = crys.dim, crys.lattice
    pos, spec, sp, idx = geom.flatten(crys.basis, crys.spins)
    bg = geom.brute_group(L, crys.basis, crys.spins, TOL, pointgroup=c18.lattice_pg(L))
    stats = {'sites': 0, 'nontrivial': 0, 'execs': 0, 'outcomes': set()}
    if len(bg) != len(crys.G):
        fails.append(('group-order', name, 'brute-force group has {} operations, crys.G {} (see C18)'.format(len(bg), len(crys.G))))
    brots = [geom.cartrot_of(L, o['rot']) for o in bg]
    bperms = [o['perm'] for o in bg]
    if do_sites: fails.extend(_check_sites(crys, name, bg, brots, bperms, pos, idx, stats, lattice_holo))
    fails.extend(_check_positions(crys, name, bg, pos, wyck_positions, add_positions, stats, maxorbit))
    return fails, stats


def _check_sites(crys, name, bg, brots, bperms, pos, idx, stats, lattice_holo):
    fails = []
    dim, L = crys.dim, crys.lattice
    # ---- Wyckoff sets == orbits
    orb = geom.orbits(len(pos), bperms)
    ref = frozenset(frozenset(idx[a] for a in o) for o in orb)
    if crys.Wyckoff != ref:
        fails.append(('wyckoff-orbits', name, 'Wyckoff {} vs brute-force orbits {}'.format(
            sorted(sorted(w) for w in crys.Wyckoff), sorted(sorted(w) for w in ref))))
    # ---- every site: point group fixes the site, is the complete stabiliser; invariant bases
    chemdesc = {}
    for a, ind in enumerate(idx):
        u = pos[a]
        stab = [k for k, o in enumerate(bg) if o['perm'][a] == a]
        srots = [brots[k] for k in stab]
        where = '{}:site={}:pg={}'.format(name, site_name(crys, ind), pg_desc(srots))
        chemdesc.setdefault(ind[0], set()).add(pg_desc(srots).rsplit(':', 1)[0])
        pG = sorted(crys.pointG[ind[0]][ind[1]], key=lambda g: (tuple(int(x) for x in np.asarray(g.rot).reshape(-1)),
                                                               tuple(np.round(np.asarray(g.trans, dtype=float), 6))))
        stats['sites'] += 1
        stats['execs'] += 3
        for g in pG:
            if np.shape(g.rot) != (dim, dim):
                fails.append(('pointG-shape', where, 'rot shape {}'.format(np.shape(g.rot)))); break
            d = np.dot(g.rot, u) + g.trans - u
            if np.max(np.abs(d)) > TOL or g.indexmap[ind[0]][ind[1]] != ind[1]:
                fails.append(('pointG-fixes-site', where + '|' + geom.opdesc(L, g.rot, g.trans),
                              'g.u - u = {}'.format(np.round(d, 9).tolist()))); break
        else:
            have = sorted(tuple(int(x) for x in np.asarray(g.rot).reshape(-1)) for g in pG)
            want = sorted(tuple(int(x) for x in bg[k]['rot'].reshape(-1)) for k in stab)
            if have != want:
                fails.append(('pointG-complete', where, 'site point group has {} operations, brute-force stabiliser {}'.format(len(have), len(want))))
            if any(np.max(np.abs(g.cartrot - geom.cartrot_of(L, g.rot))) > ALG for g in pG):
                fails.append(('pointG-cartrot', where, 'cartrot is not L rot L^-1'))
        if dim == 3 or not any(np.shape(g.rot) != (dim, dim) for g in pG):
            f, dims = check_bases(crys, ind, srots, where)
            fails.extend(f)
            stats['outcomes'].add('pg={}:dv{}:dt{}'.format(pg_desc(srots).rsplit(':', 1)[0], dims[0], dims[1]))
        if 1 < len(stab) and (lattice_holo is None or len(stab) < lattice_holo): stats['nontrivial'] += 1
    if not any(f[0] in ('pointG-shape',) for f in fails):
        fails.extend(check_fullvector(crys, bperms, brots, name, {c: '+'.join(sorted(v)) for c, v in chemdesc.items()}))
        stats['execs'] += 1
    return fails


def _check_positions(crys, name, bg, pos, wyck_positions, add_positions, stats, maxorbit=None):
    fails = []
    dim, L = crys.dim, crys.lattice
    # ---- Wyckoffpos: complete orbit, no duplicates, in cell
    bops = [(o['rot'], o['trans']) for o in bg]
    for p in wyck_positions:
        u = geom.pos_value(p)
        W = crys.Wyckoffpos(u)
        R = geom.point_orbit(L, bops, u, TOL)
        stats['execs'] += 1
        stats['outcomes'].add('wp{}'.format(len(W)))
        w = name + ':u=' + geom.pos_name(p)
        bad = None
        if len(W) != len(R): bad = 'returned {} positions, the orbit has {}'.format(len(W), len(R))
        else:
            W_ = np.array(W); R_ = np.array(R)
            d = W_[:, None, :] - R_[None, :, :]
            close = np.all(np.abs(d - np.round(d)) < 2 * TOL, axis=2)
            if not (np.all(close.sum(axis=0) == 1) and np.all(close.sum(axis=1) == 1)):
                bad = 'returned positions are not a duplicate-free list of the orbit'
            elif np.any(W_ < -TOL) or np.any(W_ >= 1.):
                bad = 'position outside the unit cell'
        if bad: fails.append(('wyckoffpos', w, bad))
    # ---- addbasis of a full orbit keeps the symmetry
    for p in add_positions:
        u = geom.pos_value(p)
        W = crys.Wyckoffpos(u)
        if maxorbit is not None and len(W) > maxorbit: continue
        d = np.array(W)[:, None, :] - pos[None, :, :]
        if np.any(np.all(np.abs(d - np.round(d)) < 1e-6, axis=2)): continue        # coincides with an atom: not a new site
        w = name + ':add=' + geom.pos_name(p)
        stats['execs'] += 1
        try:
            new = crys.addbasis(W)
        except Exception as e:
            fails.append(('addbasis-exception', w, '{}: {}'.format(type(e).__name__, e))); continue
        stats['outcomes'].add('add{}:{}'.format(len(W), len(new.G)))
        if len(new.G) != len(crys.G) or new.N != crys.N + len(W) or abs(new.volume - crys.volume) > ALG * crys.volume:
            fails.append(('addbasis-symmetry', w, '|G| {} -> {}, N {} + {} -> {}, volume {:.6f} -> {:.6f}'.format(
                len(crys.G), len(new.G), crys.N, len(W), new.N, crys.volume, new.volume)))
            continue
        a = sorted(tuple(int(round(x * 1e6)) for x in g.cartrot.reshape(-1)) for g in crys.G)
        b = sorted(tuple(int(round(x * 1e6)) for x in g.cartrot.reshape(-1)) for g in new.G)
        if a != b: fails.append(('addbasis-symmetry', w, 'the rotations of the group changed'))
        nw = frozenset(len(s) for s in new.Wyckoff if next(iter(s))[0] == new.Nchem - 1)
        if nw != frozenset([len(W)]):
            fails.append(('addbasis-orbit', w, 'added orbit of {} sites became Wyckoff sets of sizes {}'.format(len(W), sorted(nw))))
    return fails


# ------------------------------------------------------------------ part (b)
def host_crystal(latt, orient):
    L = geom.bravais(latt)
    Q = (ORIENT3 if L.shape[0] == 3 else ORIENT2)[orient]
    return crystal.Crystal(np.dot(Q, L), [np.zeros(L.shape[0])], noreduce=True)


def check_subgroups(latt, orient, only=None):
    fails, outcomes = [], set()
    crys = host_crystal(latt, orient)
    dim, L = crys.dim, crys.lattice
    ops = sorted(crys.G, key=lambda g: tuple(int(x) for x in g.rot.reshape(-1)))     # hash-seed independent order
    refrot = [geom.cartrot_of(L, g.rot) for g in ops]
    subs, npairs = geom.all_subgroups(refrot)
    if len(subs) != NSUB[latt]:
        raise RuntimeError('harness: {} subgroups for {} (expected {})'.format(len(subs), latt, NSUB[latt]))
    nontriv = execs = 0
    for H in subs:
        rots = [refrot[k] for k in sorted(H)]
        desc = pg_desc(rots)
        if only is not None and desc != only: continue
        where = '{}/{}:H={}'.format(latt, orient, desc)
        c = copy.copy(crys)
        Hops = frozenset(ops[k] for k in H)
        c.pointG = [[Hops]]
        c.G = Hops
        f, dims = check_bases(c, (0, 0), rots, where)
        fails.extend(f)
        fails.extend(check_fullvector(c, [[0]] * len(rots), rots, where))
        outcomes.add('{}:{}:dv{}:dt{}'.format(latt, desc.rsplit(':', 1)[0], dims[0], dims[1]))
        execs += 4
        if 1 < len(H) < len(ops): nontriv += 1
    return fails, {'states': len(subs), 'execs': execs, 'nontrivial': nontriv, 'outcomes': outcomes, 'pairs_only': npairs}


# ------------------------------------------------------------------ interface
FAM_SPINS = {'quick': {1: ['none', 'vx'], 2: ['none', 'vzx'], 3: ['none']},
             'thorough': {1: ['none', 's+', 'vx'], 2: ['none', 's+-', 'vzx'], 3: ['none', 'vz+-x']}}


def wyck_alphabet(dim, full):
    if full: return geom.positions(dim)
    keep = (0, 2, 3, 6)     # letters 0, 1/3, 1/2, .137
    return [p for p in geom.positions(dim, 2) if all(i in keep for i in p)]


def add_alphabet(dim, tier, catalogue):
    if not catalogue:
        return [(6, 2, 0), (3, 3, 0)] if dim == 3 else [(6, 2), (3, 3)]
    keep = (0, 1, 3, 6) if tier == 'quick' else (0, 1, 2, 3, 6)
    return [p for p in geom.positions(dim, None) if all(i in keep for i in p)]


def BOUNDS(tier):
    return {
        'catalogue': CAT_ALL,
        'catalogue_wyckoffpos': 'all of letters^dim (343 / 49 positions) ' + str(list(geom.POS_NAMES)),
        'catalogue_addbasis': 'positions over letters {} whose orbit has at most {} points and avoids the atoms'.format(
            [geom.POS_NAMES[i] for i in ((0, 1, 3, 6) if tier == 'quick' else (0, 1, 2, 3, 6))], ADD_MAXORBIT[tier]),
        'family': 'as C18 without NOSYM' + ('; unstrained members, n<=2, second atom with at most two non-zero coordinates' if tier == 'quick'
                                             else '; n<=3 with the C18 cut for n=3'),
        'family_spins': dict(FAM_SPINS[tier], note='quick: the spin pattern only with one species' if tier == 'quick' else ''),
        'family_wyckoffpos': 'letters {0,1/3,1/2,.137}^dim with at most two non-zero coordinates',
        'family_addbasis': '(.137,1/3,0) and (1/2,1/2,0) [2D: (.137,1/3), (1/2,1/2)] when the orbit has at most {} points'.format(FAM_MAXORBIT),
        'subgroups': {'hosts': HOSTS, 'counts': NSUB, 'orientations': 'Q0 identity; Q1,Q2 fixed generic rotations '
                      '(3D: 37 deg about (1,2,3), 111 deg about (-2,1,5); 2D: 17, 40 deg)'},
    }


ADD_MAXORBIT = {'quick': 8, 'thorough': 12}
FAM_MAXORBIT = 12


def cases(tier):
    out = []
    for latt, orient in HOSTS:
        out.append({'key': 'sub:{}/{}'.format(latt, orient), 'kind': 'sub', 'latt': latt, 'orient': orient, 'cost': NSUB[latt] * 5})
    for name in CAT_ALL:
        N = {'PYROPE': 12}.get(name, 4)
        out.append({'key': 'cat:{}:sites'.format(name), 'kind': 'cat', 'name': name, 'task': 'sites', 'cost': 400 * N})
        dim = 2 if name in ('SQUARE', 'RECT', 'CRECT', 'TRIA', 'OBLIQUE', 'HONEY', 'RECTM', 'RECTM2', 'TRIA2', 'KAGOME', 'SQ2MM', 'HEXM') else 3
        plist = add_alphabet(dim, tier, True)
        nb = 4 if dim == 3 else 1
        for b in range(nb):
            out.append({'key': 'cat:{}:add{}'.format(name, b), 'kind': 'cat', 'name': name, 'task': 'add',
                        'positions': [list(p) for p in plist[b::nb]], 'maxorbit': ADD_MAXORBIT[tier], 'cost': 300 * N})
    for dim in (2, 3):
        out.append({'key': 'fam:n1:{}D'.format(dim), 'kind': 'fam', 'dim': dim, 'n': 1, 'cost': 50})
        count = {}
        for blk in c18.family_blocks(tier, dim):
            if tier == 'quick' and blk['strain']: continue
            fam = (blk['latt'], blk['strain'], blk['n'])
            k = count[fam] = count.get(fam, -1) + 1
            c = dict(blk)
            c['kind'] = 'fam'
            c['key'] = 'fam:{}D:{}{}:n{}:block{}'.format(dim, blk['latt'], ('+' + blk['strain']) if blk['strain'] else '', blk['n'], k)
            c['cost'] = (geom.HOLOHEDRY_ORDER[blk['latt']] + 8) * len(blk['block']) * (0.3 if blk['strain'] else 1) * blk['n']
            out.append(c)
    for c in out: c['tier'] = tier
    return out


def family_decorations(case):
    tier = case.get('tier', 'quick')
    if case['n'] == 1:
        for d in c18.n1_decorations(case['dim']):
            if not d['nosym'] and d['spin'] in FAM_SPINS[tier][1] and not (tier == 'quick' and d['strain']): yield d
        return
    for d in c18.decorations_of(case):
        if d['nosym'] or d['spin'] not in FAM_SPINS[tier][case['n']]: continue
        if tier == 'quick' and d['spin'] != 'none' and d['species'] != 'AA': continue
        yield d


def _emit(viols, seen, fails, case_for):
    for orc, where, det in fails:
        # group repeats: same oracle and same point-group description (orientation digest included)
        cls = (orc, where.split(':pg=')[-1].split('|')[0] if ':pg=' in where else where.split(':H=')[-1] if ':H=' in where else '')
        if cls in seen: continue
        seen.add(cls)
        viols.append({'oracle': orc, 'key': where, 'detail': det, 'case': case_for})


def evaluate(case):
    viols, seen = [], set()
    kind = case['kind']
    if kind == 'sub':
        fails, st = check_subgroups(case['latt'], case['orient'], case.get('only'))
        for orc, where, det in fails:
            viols.append({'oracle': orc, 'key': where, 'detail': det,
                          'case': {'key': where, 'kind': 'sub', 'latt': case['latt'], 'orient': case['orient'],
                                   'only': where.split(':H=')[-1]}})
        return {'states': st['states'], 'transitions': st['execs'], 'execs': st['execs'], 'nontrivial': st['nontrivial'],
                'outcomes': sorted(st['outcomes']), 'violations': viols,
                'sample': {'host': case['key'], 'subgroups': st['states'], 'reached_by_generator_pairs_only': st['pairs_only']}}
    if kind == 'cat':
        crys = catalog.get(case['name'])
        dim = crys.dim
        if case['task'] == 'sites':
            fails, st = check_crystal(crys, case['name'], geom.positions(dim), [])
        else:
            # only orbits up to the stated size (cost), decided from the brute-force orbit
            bg = geom.brute_group(crys.lattice, crys.basis, crys.spins, TOL)
            bops = [(o['rot'], o['trans']) for o in bg]
            plist = [tuple(p) for p in case['positions']
                     if len(geom.point_orbit(crys.lattice, bops, geom.pos_value(tuple(p)), TOL)) <= case['maxorbit']]
            fails, st = check_crystal(crys, case['name'], [], plist, do_sites=False)
        _emit(viols, seen, fails, dict(case))
        return {'states': st['sites'] + (len(case.get('positions', ())) if case['task'] == 'add' else 0), 'transitions': st['execs'],
                'execs': st['execs'], 'nontrivial': st['nontrivial'], 'outcomes': sorted(st['outcomes']), 'violations': viols,
                'sample': {'crystal': case['key'], 'sites': st['sites'], 'real_calls_compared': st['execs']}}
    # family
    decos = [case['single']] if 'single' in case else list(family_decorations(case))
    states = execs = nontriv = 0
    outcomes = set()
    for d in decos:
        dim = d['dim']
        try:
            crys = c18.build_decoration(d)
        except Exception as e:
            fails = [('construct-exception', c18.deco_key(d), '{}: {}'.format(type(e).__name__, e))]
            _emit(viols, seen, fails, {'key': c18.deco_key(d), 'kind': 'fam', 'single': d}); continue
        fails, st = check_crystal(crys, c18.deco_key(d), wyck_alphabet(dim, False), add_alphabet(dim, None, False),
                                  geom.HOLOHEDRY_ORDER[d['latt']], maxorbit=FAM_MAXORBIT)
        states += st['sites']; execs += st['execs']; nontriv += st['nontrivial']; outcomes |= st['outcomes']
        _emit(viols, seen, fails, {'key': c18.deco_key(d), 'kind': 'fam', 'single': d})
    return {'states': states, 'transitions': execs, 'execs': execs, 'nontrivial': nontriv, 'outcomes': sorted(outcomes),
            'violations': viols, 'sample': {'case': case.get('key'), 'crystals': len(decos), 'sites': states}}
