"""
C17 -- Taylor3D / Taylor2D change of variables (rotatedirections / rotate / irotate) and inversion (inv).

Explorer E1.  Rotation: matrix alphabet (fixed invertible non-orthogonal matrices incl. det < 0, cond ~ 50,
scalings, + ALL signed permutation matrices) x parity-consistent expansions (every power of a term has the
parity of its radial order n and degree <= n: the domain the property states) in three representations
(as constructed / after reduce() / after reduce().separate()) x coefficient shapes.  For every matrix every
row of every npowtrans[n] is checked (|q|^(n-m) q^old == sum_new npowtrans[n][old,new] p^new with q = M p at a
unisolvent direction set), then   rotated(p) == original(M p)   per radial order at the unisolvent set
(reference: R-poly evaluation of the coefficient arrays actually held by the object, read through ind2pow)
and literally through __call__ on both sides at points x radii.  Edge oracles: rotate(M1) then rotate(M2) ==
rotate(M1.M2); rotate(M) then rotate(M^-1) == original.

Inversion: leading term (n0, l=0, A) with A from {1, generic scalar, generic 1x1, generic 2x2}, n0 in -2..2,
tails = all sets of <= 2 further terms (n0+j, l), j in 1..3, generic coefficients, requested orders
Nmax = -n0 + k, k in 0,1,2.  Reference: own truncated Neumann series in a graded polynomial algebra (which is
itself verified at every case to satisfy a . a^-1 = 1 through the order).  Oracles: per-n angular functions of
inv() == reference series at the unisolvent set; no term beyond Nmax; (a * a^-1).reduce() and
(a^-1 * a).reduce() == identity coefficient-wise through order k.  Cases whose kept series terms need angular
order > Lmax are outside the property (counted, not judged).
"""
import itertools, hashlib, json
import numpy as np
from mc.refmodels import poly
from mc.checks import c16 as base

PID = 'C17'
ENGINE = 'E1'
TECHNIQUE = ('exhaustive enumeration of a matrix alphabet (incl. all signed permutations) x parity-consistent expansions x '
             'representations for rotatedirections/rotate/irotate, and of (leading order, leading matrix, tail structure, '
             'requested order) for inv(), on the real Taylor3D/Taylor2D objects; oracle = independent change of variables / '
             'Neumann series evaluated at a rank-verified unisolvent point set, and coefficient-wise identity after reduce()')
RULE = ('rotation states = (dimension, matrix, entry set, representation, shape); inversion states = (dimension, n0, leading '
        'matrix, tail entry set, k); nontrivial = rotations by a non-identity matrix of a non-constant expansion resp. '
        'inversions with a non-empty tail that contributes within the requested order')
LEVEL_TEXT = ('rotation is linear in the entries and polynomial in the matrix entries of degree <= 4; all rows of the '
              'transformation tables are decided for each matrix of the alphabet, and every entry kind is rotated')
ASSUMPTIONS = [
    'rotation domain as stated by the property: n >= 0, every power of a term has the parity of n and degree <= n',
    'inversion is judged only when every kept term of the series has angular order <= Lmax (documented caveat emptor)',
    'matrices are O(1) (rows shorter than 1e-8 are treated as zero by powexp; not in the alphabet)',
]

LMAX = base.LMAX
TOL = base.TOL
PAR_ENTRIES = [(0, 0), (1, 1), (2, 0), (2, 2), (3, 1), (3, 3), (4, 0), (4, 2), (4, 4)]
REPS = ['raw', 'reduced', 'separated']


# ------------------------------------------------------------------------------------------- matrix alphabet
def _rot3(ax, ang):
    c, s = np.cos(ang), np.sin(ang)
    R = np.eye(3)
    i, j = [(1, 2), (0, 2), (0, 1)][ax]
    R[i, i], R[i, j], R[j, i], R[j, j] = c, -s, s, c
    return R


def fixed_matrices(dim):
    if dim == 3:
        Q1 = np.dot(_rot3(2, 0.7), _rot3(0, -0.4)); Q2 = np.dot(_rot3(1, 1.1), _rot3(2, 0.3))
        M = {'generic': np.array([[1.25, 0.5, 0.25], [-0.25, 0.9, 0.5], [-0.75, -0.4, 0.6]]),
             'shear': np.array([[1., 0.7, -0.3], [0., 1., 0.45], [0., 0., 1.]]),
             'detneg': np.array([[0.8, 0.3, 0.1], [0.2, -1.1, 0.4], [0.5, 0.1, 0.9]]),
             'cond50': np.dot(Q1, np.dot(np.diag([2.0, 0.6, 0.04]), Q2)),
             'aniso': np.diag([0.5, 1.5, 2.5]),
             'eigscaled': np.dot(Q2, np.diag([1 / np.sqrt(0.3), 1 / np.sqrt(1.1), 1 / np.sqrt(2.7)])),
             'twice': 2. * np.eye(3), 'half': 0.5 * np.eye(3), 'identity': np.eye(3)}
    else:
        c, s = np.cos(0.7), np.sin(0.7)
        Q1 = np.array([[c, -s], [s, c]])
        c, s = np.cos(-1.1), np.sin(-1.1)
        Q2 = np.array([[c, -s], [s, c]])
        M = {'generic': np.array([[1.25, 0.5], [-0.25, 0.9]]),
             'shear': np.array([[1., 0.7], [0., 1.]]),
             'detneg': np.array([[0.8, 0.3], [0.2, -1.1]]),
             'cond50': np.dot(Q1, np.dot(np.diag([2.0, 0.04]), Q2)),
             'aniso': np.diag([0.5, 2.5]),
             'eigscaled': np.dot(Q2, np.diag([1 / np.sqrt(0.3), 1 / np.sqrt(2.7)])),
             'twice': 2. * np.eye(2), 'half': 0.5 * np.eye(2), 'identity': np.eye(2)}
    if not np.linalg.det(M['detneg']) < 0: raise RuntimeError('harness: detneg')
    if not 30 < np.linalg.cond(M['cond50']) < 80: raise RuntimeError('harness: cond50 {}'.format(np.linalg.cond(M['cond50'])))
    for k, m in M.items():
        if abs(np.linalg.det(m)) < 1e-3: raise RuntimeError('harness: singular ' + k)
    return M


def signed_perms(dim):
    out = {}
    for perm in itertools.permutations(range(dim)):
        for sg in itertools.product((1, -1), repeat=dim):
            m = np.zeros((dim, dim))
            for i, (j, s) in enumerate(zip(perm, sg)): m[i, j] = s
            out['sperm:' + ''.join(('+' if s > 0 else '-') + 'xyz'[j] for j, s in zip(perm, sg))] = m
    return out


def matrix_of(dim, name):
    if name.startswith('sperm:'): return signed_perms(dim)[name]
    return fixed_matrices(dim)[name]


def matclass(name):
    return 'signed-permutation' if name.startswith('sperm:') else name


# ------------------------------------------------------------------------------------------- expansions
def rot_forms(tier):
    """entry sets (one entry per n), simplest first"""
    F = [[list(e)] for e in PAR_ENTRIES]
    byn = {}
    for e in PAR_ENTRIES: byn.setdefault(e[0], []).append(e)
    if tier == 'quick':
        F.append([[0, 0], [1, 1], [2, 2], [3, 3], [4, 4]])
        F.append([[2, 0], [4, 2]]); F.append([[4, 4], [2, 2]]); F.append([[1, 1], [3, 1]]); F.append([[0, 0], [2, 2], [4, 0]])
        return F
    allsets = []
    for choice in itertools.product(*[[None] + byn[n] for n in sorted(byn)]):
        ent = [list(e) for e in choice if e is not None]
        if len(ent) >= 2: allsets.append(ent)
    allsets.sort(key=lambda x: (len(x), x))
    F += allsets
    F.append([[4, 4], [2, 2]])     # unsorted list order
    return F


def rot_spec(ent, shape, real=False):
    return {'ent': [[n, l, 'par'] for n, l in ent], 'shape': list(shape), 'tag': 0, 'real': real}


def rexp_from_obj(cx, obj):
    """reference expansion holding exactly the coefficient arrays of the object (pure data conversion through ind2pow)"""
    T = cx.T
    cl = obj.coefflist
    shape = cl[0][2].shape[1:] if cl else ()
    terms = []
    for n, l, c in cl:
        terms.append((int(n), {tuple(int(x) for x in T.ind2pow[p]): np.array(c[p]) for p in range(c.shape[0])}))
    return poly.RExp(cx.dim, shape, terms)


def parity_ok(rexp):
    for n, d in rexp.terms:
        if n < 0: return False
        for e, c in d.items():
            if (sum(e) > n or (sum(e) - n) % 2) and np.abs(c).max() > 1e-12: return False
    return True


def expected_rotated(rexp, M, U):
    """{n: |M p|^n g_n(M p/|M p|)} at directions p in U"""
    Q = np.dot(U, M.T)
    qn = np.linalg.norm(Q, axis=1)
    g = rexp.angular(Q / qn[:, None])
    out = {}
    for n, v in g.items():
        out[n] = v * (qn ** n).reshape((-1,) + (1,) * (v.ndim - 1))
    return out


def prepare(cx, spec, rep):
    a, ents = base.build(cx, spec)
    if rep == 'reduced': a.reduce()
    elif rep == 'separated': a.reduce().separate()
    return a


# ------------------------------------------------------------------------------------------- rotation
def check_npowtrans(cx, M, npt, fails):
    """every row of every npowtrans[n]: |q|^(n-m) q^old (q = M p) == sum_new npowtrans[n][old,new] p^new"""
    T, U, dim = cx.T, cx.U, cx.dim
    expo = [tuple(int(x) for x in T.ind2pow[p]) for p in range(T.Npower)]
    if npt.shape != (LMAX + 1, T.Npower, T.Npower):
        fails.append(('npowtrans', 'shape {}'.format(npt.shape))); return 0
    Q = np.dot(U, M.T)
    q2 = np.sum(Q * Q, axis=1)
    monoQ = poly.monomials(Q, expo)
    monoP = poly.monomials(U, expo)
    cnt = 0
    for n in range(LMAX + 1):
        for old, e in enumerate(expo):
            m = sum(e)
            if m > n or (n - m) % 2: continue
            cnt += 1
            want = monoQ[:, old] * q2 ** ((n - m) // 2)
            got = np.dot(monoP, npt[n][old])
            sc = max(1., np.abs(want).max())
            if np.abs(got - want).max() > TOL * sc:
                fails.append(('npowtrans', 'n={} power {}: max diff {:.3g}'.format(n, e, np.abs(got - want).max())))
                return cnt
            # only powers of degree n may appear in the image
            if any(abs(npt[n][old][p]) > 1e-13 * sc for p in range(T.Npower) if sum(expo[p]) != n):
                fails.append(('npowtrans', 'n={} power {}: image not homogeneous of degree n'.format(n, e)))
                return cnt
    return cnt


def rotate_one(cx, M, npt, spec, rep, mode, fails):
    """one rotation; returns (nexec, outcome, nontrivial)"""
    T, U = cx.T, cx.U
    a = prepare(cx, spec, rep)
    ra = rexp_from_obj(cx, a)
    if not parity_ok(ra): raise RuntimeError('harness: input not parity consistent {} {}'.format(base.spec_str(spec), rep))
    before = base.state_digest(a)
    acopy = a.copy()
    if mode == 'rotate':
        r = a.rotate(npt)
        if base.state_digest(a) != before: fails.append(('operand-mutated', 'rotate changed the original'))
    elif mode == 'irotate':
        r = a.irotate(npt)
        if r is not a: fails.append(('inplace-return', 'irotate did not return self'))
    else:
        r = T(T.rotatecoeff(a.coefflist, npt))
        if base.state_digest(a) != before: fails.append(('operand-mutated', 'rotatecoeff changed its argument'))
    expected = expected_rotated(ra, M, U)
    sc = max(poly.gmax(expected), poly.gmax(ra.angular(U)))
    nf = len(fails)
    base.compare_angular(cx, r, expected, sc, fails)
    nex = len(U)
    for n, l, c in r.coefflist:
        if l != n or c.shape[0] != T.powlrange[n]:
            fails.append(('rotate-post', 'entry ({},{}) with array length {}'.format(n, l, c.shape[0]))); break
    if len(fails) == nf:
        # the property literally: rotated(p) == original(M p), both through __call__
        for pi in cx.sub[::2]:
            for rad in poly.RADII[1:]:
                p = rad * U[pi]
                fr = {(n, l): (lambda x, n=int(n): x ** n) for n, l, c in r.coefflist}
                fo = {(n, l): (lambda x, n=int(n): x ** n) for n, l, c in acopy.coefflist}
                v1, v2 = r(p.copy(), fr), acopy(np.dot(M, p), fo)
                nex += 2
                mag = max(1., float(np.abs(np.asarray(v2)).max()) if np.size(v2) else 1.)
                if not np.all(np.abs(np.asarray(v1) - np.asarray(v2)) <= TOL * mag * max(1., sc)):
                    fails.append(('rotate-call', 'rotated(p) != original(M p) at dir#{} r={}: diff {:.3g}'.format(
                        pi, rad, float(np.abs(np.asarray(v1) - np.asarray(v2)).max()))))
                    return nex, 'bad', False
    nontriv = not np.allclose(M, np.eye(cx.dim)) and any(n > 0 for n, l, c in r.coefflist)
    return nex, hashlib.sha1(np.round(np.concatenate([np.ravel(c) for n, l, c in r.coefflist] + [np.zeros(1)]), 8).tobytes()).hexdigest()[:10], nontriv


def run_rotation_case(cx, case):
    T = cx.T
    out = {'states': 0, 'transitions': 0, 'execs': 0, 'outcomes': set(), 'nontrivial': 0, 'violations': []}
    name = case['matrix']
    M = matrix_of(cx.dim, name)
    seen = set()

    def report(fails, op, spec, rep, shape):
        for orc, what in fails:
            key = '{}D:{}:{}:{}:{}'.format(cx.dim, op, matclass(name), rep, 'scalar' if len(shape) == 0 else 'matrix')
            if (orc, key) in seen: continue
            seen.add((orc, key))
            out['violations'].append({'oracle': orc, 'key': key,
                                      'detail': {'matrix': name, 'M': M.tolist(), 'form': base.spec_str(spec) if spec else None, 'rep': rep, 'what': what},
                                      'case': {'key': 'rot1:{}D:{}:{}:{}:{}'.format(cx.dim, name, op, base.spec_str(spec) if spec else '', rep),
                                               'kind': 'rot', 'dim': cx.dim, 'matrix': name, 'tier': case['tier'], 'full': case['full'],
                                               'shapes': [list(shape)], 'only': [op, spec, rep]}})

    only = case.get('only')
    fails = []
    try:
        npt = T.rotatedirections(M)
        out['execs'] += check_npowtrans(cx, M, npt, fails)
        out['transitions'] += 1
    except Exception as e:
        fails.append(('exception', '{}: {} @ {}'.format(type(e).__name__, e, base._where(e))))
        report(fails, 'rotatedirections', None, '-', ())
        return out
    report(fails, 'rotatedirections', None, '-', ())
    if M.dtype != float or not np.array_equal(M, matrix_of(cx.dim, name)):
        report([('argument-mutated', 'rotatedirections changed its argument')], 'rotatedirections', None, '-', ())
    forms = rot_forms(case['tier'])
    shapes = case['shapes']
    for shape in shapes:
        for ent in forms:
            spec = rot_spec(ent, shape)
            for rep in REPS:
                for mode in (('rotate', 'irotate', 'rotatecoeff') if (rep == 'raw' or len(ent) == 1) else ('rotate',)):
                    if only is not None and (only[0] != mode or only[1] != spec or only[2] != rep): continue
                    fails = []
                    out['states'] += 1; out['transitions'] += 1
                    try:
                        nex, oc, nt = rotate_one(cx, M, npt, spec, rep, mode, fails)
                        out['execs'] += nex; out['outcomes'].add(oc); out['nontrivial'] += int(nt)
                    except RuntimeError:
                        raise
                    except Exception as e:
                        fails.append(('exception', '{}: {} @ {}'.format(type(e).__name__, e, base._where(e))))
                    report(fails, mode, spec, rep, tuple(shape))
    return out


def run_compose_case(cx, case):
    """edge oracles between matrices: rotate(M1) then rotate(M2) == rotate(M1.M2); M then M^-1 == original"""
    T, U = cx.T, cx.U
    out = {'states': 0, 'transitions': 0, 'execs': 0, 'outcomes': set(), 'nontrivial': 0, 'violations': []}
    FM = fixed_matrices(cx.dim)
    n1 = case['m1']
    M1 = FM[n1]
    spec = rot_spec([[0, 0], [1, 1], [2, 2], [3, 3], [4, 4]], (2, 2))
    for rep in REPS:
        a = prepare(cx, spec, rep)
        ra = rexp_from_obj(cx, a)
        sc = poly.gmax(ra.angular(U))
        r1 = a.rotate(T.rotatedirections(M1))
        for n2, M2 in list(FM.items()) + [('inverse', np.linalg.inv(M1))]:
            fails = []
            out['states'] += 1; out['transitions'] += 2
            try:
                r12 = r1.rotate(T.rotatedirections(M2))
                rd = a.rotate(T.rotatedirections(np.dot(M1, M2)))
                exp = expected_rotated(ra, np.dot(M1, M2), U)
                # conditioning: the second rotation maps degree-n coefficients with norm <= |M2|^n, so the rounding
                # error of the intermediate expansion (eps * its magnitude) is amplified by up to |M2|^Lmax
                amp = max(1., np.linalg.norm(M2, 2)) ** LMAX
                s2 = max(sc, poly.gmax(exp), poly.gmax(base.impl_angular(r1, U)) * amp)
                base.compare_angular(cx, r12, exp, s2, fails, oracle='compose-sequential')
                base.compare_angular(cx, rd, exp, s2, fails, oracle='compose-direct')
                out['execs'] += 2 * len(U)
                out['nontrivial'] += 1
                out['outcomes'].add(hashlib.sha1(np.round(np.concatenate([np.ravel(c) for n, l, c in r12.coefflist]), 8).tobytes()).hexdigest()[:10])
            except Exception as e:
                fails.append(('exception', '{}: {} @ {}'.format(type(e).__name__, e, base._where(e))))
            for orc, what in fails:
                key = '{}D:compose:first={}'.format(cx.dim, n1)
                if any(v['oracle'] == orc and v['key'] == key for v in out['violations']): continue
                out['violations'].append({'oracle': orc, 'key': key,
                                          'detail': {'what': what, 'second': n2, 'rep': rep, 'M1': M1.tolist(), 'M2': np.asarray(M2).tolist()}})
    return out


# ------------------------------------------------------------------------------------------- inversion
LEADS = [('one', ()), ('gen', ()), ('gen', (1, 1)), ('gen', (2, 2))]


def inv_tails(tier):
    ls = (0, 1, 2, 4) if tier == 'quick' else (0, 1, 2, 3, 4)
    single = [[(j, l)] for j in (1, 2, 3) for l in ls]
    double = [[(j1, l1), (j2, l2)] for j1, j2 in ((1, 2), (1, 3), (2, 3)) for l1 in ls for l2 in ls]
    T = [[]] + single + double
    if tier != 'quick':
        T += [[(1, l1), (2, l2), (3, l3)] for l1 in (0, 1) for l2 in (0, 2) for l3 in (1, 3)]
    return T


def inv_spec(n0, lead, tail, order='sorted'):
    kind, shape = lead
    ent = [[n0, 0, kind]] + [[n0 + j, l, 'gen'] for j, l in tail]
    if order == 'reversed': ent = ent[::-1]
    return {'ent': ent, 'shape': list(shape), 'tag': 2, 'real': False}


def graded_of(ents, matrixshape):
    A = {}
    for n, l, d in ents:
        o = A.setdefault(n, {})
        for e, c in d.items(): o[e] = o[e] + c if e in o else np.array(c, dtype=complex)
    return A


def invert_one(cx, spec, k, fails):
    T, U, dim = cx.T, cx.U, cx.dim
    shape = tuple(spec['shape'])
    matrix = len(shape) == 2
    a, ents = base.build(cx, spec)
    n0 = min(e[0] for e in spec['ent'])
    Nmax = -n0 + k
    A = graded_of(ents, shape)
    Ainv, maxdeg = poly.grinverse(A, Nmax, dim)
    if maxdeg > LMAX: return 0, 'beyond-Lmax', False
    # the reference series must itself be an inverse through the order (self-validation at every case)
    ga = poly.greval(A, U)
    gi = poly.greval(Ainv, U)
    ident = np.eye(shape[0]) if matrix else 1.
    for (X, Y) in ((ga, gi), (gi, ga)):
        P = poly.gprod(X, Y, matrix)
        for n, v in P.items():
            if n <= k and np.abs(v - (ident if n == 0 else 0.)).max() > 1e-9 * max(1., poly.gmax(gi) * poly.gmax(ga)):
                raise RuntimeError('harness: reference inverse series wrong for {} k={}'.format(base.spec_str(spec), k))
    before = base.state_digest(a)
    ainv = a.inv(Nmax)
    if base.state_digest(a) != before: fails.append(('operand-mutated', 'inv changed the original'))
    sc = max(poly.gmax(ga), poly.gmax(gi)) ** 2
    nf = len(fails)
    base.compare_angular(cx, ainv, gi, sc, fails, oracle='inverse-series')
    nex = len(U)
    ns = [int(n) for n, l, c in ainv.coefflist]
    if ns and max(ns) > Nmax: fails.append(('inverse-order', 'terms beyond the requested order {}: {}'.format(Nmax, sorted(ns))))
    if len(fails) == nf:
        for nm, prod in (('a*inv', lambda: a * ainv), ('inv*a', lambda: ainv * a)):
            p = prod()
            p.reduce()
            tol = 1e-9 * max(1., sc)     # linear algebra with a generic (well-conditioned) leading matrix
            found0 = False
            for n, l, c in p.coefflist:
                if n > k: continue
                if n == 0:
                    found0 = True
                    if l != 0 or np.abs(c[0] - ident).max() > tol:
                        fails.append(('inverse-identity', '{}: order 0 term is (0,{}) with |c-1| = {:.3g}'.format(nm, l, float(np.abs(c[0] - ident).max()))))
                elif np.abs(c).max() > tol:
                    fails.append(('inverse-identity', '{}: order {} term survives with |c| = {:.3g}'.format(nm, n, float(np.abs(c).max()))))
            if not found0: fails.append(('inverse-identity', '{}: no order 0 term'.format(nm)))
            nex += 1
    contributes = any(e[0] - n0 <= k for e in spec['ent'] if e[0] != n0)
    return nex, 'ok:{}'.format(sorted(set(ns))), contributes


def run_inverse_case(cx, case):
    out = {'states': 0, 'transitions': 0, 'execs': 0, 'outcomes': set(), 'nontrivial': 0, 'violations': []}
    n0, lead = case['n0'], (case['lead'][0], tuple(case['lead'][1]))
    seen = set()
    only = case.get('only')
    for tail in inv_tails(case['tier']):
        for order in (('sorted', 'reversed') if len(tail) == 2 and tail[0][0] == 1 and tail[1][0] == 2 else ('sorted',)):
            spec = inv_spec(n0, lead, tail, order)
            for k in (0, 1, 2):
                if only is not None and (only[0] != spec or only[1] != k): continue
                fails = []
                out['states'] += 1; out['transitions'] += 1
                try:
                    nex, oc, nt = invert_one(cx, spec, k, fails)
                    out['execs'] += nex; out['outcomes'].add('{}:{}'.format(k, oc)); out['nontrivial'] += int(nt)
                except RuntimeError:
                    raise
                except Exception as e:
                    fails.append(('exception', '{}: {} @ {}'.format(type(e).__name__, e, base._where(e))))
                for orc, what in fails:
                    key = '{}D:inv:lead={}{}:ntail={}:k={}'.format(cx.dim, lead[0], base.shp(lead[1]), len(tail), k)
                    if (orc, key) in seen: continue
                    seen.add((orc, key))
                    out['violations'].append({'oracle': orc, 'key': key, 'detail': {'form': base.spec_str(spec), 'n0': n0, 'Nmax': -n0 + k, 'what': what},
                                              'case': {'key': 'inv1:{}D:{}:k{}'.format(cx.dim, base.spec_str(spec), k), 'kind': 'inv', 'dim': cx.dim,
                                                       'n0': n0, 'lead': [lead[0], list(lead[1])], 'tier': case['tier'], 'full': case['full'],
                                                       'only': [spec, k]}})
    # inputs that must be refused: anisotropic leading term; second term of the same order
    if only is None:
        for nm, ent in (('aniso-lead', [[n0, 2, 'gen'], [n0 + 1, 0, 'gen']]), ('same-order', [[n0, 0, 'gen'], [n0, 2, 'top'], [n0 + 1, 1, 'gen']])):
            spec = {'ent': ent, 'shape': list(lead[1]), 'tag': 2}
            a, _ = base.build(cx, spec)
            out['transitions'] += 1
            try:
                a.inv(-n0 + 1)
                out['violations'].append({'oracle': 'inverse-accepted', 'key': '{}D:inv:{}'.format(cx.dim, nm),
                                          'detail': {'form': base.spec_str(spec), 'what': 'inv() of an expansion without isotropic leading term did not raise'}})
            except ValueError:
                out['outcomes'].add('refused:' + nm)
    return out


# ------------------------------------------------------------------------------------------- cases / evaluate
def cases(tier):
    bad = poly.selftest()
    if bad: raise RuntimeError('reference model self-test failed: {}'.format(bad))
    full = tier != 'quick'
    C = []
    for dim in (3, 2):
        names = list(fixed_matrices(dim)) + list(signed_perms(dim))
        for nm in names:
            fixed = not nm.startswith('sperm:')
            shapes = [[], [1, 1], [2, 2], [2, 3]] if (fixed or tier != 'quick') else [[], [2, 2]]
            C.append({'key': 'rot:{}D:{}'.format(dim, nm), 'kind': 'rot', 'dim': dim, 'matrix': nm, 'shapes': shapes, 'tier': tier, 'full': full,
                      'cost': (4 if fixed else 2) * (2 if dim == 3 else 1)})
        for nm in fixed_matrices(dim):
            C.append({'key': 'compose:{}D:{}'.format(dim, nm), 'kind': 'compose', 'dim': dim, 'm1': nm, 'full': full, 'cost': 1})
        for n0 in (-2, -1, 0, 1, 2):
            for lead in LEADS:
                if tier == 'quick' and lead in LEADS[1:3] and n0 not in (-2, 0): continue
                C.append({'key': 'inv:{}D:n0={}:lead={}{}'.format(dim, n0, lead[0], base.shp(lead[1])), 'kind': 'inv', 'dim': dim, 'n0': n0,
                          'lead': [lead[0], list(lead[1])], 'tier': tier, 'full': full, 'cost': 6 if dim == 3 else 3})
    return C


def BOUNDS(tier):
    return {'Lmax': LMAX, 'dims': [3, 2], 'fixed_matrices': list(fixed_matrices(3)),
            'cond(cond50)': [float(np.linalg.cond(fixed_matrices(d)['cond50'])) for d in (3, 2)],
            'det(detneg)': [float(np.linalg.det(fixed_matrices(d)['detneg'])) for d in (3, 2)],
            'signed_permutations': {'3D': len(signed_perms(3)), '2D': len(signed_perms(2))},
            'parity_consistent_entries': PAR_ENTRIES, 'rotation_forms': len(rot_forms(tier)), 'representations': REPS,
            'rotation_shapes': 'scalar,1x1,2x2,2x3 (quick: signed permutations only scalar,2x2)',
            'inverse': {'n0': [-2, -1, 0, 1, 2], 'leads': ['{}{}'.format(k, base.shp(s)) for k, s in LEADS], 'tails': len(inv_tails(tier)),
                        'orders_k': [0, 1, 2], 'Nmax': '-n0 + k'},
            'directions': 'C16 direction sets (thorough: 56 / 20; quick: 33 / 15 verified unisolvent)', 'tolerance': '1e-10*scale (series), 1e-9*scale (a.a^-1)'}


def evaluate(case):
    cx = base.ctx(case['dim'], case.get('full', True))
    kind = case['kind']
    if kind == 'rot': r = run_rotation_case(cx, case)
    elif kind == 'compose': r = run_compose_case(cx, case)
    elif kind == 'inv': r = run_inverse_case(cx, case)
    else: raise KeyError(kind)
    r['outcomes'] = sorted(r['outcomes'])
    return r
