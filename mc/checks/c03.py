"""
C03 — every transport tensor is symmetric and invariant under the crystal's point group; D, L0vv and Lss are
positive semidefinite.

E1, pure self-consistency (no reference model): every node of the vacancy-mediated and interstitial data
lattices (bases T/G1/G2/X, <=1 deviation incl. the extreme letters E+20 / E-20) and the elastodiffusion
tensor of every interstitial node with elementary dipoles.
"""
import numpy as np
from mc import vm, inter

PID = 'C03'
ENGINE = 'E1'
TECHNIQUE = 'bounded-exhaustive enumeration of data nodes; symmetry, point-group invariance (all group operations) and semidefiniteness checked on every returned tensor'
RULE = ('node = (calculator, base, <=1 deviation from the ordinary or the extreme letters); every returned tensor is tested against every '
        'operation of crys.G; nontrivial = nodes differing from the base whose D / Lss differs from the base value')
LEVEL_TEXT = 'All group operations on all tensors of all enumerated nodes; symmetry/invariance are exact statements (1e-9), semidefiniteness with a round-off tolerance (k-mesh tolerance for crystals with origin states).'
LEVEL_NOTE = 'Invariance is tested with the Cartesian rotations stored in crys.G (their correctness is C18).'

TOL = 1e-9
VM_QUICK = [('FCC', 0, 1), ('HCP', 0, 1), ('HONEY', 0, 1), ('OMEGA', 0, 1), ('RECTM', 0, 1), ('TET', 1, 1), ('SQUARE', 0, 2), ('OBLIQUE', 1, 1), ('MONO', 2, 1),
            ('P1_3', 0, 1)]      # P1_3: origin states, three inequivalent sites, no symmetry at all
VM_THOROUGH = VM_QUICK + [('BCC', 0, 1), ('SC', 0, 1), ('DIAMOND', 0, 1), ('B2', 0, 1), ('ROMEGA', 0, 1), ('FCC', 0, 2), ('TRIA', 0, 1), ('NBO', 0, 1),
                          ('ORTH', 2, 1), ('TRIC', 2, 1), ('P1', 1, 1), ('RHOM', 1, 1), ('CRECT', 1, 1), ('L12', 0, 1), ('WURTZ2', 0, 1)]
XL = [('ene', 20.0), ('ene', -20.0)]
SITE_LETTERS_ONLY = ('P1_3',)
CHUNK = 30


def BOUNDS(tier):
    return {'vacancy-mediated': VM_QUICK if tier == 'quick' else VM_THOROUGH, 'interstitial': inter.INTER_CRYSTALS,
            'bases': ['T', 'G1', 'G2', 'X'], 'letters': vm.LETTER_NAMES + ['E+20', 'E-20'], 'k': 1, 'tol': TOL}


def cases(tier):
    out = []
    letters = [0, 2, 3, 5, 6] if tier == 'quick' else list(range(7))
    for (name, icut, N) in (VM_QUICK if tier == 'quick' else VM_THOROUGH):
        ent = vm.calculator(name, icut, N)
        coords = vm.coordinates(ent)
        nco = len(coords)
        # crystals without any symmetry have hundreds of transition-state classes: deviations on the site / interaction
        # coordinates only (the transition-state letters are covered by every other crystal)
        dev_coords = [c for c in range(nco) if coords[c][0] in ('V', 'S')] if name in SITE_LETTERS_ONLY else range(nco)
        devs = [()] + [((c, l),) for c in dev_coords for l in letters if not (name in SITE_LETTERS_ONLY and l >= 5)]
        # (no extreme letters and no X base on the no-symmetry crystal: the extreme regime is explored on every other crystal)
        nodes = [(b, d) for b in (('T', 'G1', 'G2') if name in SITE_LETTERS_ONLY else ('T', 'G1', 'G2', 'X')) for d in devs]
        for c in range(0, len(nodes), CHUNK):
            out.append({'key': 'vm/{}/{}/N{}/chunk{}'.format(name, icut, N, c // CHUNK), 'kind': 'vm', 'crystal': name, 'icut': icut, 'N': N,
                        'nodes': [[b, [list(x) for x in d]] for b, d in nodes[c:c + CHUNK]], 'cost': N})
    for (name, icut) in inter.INTER_CRYSTALS:
        out.append({'key': 'int/{}/{}'.format(name, icut), 'kind': 'int', 'crystal': name, 'icut': icut, 'cost': 1})
    return out


def tensor_faults(T, G, sc, tol):
    """list of (oracle, value) for a rank-2 tensor"""
    out = []
    a = float(np.abs(T - T.T).max()) / sc
    if not np.isfinite(a): return [('finite', a)]
    if a > tol: out.append(('symmetric', a))
    worst = 0.
    for g in G:
        R = g.cartrot
        worst = max(worst, float(np.abs(R @ T @ R.T - T).max()) / sc)
    if worst > tol: out.append(('invariant', worst))
    return out


def evaluate(case):
    return eval_vm(case) if case['kind'] == 'vm' else eval_int(case)


def eval_vm(case):
    ent = vm.calculator(case['crystal'], case['icut'], case['N'])
    G = list(ent['crys'].G)
    vb = vm.has_vb(ent)
    letters = vm.LETTERS + XL
    names = vm.LETTER_NAMES + ['E+20', 'E-20']
    viols, outcomes, nontriv, ntr, unresolved = [], [], 0, 0, 0
    baseL = {}
    for base, devs in case['nodes']:
        devs = [tuple(x) for x in devs]
        d = vm.apply_devs(ent, vm.base_data(ent, base), devs, letters=letters)
        key = 'vm/{}/cut{}/N{};vb={};base={};dev={}'.format(case['crystal'], case['icut'], case['N'], int(vb), base, vm.dev_name(ent, devs, names))
        sub = dict(case, nodes=[[base, [list(x) for x in devs]]])
        try:
            L = vm.package_L(ent, d)
        except Exception as e:
            viols.append({'oracle': 'exception', 'key': key, 'detail': repr(e), 'case': sub}); continue
        sc = vm.tscale(*L)
        # symmetry / invariance: exact statements up to round-off amplified by the dynamic range of the rates;
        # semidefiniteness: additionally limited by (bare-GF residual) x (dynamic range)
        tol_sym = vm.roundoff_tol(ent, d)
        tol_psd, kappa, resid = vm.conditioned_tol(ent, d)
        for name, T in zip(('L0vv', 'Lss', 'Lsv', 'L1vv'), L):
            for orc, val in tensor_faults(T, G, sc, tol_sym):
                viols.append({'oracle': orc + '-' + name, 'key': key, 'detail': {'value': val, 'tol': tol_sym, 'tensor': T.tolist()}, 'case': sub})
            ntr += len(G) + 1
        if tol_psd < 1e-3:
            for name, T in (('L0vv', L[0]), ('Lss', L[1])):
                m = float(np.linalg.eigvalsh(0.5 * (T + T.T)).min()) / sc
                if m < -tol_psd: viols.append({'oracle': 'psd-' + name, 'key': key, 'detail': {'min eig / scale': m, 'tol': tol_psd, 'tensor': T.tolist()}, 'case': sub})
        else:
            unresolved += 1
        outcomes.append('{:.5e}'.format(float(np.trace(L[1]))))
        if base not in baseL: baseL[base] = vm.package_L(ent, vm.base_data(ent, base))[1]
        if devs and np.abs(L[1] - baseL[base]).max() > 1e-9 * sc: nontriv += 1
    return {'states': len(case['nodes']), 'transitions': ntr, 'execs': len(case['nodes']), 'outcomes': outcomes, 'nontrivial': nontriv,
            'violations': viols, 'psd_unresolved_nodes(GF residual x rate range > 1e-3)': unresolved, 'sample': {'node': key}}


def rank4_faults(T, G, sc, tol):
    out = []
    if not np.all(np.isfinite(T)): return [('finite', float('nan'))]
    a = max(float(np.abs(T - T.transpose(1, 0, 2, 3)).max()), float(np.abs(T - T.transpose(0, 1, 3, 2)).max())) / sc
    if a > tol: out.append(('symmetric', a))
    worst = 0.
    for g in G:
        R = g.cartrot
        worst = max(worst, float(np.abs(np.einsum('ai,bj,ck,dl,ijkl->abcd', R, R, R, R, T) - T).max()) / sc)
    if worst > tol: out.append(('invariant', worst))
    return out


def eval_int(case):
    ent = inter.calculator(case['crystal'], case['icut'])
    calc, crys = ent['calc'], ent['crys']
    G = list(crys.G)
    dim = crys.dim
    nco = len(inter.coordinates(ent))
    viols, outcomes, nontriv, nst, ntr = [], [], 0, 0, 0
    nsite, njump = len(ent['sitelist']), len(ent['jumpnetwork'])
    # elementary dipoles: one class at a time, E_ab (dipoles enter linearly)
    dip_alphabet = [('site', n, a, b) for n in range(nsite) for a in range(dim) for b in range(dim)] + \
                   [('jump', n, a, b) for n in range(njump) for a in range(dim) for b in range(dim)]
    for base in ('T', 'G1', 'G2', 'X'):
        D0 = None
        for devs in [()] + [((c, l),) for c in range(nco) for l in range(len(inter.LETTERS))]:
            d = inter.apply_devs(ent, inter.base_data(ent, base), devs)
            key = 'int/{}/cut{};base={};dev={}'.format(case['crystal'], case['icut'], base, inter.dev_name(ent, devs))
            try:
                D = inter.D(ent, d)
            except Exception as e:
                viols.append({'oracle': 'exception', 'key': key, 'detail': repr(e)}); continue
            nst += 1
            sc = vm.tscale(D)
            for orc, val in tensor_faults(D, G, sc, TOL):
                viols.append({'oracle': orc + '-D', 'key': key, 'detail': {'value': val, 'tensor': D.tolist()}})
            ntr += len(G) + 1
            m = float(np.linalg.eigvalsh(0.5 * (D + D.T)).min()) / sc
            if m < -TOL: viols.append({'oracle': 'psd-D', 'key': key, 'detail': {'min eig / scale': m, 'tensor': D.tolist()}})
            outcomes.append('{:.5e}'.format(float(np.trace(D))))
            if D0 is None: D0 = D
            elif np.abs(D - D0).max() > 1e-9 * sc: nontriv += 1
            if devs: continue
            # elastodiffusion on the base node of every base point: every elementary dipole
            for (kind, n, a, b) in dip_alphabet:
                dip = [np.zeros((dim, dim)) for _ in range(nsite)]; dipT = [np.zeros((dim, dim)) for _ in range(njump)]
                (dip if kind == 'site' else dipT)[n][a, b] = 1.
                dkey = key + ';dipole={}{}:E{}{}'.format(kind, '.'.join(str(x) for x in inter.class_keys(ent)[kind][n]), a, b)
                try:
                    Dd, dD = calc.elastodiffusion(d['pre'], d['betaene'], dip, d['preT'], d['betaeneT'], dipT)
                except Exception as e:
                    viols.append({'oracle': 'exception', 'key': dkey, 'detail': repr(e)}); continue
                nst += 1
                dD = np.array(dD, dtype=float)
                for orc, val in rank4_faults(dD, G, max(sc, vm.tscale(dD)), TOL):
                    viols.append({'oracle': orc + '-elastodiffusion', 'key': dkey, 'detail': {'value': val}})
                ntr += len(G) + 2
                if np.abs(np.array(Dd) - D).max() > TOL * sc:
                    viols.append({'oracle': 'elastodiffusion-D-differs', 'key': dkey, 'detail': float(np.abs(np.array(Dd) - D).max())})
                if np.abs(dD).max() > 1e-12: nontriv += 1
    return {'states': nst, 'transitions': ntr, 'execs': nst, 'outcomes': outcomes, 'nontrivial': nontriv, 'violations': viols, 'sample': {'node': key}}
