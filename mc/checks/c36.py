"""
C36 — value types obey equality, hashing and arithmetic laws.

E1 over finite instance pools (all pairs, all triples, all defined operations):
  GroupOp      : every operation of 6 crystals, each also translated by lattice vectors, copied with a 1e-12
                 perturbation of trans/cartrot (far inside allclose) and with a 1e-3 perturbation (far outside)
  PairState    : every state of 2-shell star sets (origin states included) of 5 crystals
  ClusterSite / Cluster : sites and clusters of 3rd-order expansions of 4 crystals, translated / permuted copies
  vacancyThermoKinetics : keys from the data alphabet, 1e-12-perturbed copies, 1e-3-perturbed copies
Oracles: == reflexive / symmetric / transitive, != is its negation (and does not raise), equal => equal hash,
dictionary/set membership consistent with ==; PairState identities a+(-a)=0, (a-b)+b=a, b+(a^b)=a, -(-a)=a,
(a+b).dx = a.dx+b.dx, all commuting with every g in G; GroupOp: (g*h).inv() == h.inv()*g.inv(), g*g.inv() == identity
(mod lattice translation), (g+R)-R == g.
Pools avoid values AT a tolerance boundary (a tolerance-based equality cannot be transitive there): stated bound.
"""
import itertools
import numpy as np
from onsager import crystal, crystalStars as stars, cluster, OnsagerCalc
from mc import catalog

PID = 'C36'
ENGINE = 'E1'
TECHNIQUE = 'exhaustive enumeration of all pairs / triples / defined operations over finite instance pools of each value type; algebraic laws as oracles'
RULE = ('pool = listed instances; every ordered pair (==, !=, hash), every triple (transitivity) for pools <= 120, every defined sum/difference; '
        'nontrivial = pairs of distinct objects that compare equal (equal-but-not-identical) plus arithmetic results that differ from both operands')
LEVEL_TEXT = 'All pairs and triples of the stated pools; the laws are exact statements.'
LEVEL_NOTE = 'Near-equal copies are 1e-12 (inside every tolerance) or 1e-3 (outside); nothing is said about values at the tolerance boundary.'

GCRYS = ['FCC', 'HCP', 'SQUARE', 'HONEY', 'OMEGA', 'TRIC']
PCRYS = ['FCC', 'HCP', 'HONEY', 'ROMEGA', 'B2']
CCRYS = ['FCC', 'B2AB', 'HCP', 'FCC_O']


def BOUNDS(tier):
    return {'GroupOp crystals': GCRYS, 'PairState crystals': PCRYS, 'Cluster crystals': CCRYS, 'perturbations': [1e-12, 1e-3],
            'vTK': 'keys from bases T/G1/G2 of FCC/HCP/OMEGA calculators'}


def cases(tier):
    out = [{'key': 'groupop/' + n, 'type': 'groupop', 'crystal': n} for n in GCRYS]
    out += [{'key': 'pairstate/' + n, 'type': 'pairstate', 'crystal': n} for n in PCRYS]
    out += [{'key': 'cluster/' + n, 'type': 'cluster', 'crystal': n} for n in CCRYS]
    out += [{'key': 'vtk/' + n, 'type': 'vtk', 'crystal': n} for n in ('FCC', 'HCP', 'OMEGA')]
    return out


class Laws:
    def __init__(self, prefix):
        self.viols, self.seen = [], set()
        self.prefix = prefix
        self.pairs = self.equal_distinct = self.triples = self.arith = 0

    def fail(self, oracle, what, detail=None):
        k = (oracle, what)
        if k in self.seen: return
        self.seen.add(k)
        self.viols.append({'oracle': oracle, 'key': '{}:{}'.format(self.prefix, what), 'detail': detail})

    def equality(self, pool, names, triples=True):
        n = len(pool)
        eq = np.zeros((n, n), dtype=bool)
        for a in range(n):
            for b in range(n):
                self.pairs += 1
                try:
                    e = bool(pool[a] == pool[b])
                except Exception as ex:
                    self.fail('eq-raises', names[a] + ' == ' + names[b], repr(ex)); e = False
                try:
                    ne = bool(pool[a] != pool[b])
                    if ne == e: self.fail('ne-not-negation', names[a] + ' vs ' + names[b], {'==': e, '!=': ne})
                except Exception as ex:
                    self.fail('ne-raises', type(ex).__name__, {'pair': names[a] + ' != ' + names[b], 'error': repr(ex)})
                eq[a, b] = e
                if e and a != b:
                    self.equal_distinct += 1
                    try:
                        if hash(pool[a]) != hash(pool[b]):
                            self.fail('equal-unequal-hash', names[a].split('#')[0] + ' ~ ' + names[b].split('#')[0],
                                      {'a': names[a], 'b': names[b]})
                    except Exception as ex:
                        self.fail('hash-raises', names[a], repr(ex))
            if not eq[a, a]: self.fail('not-reflexive', names[a])
        if not np.array_equal(eq, eq.T):
            a, b = np.argwhere(eq != eq.T)[0]
            self.fail('not-symmetric', names[a] + ' vs ' + names[b])
        if triples and n <= 150:
            # transitivity: eq is an equivalence iff eq @ eq (boolean) adds nothing
            reach = (eq.astype(int) @ eq.astype(int)) > 0
            self.triples += n ** 3
            if not np.array_equal(reach, eq):
                a, c = np.argwhere(reach != eq)[0]
                b = next(b for b in range(n) if eq[a, b] and eq[b, c])
                self.fail('not-transitive', '{} == {} == {} but not =='.format(names[a], names[b], names[c]))
        # container membership consistent with ==
        try:
            st = set(pool[:min(n, 60)])
            for a in range(min(n, 60)):
                if pool[a] not in st: self.fail('set-membership', names[a])
        except Exception as ex:
            self.fail('hash-raises', 'set()', repr(ex))
        return eq


def evaluate(case):
    return {'groupop': eval_groupop, 'pairstate': eval_pairstate, 'cluster': eval_cluster, 'vtk': eval_vtk}[case['type']](case)


def done(L, nstates, outcomes):
    return {'states': nstates, 'transitions': L.pairs + L.arith, 'execs': L.pairs + L.triples + L.arith, 'outcomes': outcomes,
            'nontrivial': L.equal_distinct + L.arith, 'violations': L.viols,
            'sample': {'pool': L.prefix, 'instances': nstates, 'pairs': L.pairs, 'equal but distinct objects': L.equal_distinct, 'triples': L.triples}}


def eval_groupop(case):
    crys = catalog.get(case['crystal'])
    dim = crys.dim
    L = Laws('groupop/' + case['crystal'])
    G = sorted(crys.G, key=lambda g: (g.rot.tobytes(), tuple(np.round(g.trans, 6))))
    pool, names = [], []
    shifts = [np.zeros(dim, dtype=int), np.eye(dim, dtype=int)[0], -np.eye(dim, dtype=int)[-1]]
    for n, g in enumerate(G[:16] if len(G) > 16 else G):
        for s, R in enumerate(shifts):
            pool.append(g + R); names.append('g{}+R{}#exact'.format(n, s))
        pool.append(crystal.GroupOp(g.rot.copy(), g.trans + 1e-12, g.cartrot + 1e-12, g.indexmap)); names.append('g{}+R0#1e-12'.format(n))
        pool.append(crystal.GroupOp(g.rot.copy(), g.trans + 1e-3, g.cartrot.copy(), g.indexmap)); names.append('g{}+R0#1e-3'.format(n))
        pool.append(crystal.GroupOp(g.rot.astype(np.int32), g.trans.copy(), g.cartrot.copy(), g.indexmap)); names.append('g{}+R0#rot-int32'.format(n))
    L.equality(pool, names)
    # expected equalities: exact ~ 1e-12 copy; 1e-3 copy differs; translates differ
    for n in range(0, len(pool), 6):       # six entries per operation
        if not pool[n] == pool[n + 3]: L.fail('near-copy-unequal', names[n + 3])
        if pool[n] == pool[n + 4]: L.fail('far-copy-equal', names[n + 4])
        if pool[n] == pool[n + 1]: L.fail('translate-equal', names[n + 1])
        if not pool[n] == pool[n + 5]: L.fail('int32-copy-unequal', names[n + 5])
    # group algebra over the whole group
    ident = None
    for g in G:
        if np.array_equal(g.rot, np.eye(dim, dtype=int)) and np.allclose(g.trans, 0): ident = g
    Gs = G if len(G) <= 24 else G[:24]
    for g in Gs:
        L.arith += 3
        gi = g.inv()
        e = g * gi
        if not (np.array_equal(e.rot, np.eye(dim, dtype=int)) and np.allclose(e.trans, 0) and np.allclose(e.cartrot, np.eye(dim))
                and all(tuple(m) == tuple(range(len(m))) for m in e.indexmap)):
            L.fail('g*g.inv-not-identity', 'op', {'rot': g.rot.tolist(), 'trans': g.trans.tolist()})
        if not (gi.inv() == g): L.fail('inv-inv', 'op', {'rot': g.rot.tolist()})
        R = np.arange(1, dim + 1)
        if not ((g + R) - R == g): L.fail('add-sub-translation', 'op')
        for h in Gs:
            L.arith += 1
            if not ((g * h).inv() == h.inv() * g.inv()): L.fail('inv-of-product', 'pair', {'g': g.rot.tolist(), 'h': h.rot.tolist()})
            for k in Gs[:6]:
                L.arith += 1
                if not ((g * h) * k == g * (h * k)): L.fail('associativity', 'triple')
    return done(L, len(pool), ['{}:{}'.format(case['crystal'], len(G))])


def eval_pairstate(case):
    name = case['crystal']
    crys, chem, sl, jn = catalog.network(name, 0)
    S = stars.StarSet(jn, crys, chem, 2, originstates=True)
    states = list(S.states)
    L = Laws('pairstate/' + name)
    order = sorted(range(len(states)), key=lambda n: (states[n].i, states[n].j, tuple(states[n].R)))
    states = [states[n] for n in order][:110]
    pool, names = [], []
    for n, s in enumerate(states):
        pool.append(s); names.append('s{}#orig'.format(n))
    for n, s in enumerate(states[:30]):
        pool.append(stars.PairState(s.i, s.j, s.R.copy(), s.dx + 1e-12)); names.append('s{}#dx+1e-12'.format(n))
        pool.append(stars.PairState.fromcrys_latt(crys, chem, (s.i, s.j), s.R.copy())); names.append('s{}#rebuilt'.format(n))
        # the same lattice vector in other integer representations a caller may pass (equal value => equal object)
        pool.append(stars.PairState(s.i, s.j, s.R.astype(np.int32), s.dx.copy())); names.append('s{}#R-int32'.format(n))
        pool.append(stars.PairState.fromcrys_latt(crys, chem, (s.i, s.j), s.R.astype(np.int16))); names.append('s{}#rebuilt-int16'.format(n))
    L.equality(pool, names, triples=len(pool) <= 150)
    P = stars.PairState
    G = list(crys.G)
    dim = crys.dim

    def same(a, b):
        return a == b and np.allclose(a.dx, b.dx, atol=1e-9)
    for a in states:
        L.arith += 4
        na = -a
        if not same(-na, a): L.fail('neg-neg', 'state')
        z = a + na
        if not (z.iszero() and z.i == a.i and np.allclose(z.dx, 0)): L.fail('a+(-a)=0', 'state', {'a': [a.i, a.j, a.R.tolist()]})
        z2 = na + a
        if not (z2.iszero() and z2.i == a.j): L.fail('(-a)+a=0', 'state')
        if not a.__sane__(crys, chem): L.fail('insane-state', 'state')
        for g in G[:12]:
            L.arith += 2
            ga = a.g(crys, chem, g)
            if not ga.__sane__(crys, chem): L.fail('g(a)-insane', 'state')
            if not same((-a).g(crys, chem, g), -ga): L.fail('g-commutes-neg', 'state')
        for b in states:
            if a.j == b.i:
                L.arith += 1
                c = a + b
                if not (c.i == a.i and c.j == b.j and np.array_equal(c.R, a.R + b.R) and np.allclose(c.dx, a.dx + b.dx) and c.__sane__(crys, chem)):
                    L.fail('add', 'pair')
                for g in G[:6]:
                    L.arith += 1
                    if not same(c.g(crys, chem, g), a.g(crys, chem, g) + b.g(crys, chem, g)): L.fail('g-commutes-add', 'pair')
            else:
                try:
                    a + b
                    L.fail('add-mismatched-accepted', 'pair')
                except ArithmeticError:
                    pass
            if a.j == b.j:
                L.arith += 1
                d = a - b            # (i,j)R - (k,j)R' = (i,k) R-R'
                if not (d.i == a.i and d.j == b.i and np.array_equal(d.R, a.R - b.R) and same(d + b, a)): L.fail('(a-b)+b=a', 'pair')
            if a.i == b.i:
                L.arith += 1
                x = a ^ b            # (i,j)R ^ (i,k)R' = (k,j) R-R'
                if not (x.i == b.j and x.j == a.j and np.array_equal(x.R, a.R - b.R) and same(b + x, a)): L.fail('b+(a^b)=a', 'pair')
                for g in G[:6]:
                    L.arith += 1
                    if not same(x.g(crys, chem, g), a.g(crys, chem, g) ^ b.g(crys, chem, g)): L.fail('g-commutes-xor', 'pair')
    return done(L, len(pool), ['{}:{}'.format(name, len(states))])


def eval_cluster(case):
    name = case['crystal']
    crys = catalog.get(name)
    dim = crys.dim
    m = catalog.meta(name)
    cut = m['cut'][-1] if name != 'HCP' else 1.01
    clexp = cluster.makeclusters(crys, cut, 3)
    L = Laws('cluster/' + name)
    # ---- ClusterSite
    sites, snames = [], []
    for ci in crys.atomindices:
        for R in ([0] * dim, [1] + [0] * (dim - 1), [0] * (dim - 1) + [-1]):
            sites.append(cluster.ClusterSite(ci, np.array(R))); snames.append('cs{}R{}#a'.format(ci, R))
            sites.append(cluster.ClusterSite(tuple(ci), np.array(R, dtype=int).copy())); snames.append('cs{}R{}#b'.format(ci, R))
    L.equality(sites, snames)
    for s in sites:
        L.arith += 3
        R = np.arange(1, dim + 1)
        if not ((s + R) - R == s): L.fail('clustersite add-sub', 'site')
        if not (-(-s) == s): L.fail('clustersite neg-neg', 'site')
        if (s + R) == s: L.fail('clustersite translate-equal', 'site')
    # ---- Cluster
    pool, names = [], []
    reps = []
    for cs in clexp:
        lst = sorted(cs, key=lambda c: tuple(sorted((s.ci, tuple(s.R)) for s in c.sites)))
        reps += lst[:3]
    reps = reps[:24]
    for n, c in enumerate(reps):
        pool.append(c); names.append('c{}#orig'.format(n))
        R = np.array([1] + [0] * (dim - 1))
        pool.append(cluster.Cluster([s + R for s in c.sites])); names.append('c{}#translated'.format(n))
        pool.append(cluster.Cluster(list(reversed([s - R for s in c.sites])))); names.append('c{}#reversed-translated'.format(n))
    eq = L.equality(pool, names)
    for n in range(0, len(pool), 3):
        if not (eq[n, n + 1] and eq[n, n + 2]): L.fail('cluster translate/permute unequal', names[n])
    # a cluster with one site moved must differ
    for n, c in enumerate(reps):
        if c.Norder >= 2:
            L.arith += 1
            R = np.array([3, 5, 7][:dim])     # (a generic vector: no translated/permuted copy of c contains the moved site)
            moved = cluster.Cluster([c.sites[0] + R] + list(c.sites[1:]))
            if moved == c: L.fail('cluster moved-site equal', 'c{}'.format(n))
    return done(L, len(sites) + len(pool), ['{}:{}'.format(name, len(reps))])


def eval_vtk(case):
    from mc import vm
    ent = vm.calculator(case['crystal'], 0, 1)
    calc = ent['calc']
    vTK = OnsagerCalc.vacancyThermoKinetics
    L = Laws('vtk/' + case['crystal'])
    pool, names = [], []
    for base in ('T', 'G1', 'G2'):
        d = vm.base_data(ent, base)
        bF = calc.preene2betafree(1.0, **d)
        k = vTK(pre=np.ones_like(bF[0]), betaene=bF[0], preT=np.ones_like(bF[3]), betaeneT=bF[3])
        pool.append(k); names.append(base + '#orig')
        pool.append(vTK(pre=k.pre.copy(), betaene=k.betaene.copy(), preT=k.preT.copy(), betaeneT=k.betaeneT.copy())); names.append(base + '#copy')
        pool.append(vTK(pre=k.pre.copy(), betaene=k.betaene + 1e-12, preT=k.preT.copy(), betaeneT=k.betaeneT + 1e-12)); names.append(base + '#1e-12')
        pool.append(vTK(pre=k.pre.copy(), betaene=k.betaene.copy(), preT=k.preT.copy(), betaeneT=k.betaeneT + 1e-3)); names.append(base + '#1e-3')
        # the same values in other representations (equal value => equal hash): single precision where exact, and -0.0 for 0.0
        pool.append(vTK(pre=k.pre.copy(),
                        betaene=np.where(k.betaene == 0, -0.0, k.betaene), preT=k.preT.copy(), betaeneT=k.betaeneT.copy())); names.append(base + '#negzero')
        pool.append(vTK(pre=k.pre.astype(np.float32), betaene=k.betaene.copy(), preT=k.preT.copy(), betaeneT=k.betaeneT.copy())); names.append(base + '#pre-float32')   # pre is all ones: exact in single precision
    eq = L.equality(pool, names)
    for n in range(0, len(pool), 6):       # six entries per base
        if not eq[n, n + 1]: L.fail('copy-unequal', names[n + 1])
        if eq[n, n + 3]: L.fail('far-copy-equal', names[n + 3])
        if not eq[n, n + 4]: L.fail('negzero-copy-unequal', names[n + 4])
        if not eq[n, n + 5]: L.fail('float32-copy-unequal', names[n + 5])
    # dictionary use, as the calculator's cache does
    dct = {pool[0]: 'a'}
    L.arith += 1
    if dct.get(pool[1]) != 'a': L.fail('dict-lookup-of-equal-copy', names[1])
    return done(L, len(pool), ['{}:{}'.format(case['crystal'], len(pool))])
