"""
C23 — coordinate conversions and symmetry actions are mutually consistent.

Explorer E1: catalogue (+ a light cut of the generated family) x ALL g in G x positions of the alphabet x
lattice vectors in {-2..2}^dim.  The reference is the affine map written out in plain NumPy,
x -> L (rot (L^-1 x) + trans), applied to Cartesian points; every real route (pos2cart / cart2pos / unit2cart /
cart2unit, g_pos / g_vect / g_cart / g_direc / g_tensor, PairState.g, ClusterSite.g, GroupOp.__mul__ / inv)
must agree with it and hence pairwise with each other.
"""
import itertools
import numpy as np
from onsager import crystal, crystalStars, cluster
from mc import catalog
from mc.refmodels import geom
from mc.checks import c18

PID = 'C23'
ENGINE = 'E1'
TECHNIQUE = ('exhaustive enumeration of (crystal, operation, position, lattice vector); all real conversion / action routes '
             'compared in Cartesian space with the affine map written out independently')
RULE = ('case = catalogue crystal (x task) | family block; inside: every g of G, every atom / alphabet position, every lattice '
        'vector of the stated range; all ordered pairs (g,h) for composition. nontrivial = (g, point) pairs with g not the '
        'identity and g.x != x')
LEVEL_TEXT = 'exhaustive over the stated finite product; round trips exact on integers, 1e-9 on Cartesian coordinates'
ASSUMPTIONS = [
    'Crystal.genBZG memoised per distinct lattice (see C18)',
    'the operations are those of crys.G (their correctness as symmetries is C18); here only the consistency of the routes',
    'positions are alphabet letters in [0, 3/4] plus lattice vectors, i.e. not within 1e-8 of a cell boundary from below',
    'ClusterSite.fromcrysunit is included as the unit-cell -> cluster-site conversion route',
]
ALG = 1e-9
CAT_ALL = ['SC', 'FCC', 'BCC', 'TET', 'BCT', 'ORTH', 'MONO', 'TRIC', 'RHOM', 'HEXP', 'HCP', 'HCP15', 'DIAMOND', 'OMEGA',
           'ROMEGA', 'ROMEGA51', 'WURTZ', 'WURTZ2', 'B2', 'B2AB', 'L12', 'NBO', 'PYROPE', 'P1', 'RUMPLED2', 'FCC_OT', 'FCC_O',
           'FCC_T', 'BCC_O', 'BCC_T', 'HCP_OT', 'SQUARE', 'RECT', 'CRECT', 'TRIA', 'OBLIQUE', 'HONEY', 'RECTM', 'RECTM2',
           'TRIA2', 'KAGOME', 'SQ2MM', 'HEXM', 'OMEGA_N']


def lattvecs(dim, rmax, maxnonzero=None):
    out = [np.array(n, dtype=int) for n in itertools.product(range(-rmax, rmax + 1), repeat=dim)]
    out.sort(key=lambda n: (int(np.sum(np.abs(n))), tuple(n)))
    if maxnonzero is not None: out = [n for n in out if np.count_nonzero(n) <= maxnonzero]
    return out


def locate(crys, x):
    """brute-force inverse of pos2cart: (R, (c,i)) of the atom at Cartesian x, or None"""
    u = np.dot(np.linalg.inv(crys.lattice), x)
    for c, atoms in enumerate(crys.basis):
        for i, ua in enumerate(atoms):
            d = u - ua
            if np.max(np.abs(d - np.round(d))) < max(1e-7, 20 * crys.threshold * (crys.threshold > 1e-7)): return np.round(d).astype(int), (c, i)
    return None


class Rec:
    """collects violations, one per (oracle, op description) and per oracle at most 3"""
    def __init__(self, name, case_for):
        self.name, self.case_for = name, case_for
        self.viols, self.seen, self.count = [], set(), {}

    def fail(self, oracle, opd, detail, key_extra=''):
        k = (oracle, opd)
        if k in self.seen or self.count.get(oracle, 0) >= 3: return
        self.seen.add(k); self.count[oracle] = self.count.get(oracle, 0) + 1
        self.viols.append({'oracle': oracle, 'key': '{}|{}{}'.format(self.name, opd, key_extra), 'detail': detail,
                           'case': self.case_for})


def check_conversions(crys, rec, plist, Rlist, st):
    dim, L = crys.dim, crys.lattice
    # pos2cart -> cart2pos for every atom and lattice vector; pos2cart against L (R + u)
    for ind in crys.atomindices:
        u = crys.basis[ind[0]][ind[1]]
        for R in Rlist:
            x = crys.pos2cart(R, ind)
            st['execs'] += 2
            if np.any(R): st['nontrivial'] += 1
            if np.max(np.abs(x - np.dot(L, R + u))) > ALG:
                rec.fail('pos2cart', 'conv', 'atom {} R {}: {}'.format(ind, R.tolist(), x.tolist()))
            R2, ind2 = crys.cart2pos(x)
            if ind2 != ind or not np.array_equal(R2, R):
                rec.fail('cart2pos-roundtrip', 'conv', 'atom {} R {} -> cart2pos gives {} {}'.format(ind, R.tolist(), np.asarray(R2).tolist(), ind2))
    # unit2cart -> cart2unit for every alphabet position and lattice vector
    for p in plist:
        u = geom.pos_value(p)
        for R in Rlist:
            x = crys.unit2cart(R, u)
            R2, u2 = crys.cart2unit(x)
            st['execs'] += 2
            if np.max(np.abs(x - np.dot(L, R + u))) > ALG:
                rec.fail('unit2cart', 'conv', 'u {} R {}'.format(geom.pos_name(p), R.tolist()))
            ok = (np.issubdtype(np.asarray(R2).dtype, np.integer) and np.array_equal(R2, R) and np.max(np.abs(u2 - u)) < ALG)
            if not ok:
                rec.fail('cart2unit-roundtrip', 'conv', 'u {} R {} -> cart2unit gives R {} u {}'.format(
                    geom.pos_name(p), R.tolist(), np.asarray(R2).tolist(), np.asarray(u2).tolist()))
            # a point that is not an atom must not be reported as one
            if locate(crys, x) is None and crys.cart2pos(x)[1] is not None:
                rec.fail('cart2pos-nonatom', 'conv', 'u {} R {} reported as atom {}'.format(geom.pos_name(p), R.tolist(), crys.cart2pos(x)[1]))
    # ClusterSite constructors
    ci = crys.atomindices[-1]
    R = Rlist[-1]
    try:
        cs = cluster.ClusterSite.fromcryscart(crys, crys.pos2cart(R, ci))
        if cs.ci != ci or not np.array_equal(cs.R, R): rec.fail('clustersite-fromcryscart', 'conv', 'got {}'.format(cs))
    except Exception as e:
        rec.viols.append({'oracle': 'clustersite-fromcryscart', 'key': 'ClusterSite.fromcryscart', 'detail': '{}: {} ({})'.format(type(e).__name__, e, rec.name),
                          'case': rec.case_for})
    try:
        cs = cluster.ClusterSite.fromcrysunit(crys, crys.basis[ci[0]][ci[1]] + R)
        if cs.ci != ci or not np.array_equal(cs.R, R): rec.fail('clustersite-fromcrysunit', 'conv', 'got {}'.format(cs))
    except Exception as e:
        rec.viols.append({'oracle': 'clustersite-fromcrysunit', 'key': 'ClusterSite.fromcrysunit',
                          'detail': '{}: {} (first seen on {})'.format(type(e).__name__, e, rec.name), 'case': rec.case_for})


def check_actions(crys, rec, ops, plist, Rlist_pos, Rlist_vect, Rlist_pair, st):
    dim, L = crys.dim, crys.lattice
    Linv = np.linalg.inv(L)
    upos = np.array([geom.pos_value(p) for p in plist])
    Rv = np.array(Rlist_vect)
    Rp = np.array(Rlist_pos)
    E = []
    for a in range(dim):
        for b in range(dim):
            T = np.zeros((dim, dim)); T[a, b] = 1.; E.append(T)
    E.append(np.arange(1., dim * dim + 1).reshape(dim, dim) * 0.37 - 1.)       # one generic non-symmetric tensor
    dirs = [np.eye(dim)[a] for a in range(dim)] + [np.array([0.3, -1.1, 0.7][:dim])]
    for g in ops:
        opd = geom.opdesc(L, g.rot, g.trans)
        rot = np.asarray(g.rot, dtype=float)
        Rc = np.dot(L, np.dot(rot, Linv))                 # reference Cartesian rotation
        tc = np.dot(L, g.trans)
        amap = lambda x: np.dot(x, Rc.T) + tc             # reference affine map on rows
        ident = np.array_equal(g.rot, np.eye(dim, dtype=int)) and np.max(np.abs(g.trans)) < 1e-9
        # ---- g_pos / ClusterSite.g / g_cart on every atom and lattice vector
        for ind in crys.atomindices:
            u = crys.basis[ind[0]][ind[1]]
            X = np.dot(Rp + u, L.T)
            Y = amap(X)
            for k, R in enumerate(Rlist_pos):
                R2, ind2 = crys.g_pos(g, R, ind)
                y = crys.pos2cart(R2, ind2)
                yc = crys.g_cart(g, X[k])
                cs = cluster.ClusterSite(ci=ind, R=R).g(crys, g)
                st['execs'] += 3
                if not ident and np.max(np.abs(Y[k] - X[k])) > 1e-6: st['nontrivial'] += 1
                # (a crystal given with a loosened symmetry threshold is symmetric only to that accuracy: the atom named by g_pos
                #  must be the one within 20 thresholds of the image; a wrong lattice vector is off by O(1))
                if ind2[0] != ind[0] or not np.issubdtype(np.asarray(R2).dtype, np.integer) or np.max(np.abs(y - Y[k])) > max(ALG, 20 * crys.threshold * (crys.threshold > 1e-7)):
                    rec.fail('g_pos', opd, 'atom {} R {} -> {} {}: Cartesian {} expected {}'.format(ind, R.tolist(), np.asarray(R2).tolist(), ind2, y.tolist(), Y[k].tolist()))
                if np.max(np.abs(yc - Y[k])) > ALG:
                    rec.fail('g_cart', opd, 'x {} -> {} expected {}'.format(X[k].tolist(), yc.tolist(), Y[k].tolist()))
                if cs.ci != ind2 or not np.array_equal(cs.R, R2):
                    rec.fail('clustersite-g', opd, 'site {} R {} -> {} but g_pos gives {} {}'.format(ind, R.tolist(), cs, np.asarray(R2).tolist(), ind2))
        # ---- g_vect on every alphabet position and lattice vector
        for k, p in enumerate(plist):
            X = np.dot(Rv + upos[k], L.T)
            Y = amap(X)
            for m, R in enumerate(Rlist_vect):
                R2, u2 = crys.g_vect(g, R, upos[k])
                y = crys.unit2cart(R2, u2)
                st['execs'] += 1
                if not ident and np.max(np.abs(Y[m] - X[m])) > 1e-6: st['nontrivial'] += 1
                if (not np.issubdtype(np.asarray(R2).dtype, np.integer) or np.max(np.abs(y - Y[m])) > ALG
                        or np.any(u2 < -1e-8) or np.any(u2 >= 1.)):
                    rec.fail('g_vect', opd, 'u {} R {} -> R {} u {}: Cartesian {} expected {}'.format(
                        geom.pos_name(p), R.tolist(), np.asarray(R2).tolist(), np.asarray(u2).tolist(), y.tolist(), Y[m].tolist()))
        # ---- directions and tensors
        if np.max(np.abs(g.cartrot - Rc)) > ALG: rec.fail('cartrot', opd, 'cartrot differs from L rot L^-1')
        for d in dirs:
            gd = crys.g_direc(g, d)
            st['execs'] += 1
            x0 = np.dot(L, upos[min(3, len(upos) - 1)])
            if np.max(np.abs(gd - np.dot(Rc, d))) > ALG or np.max(np.abs(crys.g_cart(g, x0 + d) - crys.g_cart(g, x0) - gd)) > ALG:
                rec.fail('g_direc', opd, 'direction {} -> {}'.format(d.tolist(), gd.tolist()))
            T = np.outer(d, dirs[-1])
            if np.max(np.abs(crys.g_tensor(g, T) - np.outer(gd, crys.g_direc(g, dirs[-1])))) > ALG:
                rec.fail('g_tensor', opd, 'tensor d (x) d\' is not carried to g.d (x) g.d\'')
        for T in E:
            gt = crys.g_tensor(g, T)
            st['execs'] += 1
            if np.max(np.abs(gt - np.dot(Rc, np.dot(T, Rc.T)))) > ALG:
                rec.fail('g_tensor', opd, 'tensor {} -> {}'.format(T.tolist(), gt.tolist()))
        # ---- pair states
        for chem, atoms in enumerate(crys.basis):
            n = len(atoms)
            for i in range(n):
                xi = np.dot(L, atoms[i])
                gi = locate(crys, amap(xi[None])[0])
                for j in range(n):
                    for R in Rlist_pair:
                        ps = crystalStars.PairState.fromcrys_latt(crys, chem, (i, j), R)
                        gps = ps.g(crys, chem, g)
                        st['execs'] += 1
                        xj = np.dot(L, R + atoms[j])
                        gj = locate(crys, amap(xj[None])[0])
                        ok = gi is not None and gj is not None and gi[1][0] == chem and gj[1][0] == chem
                        if ok:
                            ok = (gps.i == gi[1][1] and gps.j == gj[1][1] and np.array_equal(gps.R, gj[0] - gi[0])
                                  and np.max(np.abs(gps.dx - np.dot(Rc, xj - xi))) < max(ALG, 40 * crys.threshold * (crys.threshold > 1e-7)) and (crys.threshold > 1e-7 or gps.__sane__(crys, chem)))      # (__sane__ is an exact test: ideal crystals only)
                        if not ok:
                            rec.fail('pairstate-g', opd, 'pair chem {} ({},{}) R {} -> {}; images of the end points {} {}'.format(
                                chem, i, j, R.tolist(), gps, gi, gj))
                        ps2 = crystalStars.PairState.fromcrys(crys, chem, (i, j), ps.dx)
                        if ps2 != ps: rec.fail('pairstate-fromcrys', 'conv', 'fromcrys(dx of {}) = {}'.format(ps, ps2))


def _isident(g):
    return np.array_equal(g.rot, np.eye(g.rot.shape[0], dtype=int)) and np.max(np.abs(g.trans)) < 1e-9


def check_algebra(crys, rec, ops, st, hlimit=None):
    """(g*h) x == g(h x), g.inv() g x == x through the real __mul__ / inv and the real action routes.
    hlimit: for groups of more than 16 operations restrict h to the hlimit geometrically-first operations"""
    dim, L = crys.dim, crys.lattice
    pts = [np.dot(L, np.array([0.137, 0.29, -0.41][:dim])), np.dot(L, np.array([1.25, -2. / 3., 0.5][:dim]))]
    Rgen = np.array([1, -2, 2][:dim])
    u = np.array([0.137, 1. / 3., 0.75][:dim])
    hops = ops
    if hlimit is not None and len(ops) > 16:
        hops = sorted(ops, key=lambda g: geom.opdesc(L, g.rot, g.trans))[:hlimit]
    for g in ops:
        gi = g.inv()
        opd = geom.opdesc(L, g.rot, g.trans)
        for x in pts:
            st['execs'] += 1
            if np.max(np.abs(crys.g_cart(gi, crys.g_cart(g, x)) - x)) > ALG:
                rec.fail('inv-action', opd, 'g.inv() g x != x at x = {}'.format(x.tolist()))
        for ind in crys.atomindices:
            R1, i1 = crys.g_pos(g, Rgen, ind)
            R2, i2 = crys.g_pos(gi, R1, i1)
            if i2 != ind or not np.array_equal(R2, Rgen):
                rec.fail('inv-action', opd, 'g_pos(g.inv(), g_pos(g, R, atom)) != (R, atom) for atom {}'.format(ind))
        R1, u1 = crys.g_vect(g, Rgen, u)
        R2, u2 = crys.g_vect(gi, R1, u1)
        if not np.array_equal(R2, Rgen) or np.max(np.abs(u2 - u)) > ALG:
            rec.fail('inv-action', opd, 'g_vect(g.inv(), g_vect(g, R, u)) != (R, u)')
        for h in hops:
            gh = g * h
            st['execs'] += 1
            if not (_isident(g) or _isident(h)): st['nontrivial'] += 1
            opd2 = opd + '*' + geom.opdesc(L, h.rot, h.trans)
            for x in pts:
                if np.max(np.abs(crys.g_cart(gh, x) - crys.g_cart(g, crys.g_cart(h, x)))) > ALG:
                    rec.fail('mul-action', opd2, '(g*h) x != g(h x) in g_cart at x = {}'.format(x.tolist()))
            for ind in crys.atomindices:
                Ra, ia = crys.g_pos(gh, Rgen, ind)
                Rb, ib = crys.g_pos(g, *crys.g_pos(h, Rgen, ind))
                if ia != ib or not np.array_equal(Ra, Rb):
                    rec.fail('mul-action', opd2, '(g*h) atom {} -> {} {} but g(h atom) -> {} {}'.format(ind, Ra.tolist(), ia, Rb.tolist(), ib))
            Ra, ua = crys.g_vect(gh, Rgen, u)
            Rb, ub = crys.g_vect(g, *crys.g_vect(h, Rgen, u))
            if not np.array_equal(Ra, Rb) or np.max(np.abs(ua - ub)) > ALG:
                rec.fail('mul-action', opd2, '(g*h)(R,u) != g(h(R,u)) in g_vect')
            if np.max(np.abs(crys.g_direc(gh, pts[0]) - crys.g_direc(g, crys.g_direc(h, pts[0])))) > ALG:
                rec.fail('mul-action', opd2, '(g*h) d != g(h d) in g_direc')


# ------------------------------------------------------------------ interface
def BOUNDS(tier):
    q = tier == 'quick'
    return {
        'catalogue': CAT_ALL,
        'operations': 'all of crys.G; all ordered pairs (g,h) for composition, all g for inversion (family members with |G| > 16: '
                      'every g with the 6 geometrically-first h)',
        'conversions': 'every atom and every alphabet position (letters^dim, 343 / 49) x lattice vectors {-2..2}^dim',
        'g_pos / ClusterSite.g / g_cart': 'every atom x lattice vectors {-2..2}^dim',
        'g_vect': 'every alphabet position x lattice vectors ' + ('{-2..2}^dim with at most one non-zero component (quick cut: the map is '
                                                                  'affine in R)' if q else '{-2..2}^dim'),
        'g_direc / g_tensor': 'axis directions + one generic; all elementary tensors E_ab + one generic (linearity closure)',
        'PairState.g': 'all (i,j) of every species x R in ' + ('{-1..1}^dim' if q else '{-2..2}^dim') + ' (PYROPE: {-1..1}^dim)',
        'family': 'unstrained, n=2, species AA/AB, no spins, second atom with at most two non-zero coordinates' +
                  ('' if q else ' (thorough: all positions)') + '; positions / lattice vectors cut to 8 positions, {-1..1}^dim',
    }


def cases(tier):
    out = []
    for name in CAT_ALL:
        big = name == 'PYROPE'
        for task in ('conv', 'act0', 'act1', 'act2', 'act3', 'alg'):      # act<k>: operations k, k+4, ... in canonical order
            out.append({'key': 'cat:{}:{}'.format(name, task), 'kind': 'cat', 'name': name, 'task': task, 'tier': tier,
                        'cost': (30 if big else 5) * {'conv': 1, 'act': 2, 'alg': 2}[task[:3] if task[0] == 'a' and task != 'alg' else task]})
    for dim in (2, 3):
        count = {}
        for blk in c18.family_blocks(tier, dim):
            if blk['strain'] or blk['n'] != 2: continue
            fam = (blk['latt'],)
            k = count[fam] = count.get(fam, -1) + 1
            c = dict(blk)
            c.update(kind='fam', tier=tier, key='fam:{}D:{}:n2:block{}'.format(dim, blk['latt'], k),
                     cost=(geom.HOLOHEDRY_ORDER[blk['latt']] + 8) * len(blk['block']) / 40.)
            out.append(c)
    return out


def evaluate(case):
    tier = case.get('tier', 'quick')
    q = tier == 'quick'
    st = {'execs': 0, 'nontrivial': 0}
    if case['kind'] == 'cat':
        crys = catalog.get(case['name'])
        dim = crys.dim
        rec = Rec(case['name'], dict(case))
        ops = sorted(crys.G, key=lambda g: (tuple(int(x) for x in g.rot.reshape(-1)), tuple(np.round(g.trans, 6))))
        plist = geom.positions(dim)
        if case['task'] == 'conv':
            check_conversions(crys, rec, plist, lattvecs(dim, 2), st)
        elif case['task'].startswith('act'):
            big = crys.N > 8
            check_actions(crys, rec, ops[int(case['task'][3:])::4], plist, lattvecs(dim, 2), lattvecs(dim, 2, 1 if q else None),
                          lattvecs(dim, 1 if (q or big) else 2), st)
        else:
            check_algebra(crys, rec, ops, st)
        return {'states': len(ops), 'transitions': st['execs'], 'execs': st['execs'], 'nontrivial': st['nontrivial'],
                'outcomes': ['{}:{}:G{}:N{}'.format(case['name'], case['task'], len(ops), crys.N)], 'violations': rec.viols,
                'sample': {'case': case['key'], 'operations': len(ops), 'real_calls': st['execs']}}
    viols, outcomes, states = [], set(), 0
    decos = [case['single']] if 'single' in case else [
        {'dim': case['dim'], 'latt': case['latt'], 'strain': None, 'pos': pos, 'species': sp, 'spin': 'none', 'nosym': False}
        for sp in ('AA', 'AB') for pos in case['block']]
    for d in decos:
        dim = d['dim']
        try:
            crys = c18.build_decoration(d)
        except Exception as e:
            viols.append({'oracle': 'construct-exception', 'key': c18.deco_key(d), 'detail': '{}: {}'.format(type(e).__name__, e),
                          'case': {'key': c18.deco_key(d), 'kind': 'fam', 'single': d, 'tier': tier}})
            continue
        rec = Rec(c18.deco_key(d), {'key': c18.deco_key(d), 'kind': 'fam', 'single': d, 'tier': tier})
        ops = sorted(crys.G, key=lambda g: (tuple(int(x) for x in g.rot.reshape(-1)), tuple(np.round(g.trans, 6))))
        plist = [p for p in geom.positions(dim, 2) if all(i in (0, 2, 6) for i in p)][:8]
        check_conversions(crys, rec, plist, lattvecs(dim, 1), st)
        check_actions(crys, rec, ops, plist, lattvecs(dim, 1), lattvecs(dim, 1, 1), lattvecs(dim, 1, 1), st)
        check_algebra(crys, rec, ops, st, hlimit=6)
        states += len(ops)
        outcomes.add('{}:G{}:N{}'.format(d['latt'], len(ops), crys.N))
        viols.extend(rec.viols)
    # one violation per (oracle, rotation part) and case is enough
    seen, out = set(), []
    for v in viols:
        k = (v['oracle'], v['key'].split('|')[-1].split('t=')[0])
        if k in seen: continue
        seen.add(k); out.append(v)
    return {'states': states, 'transitions': st['execs'], 'execs': st['execs'], 'nontrivial': st['nontrivial'],
            'outcomes': sorted(outcomes), 'violations': out,
            'sample': {'case': case.get('key'), 'crystals': len(decos), 'real_calls': st['execs']}}
