"""
C06 — tracer limit: solute identical to host gives Lsv = -L0vv, L1vv = 0, 0 <= Lss <= L0vv.

E1: nodes = vacancy data (site classes and omega0 classes) within k deviations of the base points
T/G1/G2/X; the solute data are produced by the package's own tracer generator (maketracerpreene).
Pure identities: no reference model needed.
"""
import numpy as np
from mc import vm

PID = 'C06'
THOROUGH_HASHSEEDS = ['0', '1']     # two interpreter hash seeds in the thorough tier (one pass takes 15-30 min)
ENGINE = 'E1'
TECHNIQUE = 'bounded-exhaustive enumeration of vacancy data (k deviations from base points); tracer identities checked on every node'
RULE = ('node = (crystal, cutoff, Nthermo, base, <=k deviations on vacancy-site/omega0 classes); nontrivial = node differs '
        'from its base point and L0vv differs from the base point\'s by > 1e-9 relative')
LEVEL_TEXT = 'All vacancy data within k one-class deviations of four base points on every listed crystal; identities are exact statements, checked to round-off (1e-9) or to k-mesh accuracy where origin states exist.'
LEVEL_NOTE = 'No reference model: the identities are the oracle. Crystals with origin states (site vector basis) take the bare-bias correction from the k-mesh: tolerance = 20 x the measured diffusion-equation residual of the bare GF for that node (floor 1e-7).'

TOL, TOL_VB = 1e-9, 'max(1e-7, 20 x measured GF diffusion-equation residual of the node)'
QUICK = [('FCC', 0, 1), ('BCC', 0, 1), ('HCP', 0, 1), ('SQUARE', 0, 1), ('HONEY', 0, 1), ('OMEGA', 0, 1), ('FCC', 0, 2),
         ('RECTM', 0, 1), ('RECTMX', 0, 1), ('DIAMOND', 0, 1), ('HCP15', 1, 1), ('NBO', 0, 1)]
THOROUGH = QUICK + [('B2', 0, 1), ('ROMEGA', 0, 1), ('SC', 0, 1), ('TET', 1, 1), ('TRIA', 0, 1), ('KAGOME', 0, 1), ('L12', 0, 1), ('WURTZ2', 0, 1), ('FCC', 1, 1),
                    ('BCC', 0, 2), ('HCP', 0, 2), ('SQUARE', 0, 2), ('HONEY', 0, 2), ('OMEGA', 0, 2), ('B2', 0, 2), ('RECTM', 0, 2),
                    ('ORTH', 2, 1), ('TRIC', 2, 1), ('PYROPE', 0, 1)]
CHUNK = 40


def BOUNDS(tier):
    return {'crystals': QUICK if tier == 'quick' else THOROUGH, 'bases': ['T', 'G1', 'G2', 'X'], 'letters': vm.LETTER_NAMES,
            'k': '2 (1 for crystals with > 4 vacancy classes; base X: 1)' if tier == 'quick' else '2 (1 for > 8 vacancy classes)', 'tol': TOL, 'tol_vb': TOL_VB}


def _vcoords(ent):
    return [n for n, (kind, _) in enumerate(vm.coordinates(ent)) if kind in ('V', 'T0')]


def cases(tier):
    out = []
    k = 2      # (a third simultaneous deviation was tried for the thorough tier: 4 h per pass for no new outcome classes)
    for (name, icut, N) in (QUICK if tier == 'quick' else THOROUGH):
        ent = vm.calculator(name, icut, N)
        vc = _vcoords(ent)
        kk = k if len(vc) <= (4 if tier == 'quick' else 8) else k - 1
        devs = vm.dev_sets(len(vm.coordinates(ent)), len(vm.LETTERS), kk, kinds_filter=vc)
        nodes = [(b, d) for b in ('T', 'G1', 'G2', 'X') for d in devs if not (tier == 'quick' and b == 'X' and len(d) > 1)]
        for c in range(0, len(nodes), CHUNK):
            out.append({'key': '{}/{}/N{}/chunk{}'.format(name, icut, N, c // CHUNK), 'crystal': name, 'icut': icut, 'N': N,
                        'nodes': [[b, [list(x) for x in d]] for b, d in nodes[c:c + CHUNK]], 'cost': N})
    return out


def evaluate(case):
    ent = vm.calculator(case['crystal'], case['icut'], case['N'])
    calc = ent['calc']
    viols, outcomes, nontriv, unresolved = [], [], 0, 0
    baseL = {}
    for base, devs in case['nodes']:
        devs = [tuple(x) for x in devs]
        d = vm.apply_devs(ent, vm.base_data(ent, base), devs)
        d.update(calc.maketracerpreene(**d))      # solute = host
        key = '{}/cut{}/N{};vb={};base={};dev={}'.format(case['crystal'], case['icut'], case['N'], int(vm.has_vb(ent)), base, vm.dev_name(ent, devs))
        sub = dict(case, nodes=[[base, [list(x) for x in devs]]])
        try:
            L0, Lss, Lsv, L1 = vm.package_L(ent, d)
        except Exception as e:
            viols.append({'oracle': 'exception', 'key': key, 'detail': repr(e), 'case': sub}); continue
        sc = vm.tscale(L0)
        bad = {}
        tol = TOL
        if vm.has_vb(ent):
            # origin states: the identities hold to the calculator's k-mesh accuracy, which is measured per node
            tol, resid = vm.bz_tol(ent, d)
            if resid > 1e-4:
                # the bare GF does not satisfy its own equation to 1e-4 on this mesh: the k-mesh accuracy the property
                # refers to is not available; only finiteness is decided for such a node (counted in the evidence)
                unresolved += 1; tol = np.inf
        if not np.all(np.isfinite(np.hstack([L0.ravel(), Lss.ravel(), Lsv.ravel(), L1.ravel()]))): bad['finite'] = 1.
        e = float(np.abs(Lsv + L0).max()) / sc
        if e > tol: bad['Lsv=-L0vv'] = e
        e = float(np.abs(L1).max()) / sc
        if e > tol: bad['L1vv=0'] = e
        lo = float(np.linalg.eigvalsh(0.5 * (Lss + Lss.T)).min()) / sc
        if lo < -tol: bad['Lss>=0'] = lo
        hi = float(np.linalg.eigvalsh(0.5 * ((L0 - Lss) + (L0 - Lss).T)).min()) / sc
        if hi < -tol: bad['Lss<=L0vv'] = hi
        for orc, val in bad.items():
            viols.append({'oracle': orc, 'key': key, 'detail': {'value': val, 'L0vv': L0.tolist(), 'Lss': Lss.tolist(), 'Lsv': Lsv.tolist(), 'L1vv': L1.tolist()}, 'case': sub})
        outcomes.append('{:.6e}'.format(float(np.trace(Lss) / np.trace(L0))))
        if base not in baseL:
            db = vm.base_data(ent, base); db.update(calc.maketracerpreene(**db)); baseL[base] = vm.package_L(ent, db)[0]
        if devs and np.abs(L0 - baseL[base]).max() > 1e-9 * sc: nontriv += 1
    return {'states': len(case['nodes']), 'transitions': 4 * len(case['nodes']), 'execs': len(case['nodes']), 'outcomes': outcomes,
            'nontrivial': nontriv, 'violations': viols, 'unresolved_nodes_gf_residual_above_1e-4': unresolved,
            'sample': {'node': key, 'correlation_factor_trace_ratio': outcomes[-1] if outcomes else None}}
