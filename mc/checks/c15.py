"""
C15 -- tags map exactly onto symmetry classes (Interstitial.generatetags, VacancyMediated.generatetags,
VacancyMediated.tags2preene).

Part 1 (every calculator): all tags unique; the geometry is parsed back OUT OF THE TAG STRING, snapped onto the
crystal's sites with the check's own lookup, and the orbits of the named states / transitions under crys.G
(own implementation of the action u -> rot.u + trans, union-find, transitions also joined with their reverse)
are compared with the calculator's classes as partitions of the tag set; the image of every tagged object under
every group operation must itself be tagged (a class cannot be half an orbit).
Part 2 (VacancyMediated): explicit enumeration of user dictionaries around the default one (first member tag of
every class, class-distinct generic values): every one-move deviation, and every pair of moves from a reduced
move set; oracle = the parameter dictionary carries exactly the supplied values in exactly the class slots, and
the VERBOSE report equals the report computed from sets.
"""
import re, itertools
import numpy as np
from onsager import OnsagerCalc
from mc import catalog
from mc.refmodels import chain1

PID = 'C15'
ENGINE = 'E1'
TECHNIQUE = ('exhaustive enumeration of calculators x user-tag dictionaries (<=2 moves from the default); tag strings '
             'parsed back to geometry and compared with union-find orbits under the space group')
RULE = ('case = calculator (part 1 + all one-move dictionaries) or a chunk of its two-move dictionaries; moves: a class '
        'given through another member tag (all members), omitted, given twice (all pairs for <=6 members, else first+each), '
        'one bogus tag of 3 kinds; nontrivial = dictionary whose report or slots differ from the default dictionary')
ASSUMPTIONS = [
    'a class supplied twice with different values may carry either value (the property does not say which)',
    'slots of classes left without data are not prescribed by the property (defaults / LIMB) and are not compared',
    'two-move dictionaries use a reduced move set (per class: second and last member, omit, dup(first,second), '
    'dup(first,last); all classes of vacancy/solute/solute-vacancy/omega0/omega2 and the first 3 omega1 classes by tag order)',
]

INTERSTITIAL = ['FCC_O', 'FCC_T', 'FCC_OT', 'BCC_O', 'BCC_T', 'HCP_OT', 'HONEY', 'ROMEGA', 'RUMPLED2', 'WURTZ2', 'P1', 'P1_3', 'PMMM_G', 'P2MM_G', 'OBL3', 'TET4I',
                'RECTM', 'HEXM', 'KAGOME', 'POLAR4', 'PM2D', 'PYROPE', 'SC', 'FCC', 'BCC', 'HCP', 'DIAMOND', 'OMEGA',
                'B2', 'L12', 'NBO', 'SQUARE', 'TRIA', 'OBLIQUE', 'SQ2MM', 'TRIC', 'MONO']
VM_QUICK = [('FCC', 1), ('BCC', 1), ('HCP', 1), ('SC', 1), ('DIAMOND', 1), ('SQUARE', 1), ('TRIA', 1), ('HONEY', 1),
            ('KAGOME', 1), ('RECTM', 1), ('HEXM', 1), ('OMEGA', 1), ('ROMEGA', 1), ('B2', 1), ('WURTZ2', 1), ('NBO', 1),
            ('FCC', 2), ('BCC', 2), ('HCP', 2), ('SC', 2), ('SQUARE', 2), ('TRIA', 2), ('HONEY', 2), ('RECTM', 2),
            ('KAGOME', 2), ('HEXM', 2), ('DIAMOND', 2)]
VM_THOROUGH = VM_QUICK + [('OMEGA', 2), ('B2', 2), ('WURTZ2', 2), ('NBO', 2), ('ROMEGA', 2), ('L12', 1)]
NCHUNK2 = 6
SLOT = {'vacancy': ('preV', 'eneV'), 'solute': ('preS', 'eneS'), 'solute-vacancy': ('preSV', 'eneSV'),
        'omega0': ('preT0', 'eneT0'), 'omega1': ('preT1', 'eneT1'), 'omega2': ('preT2', 'eneT2')}
TYPES = ['vacancy', 'solute', 'solute-vacancy', 'omega0', 'omega1', 'omega2']


def BOUNDS(tier):
    return {'interstitial_calculators': ['{}:all cutoffs'.format(n) for n in INTERSTITIAL],
            'vacancy_mediated': ['{}:N{}'.format(n, N) for n, N in (VM_QUICK if tier == 'quick' else VM_THOROUGH)],
            'moves': 'member(all) | omit | dup(all pairs <=6 members, else first+each) | bogus {empty, nonexistent state, digit changed}',
            'k': '1 move: all; 2 moves: all pairs from the reduced move set (see assumptions)'}


def cases(tier):
    out = []
    for n in INTERSTITIAL:
        for ic in range(len(chain1.meta(catalog, n)['cut'])):
            out.append({'key': 'INT:{}:cut{}'.format(n, ic), 'kind': 'int', 'net': n, 'icut': ic, 'cost': 1.})
    for n, N in (VM_QUICK if tier == 'quick' else VM_THOROUGH):
        out.append({'key': 'VM:{}:N{}:k1'.format(n, N), 'kind': 'vm', 'net': n, 'N': N, 'part': 'k1', 'cost': 10. * N})
        for c in range(NCHUNK2):
            out.append({'key': 'VM:{}:N{}:k2:{}/{}'.format(n, N, c, NCHUNK2), 'kind': 'vm', 'net': n, 'N': N, 'part': 'k2',
                        'chunk': [c, NCHUNK2], 'cost': 8. * N})
    return out


# ------------------------------------------------------------------------------------- tag parsing / geometry
NUM = r'[+-]\d+\.\d{3}'


def parse_single(s, dim, kinds):
    m = re.fullmatch(r'([a-z]):(' + NUM + r'(?:,' + NUM + r'){' + str(dim - 1) + r'})', s)
    if m is None or m.group(1) not in kinds: raise ValueError('cannot parse single-defect tag {!r}'.format(s))
    return m.group(1), np.array([float(x) for x in m.group(2).split(',')])


def parse_tag(tag, dim):
    """-> (type, list of unit-coordinate vectors) ; raises ValueError when the string is not of a known form"""
    if tag.startswith('omega0:'):
        a, b = tag[len('omega0:'):].split('^')
        return 'omega0', [parse_single(a, dim, 'v')[1], parse_single(b, dim, 'v')[1]]
    if tag.startswith('omega1:'):
        sv, v2 = tag[len('omega1:'):].split('^')
        s, v1 = sv.split('-v:')
        return 'omega1', [parse_single(s, dim, 's')[1], parse_single('v:' + v1, dim, 'v')[1], parse_single(v2, dim, 'v')[1]]
    if tag.startswith('omega2:'):
        c1, c2 = tag[len('omega2:'):].split('^')
        out = []
        for c in (c1, c2):
            s, v = c.split('-v:')
            out += [parse_single(s, dim, 's')[1], parse_single('v:' + v, dim, 'v')[1]]
        return 'omega2', out
    if '^' in tag:
        a, b = tag.split('^')
        return 'transitions', [parse_single(a, dim, 'i')[1], parse_single(b, dim, 'i')[1]]
    if '-v:' in tag:
        s, v = tag.split('-v:')
        return 'solute-vacancy', [parse_single(s, dim, 's')[1], parse_single('v:' + v, dim, 'v')[1]]
    k, u = parse_single(tag, dim, 'isv')
    return {'i': 'states', 's': 'solute', 'v': 'vacancy'}[k], [u]


class Geom(object):
    """the check's own site lookup and group action (does not use GroupOp.indexmap)"""

    def __init__(self, crys, chem):
        self.crys, self.chem = crys, chem
        self.basis = [np.array(u) for u in crys.basis[chem]]
        self.G = [(np.array(g.rot), np.array(g.trans)) for g in crys.G]

    def snap(self, u, tol):
        hits = []
        for i, b in enumerate(self.basis):
            d = u - b
            R = np.round(d)
            if np.all(abs(d - R) < tol): hits.append((i, tuple(int(x) for x in R)))
        if len(hits) != 1: raise ValueError('position {} matches {} sites'.format(u, len(hits)))
        return hits[0]

    def act(self, g, site):
        i, R = site
        return self.snap(np.dot(g[0], self.basis[i] + np.array(R)) + g[1], 1e-6)


def rel(a, b):
    """site b relative to site a, modulo a joint lattice translation: (ia, ib, Rb - Ra)"""
    return (a[0], b[0], tuple(x - y for x, y in zip(b[1], a[1])))


def canon(typ, sites):
    if typ in ('states', 'solute', 'vacancy'): return (sites[0][0],)
    if typ in ('solute-vacancy', 'transitions', 'omega0'): return rel(sites[0], sites[1])
    if typ == 'omega1': return rel(sites[0], sites[1]) + rel(sites[0], sites[2])
    if typ == 'omega2': return rel(sites[0], sites[1]) + rel(sites[2], sites[3])
    raise KeyError(typ)


def reverse(typ, sites):
    if typ in ('transitions', 'omega0'): return [sites[1], sites[0]]
    if typ == 'omega1': return [sites[0], sites[2], sites[1]]
    if typ == 'omega2': return [sites[2], sites[3], sites[0], sites[1]]
    return None


def check_classes(label, crys, chem, tags, tagdict, tagdicttype, jumpnetwork):
    """part 1; returns (violations, stats)"""
    viols = []
    geom = Geom(crys, chem)
    dim = crys.dim

    def V(oracle, what, detail):
        viols.append({'oracle': oracle, 'key': '{}:{}'.format(label, what), 'detail': detail})

    alltags = [t for typ in tags for cl in tags[typ] for t in cl]
    if len(set(alltags)) != len(alltags): V('tags-not-unique', 'all', 'repeated tag strings')
    for typ in tags:
        for n, cl in enumerate(tags[typ]):
            for t in cl:
                if tagdict.get(t) != n or tagdicttype.get(t) != typ:
                    V('tagdict-inconsistent', typ, {'tag': t}); break
    if set(tagdict) != set(alltags): V('tagdict-inconsistent', 'keys', 'tagdict keys differ from the tag lists')
    # jumps of the network as relative site pairs (for the "a transition tag names a jump" oracle)
    jumprel = set()
    for jl in jumpnetwork:
        for (i, j), dx in jl:
            du = np.dot(crys.invlatt, dx) - (geom.basis[j] - geom.basis[i])
            jumprel.add((i, j, tuple(int(x) for x in np.round(du))))
    nobj = 0
    norbits = 0
    for typ in tags:
        objs = {}       # canonical object -> tag
        sites_of = {}
        bad = False
        for cl in tags[typ]:
            for t in cl:
                try:
                    ptyp, us = parse_tag(t, dim)
                    if ptyp != typ: raise ValueError('tag of type {} parsed as {}'.format(typ, ptyp))
                    sites = [geom.snap(u, 1e-3) for u in us]
                except ValueError as e:
                    V('tag-unparsable', typ, {'tag': t, 'why': str(e)}); bad = True; break
                c = canon(typ, sites)
                if c in objs:
                    V('two-tags-one-object', typ, {'tags': [objs[c], t]}); bad = True; break
                objs[c] = t
                sites_of[c] = sites
                # the tag must name what its type says
                if typ in ('transitions', 'omega0') and c not in jumprel:
                    V('tag-not-a-jump', typ, {'tag': t})
                if typ == 'omega1' and rel(sites[1], sites[2]) not in jumprel:
                    V('tag-not-a-jump', typ, {'tag': t})
                if typ == 'omega2':
                    p1, p2 = rel(sites[0], sites[1]), rel(sites[2], sites[3])
                    if not (p2 == (p1[1], p1[0], tuple(-x for x in p1[2])) and p1 in jumprel):
                        V('tag-not-an-exchange', typ, {'tag': t})
            if bad: break
        if bad: continue
        nobj += len(objs)
        # union-find over the tagged objects
        par = {c: c for c in objs}

        def find(a):
            while par[a] != a:
                par[a] = par[par[a]]
                a = par[a]
            return a

        open_orbit = None
        for c, sites in sites_of.items():
            images = [[geom.act(g, s) for s in sites] for g in geom.G]
            r = reverse(typ, sites)
            if r is not None: images.append(r)
            for im in images:
                ci = canon(typ, im)
                if ci not in objs:
                    if open_orbit is None: open_orbit = objs[c]
                    continue
                a, b = find(c), find(ci)
                if a != b: par[a] = b
        if open_orbit is not None:
            V('orbit-not-closed', typ, {'tag_with_untagged_image': open_orbit})
        orbits = {}
        for c in objs: orbits.setdefault(find(c), set()).add(objs[c])
        mine = set(frozenset(o) for o in orbits.values())
        theirs = set(frozenset(cl) for cl in tags[typ])
        norbits += len(mine)
        if mine != theirs:
            diff = sorted(min(x) for x in mine ^ theirs)
            V('class-not-orbit', typ, {'classes': len(theirs), 'orbits': len(mine), 'first_differing': diff[:3]})
    return viols, {'objects': nobj, 'orbits': norbits}


# ---------------------------------------------------------------------------------------- tags2preene (part 2)
def class_table(vm):
    """[(type, index, tags(list), canonical id = smallest tag)] in a hash-seed independent order"""
    tab = []
    for typ in TYPES:
        for n, cl in enumerate(vm.tags[typ]):
            tab.append((typ, n, list(cl), min(cl)))
    tab.sort(key=lambda x: (TYPES.index(x[0]), x[3]))
    return tab


def class_value(rank, second=False):
    pre = float(np.exp(0.3 * chain1._g(rank, chain1.S3)))
    ene = float(1.7 * chain1._g(rank, chain1.S5))
    return (pre * 3., ene + 7.) if second else (pre, ene)


def bogus_tags(vm):
    dim = vm.crys.dim
    out = [('empty', '')]
    fake = 'v:' + ','.join(['+0.123', '+0.456', '+0.789'][:dim])
    out.append(('nonexistent', fake))
    real = vm.tags['vacancy'][0][0]
    for pos in range(len(real) - 1, -1, -1):
        if real[pos].isdigit():
            cand = real[:pos] + str((int(real[pos]) + 1) % 10) + real[pos + 1:]
            if cand not in vm.tagdict:
                out.append(('digit', cand)); break
    for k, t in out:
        if t in vm.tagdict: raise RuntimeError('bogus tag {!r} is a real tag'.format(t))
    return out


def moves_full(tab, bog):
    mv = []
    for ci, (typ, n, cl, cid) in enumerate(tab):
        for m in range(1, len(cl)): mv.append(('member', ci, m))
        mv.append(('omit', ci))
        if len(cl) <= 6:
            for a, b in itertools.combinations(range(len(cl)), 2): mv.append(('dup', ci, a, b))
        else:
            for b in range(1, len(cl)): mv.append(('dup', ci, 0, b))
    for k, t in bog: mv.append(('bogus', k, t))
    return mv


def moves_reduced(tab, bog):
    mv = []
    nom1 = 0
    for ci, (typ, n, cl, cid) in enumerate(tab):
        if typ == 'omega1':
            nom1 += 1
            if nom1 > 3: continue
        idx = sorted(set([1, len(cl) - 1]) - {0}) if len(cl) > 1 else []
        for m in idx: mv.append(('member', ci, m))
        mv.append(('omit', ci))
        for m in idx: mv.append(('dup', ci, 0, m))
    for k, t in bog: mv.append(('bogus', k, t))
    return mv


def move_class(mv): return mv[1] if mv[0] != 'bogus' else ('bogus', mv[1])


def build_dict(tab, moves):
    """user dictionary for the default + moves; returns (dict, expected) where expected[ci] = set of acceptable values
    (empty set: class not supplied), and the expected report pieces"""
    d, expect = {}, {}
    touched = {move_class(m): m for m in moves}
    for ci, (typ, n, cl, cid) in enumerate(tab):
        m = touched.get(ci)
        v1, v2 = class_value(ci), class_value(ci, True)
        if m is None: d[cl[0]] = v1; expect[ci] = {v1}
        elif m[0] == 'member': d[cl[m[2]]] = v1; expect[ci] = {v1}
        elif m[0] == 'omit': expect[ci] = set()
        elif m[0] == 'dup': d[cl[m[2]]] = v1; d[cl[m[3]]] = v2; expect[ci] = {v1, v2}
    for m in moves:
        if m[0] == 'bogus': d[m[2]] = (2.5, -3.25)
    return d, expect


def reference_report(tab, d):
    missing, dups = {}, set()
    known = set()
    for typ, n, cl, cid in tab:
        given = [t for t in cl if t in d]
        known.update(cl)
        if not given: missing.setdefault(typ, set()).add(frozenset(cl))
        if len(given) > 1: dups.add(frozenset(given))
    bad = set(t for t in d if t not in known)
    return missing, dups, bad


def movekey(tab, m):
    if m[0] == 'bogus': return 'bogus-' + m[1]
    typ, n, cl, cid = tab[m[1]]
    if m[0] == 'omit': return 'omit[{}]'.format(cid)
    if m[0] == 'member': return 'member[{}]'.format(cl[m[2]])
    return 'dup[{}|{}]'.format(*sorted([cl[m[2]], cl[m[3]]]))


def check_dict(vm, tab, moves):
    """returns list of (oracle, detail)"""
    fails = []
    d, expect = build_dict(tab, moves)
    td = vm.tags2preene(dict(d))
    out = vm.tags2preene(dict(d), VERBOSE=True)
    if not (isinstance(out, tuple) and len(out) == 4):
        return [('verbose-shape', repr(type(out)))], None
    tdv, missing, dups, bad = out
    for typ in TYPES:
        for nm in SLOT[typ]:
            if nm not in td or len(td[nm]) != len(vm.tags[typ]):
                fails.append(('slot-shape', {'name': nm})); return fails, None
            if not np.array_equal(np.array(td[nm]), np.array(tdv[nm])):
                fails.append(('verbose-changes-values', {'name': nm}))
    for ci, (typ, n, cl, cid) in enumerate(tab):
        if not expect[ci]: continue
        got = (float(td[SLOT[typ][0]][n]), float(td[SLOT[typ][1]][n]))
        if got not in expect[ci]:
            fails.append(('slot-value', {'class': cid, 'type': typ, 'got': list(got), 'supplied': sorted(list(x) for x in expect[ci])}))
            break
    rm, rd, rb = reference_report(tab, d)
    gm = {}
    try:
        for typ, lists in missing.items():
            s = set(frozenset(l) for l in lists)
            if len(s) != len(lists): fails.append(('report-missing', {'why': 'class listed twice', 'type': typ}))
            if s: gm[typ] = s
        gd = [frozenset(l) for l in dups]
        gb = list(bad)
    except Exception as e:
        return fails + [('report-shape', '{}: {}'.format(type(e).__name__, e))], None
    if gm != rm:
        fails.append(('report-missing', {'got_types': {k: len(v) for k, v in gm.items()}, 'want_types': {k: len(v) for k, v in rm.items()}}))
    if set(gd) != rd or len(gd) != len(rd):
        fails.append(('report-duplicates', {'got': sorted(sorted(x) for x in gd)[:3], 'want': sorted(sorted(x) for x in rd)[:3]}))
    if set(gb) != rb or len(gb) != len(rb):
        fails.append(('report-badtags', {'got': sorted(gb), 'want': sorted(rb)}))
    digest = (tuple(sorted((k, len(v)) for k, v in gm.items())), len(gd), len(gb))
    return fails, digest


def evaluate(case):
    if case['kind'] == 'int':
        crys, chem, sl, jn = chain1.network(catalog, case['net'], case['icut'])
        it = OnsagerCalc.Interstitial(crys, chem, sl, jn)
        label = 'INT:{}:cut{}'.format(case['net'], case['icut'])
        viols, st = check_classes(label, crys, chem, it.tags, it.tagdict, it.tagdicttype, jn)
        return {'states': st['objects'], 'transitions': st['objects'] * (len(crys.G) + 1), 'execs': 1, 'violations': viols,
                'nontrivial': st['orbits'], 'outcomes': ['{}:{}:{}'.format(label, st['objects'], st['orbits'])],
                'sample': {'case': case['key'], 'tagged_objects': st['objects'], 'orbits': st['orbits']}}
    name, N = case['net'], case['N']
    crys, chem, sl, jn = catalog.network(name, 0)
    vm = OnsagerCalc.VacancyMediated(crys, chem, sl, jn, N)
    label = 'VM:{}:N{}'.format(name, N)
    viols, outcomes = [], set()
    tab = class_table(vm)
    bog = bogus_tags(vm)
    nstates = ntrans = nontriv = 0
    if 'moves' in case:          # replay of one dictionary: moves given by their hash-seed independent keys
        full = moves_full(tab, bog)
        bykey = {movekey(tab, m): m for m in full}
        movesets = [tuple(bykey[k] for k in case['moves'])]
    elif case['part'] == 'k1':
        v1, st = check_classes(label, crys, chem, vm.tags, vm.tagdict, vm.tagdicttype, jn)
        viols += v1
        nstates += st['objects']; ntrans += st['objects'] * (len(crys.G) + 1); nontriv += st['orbits']
        outcomes.add('{}:{}:{}'.format(label, st['objects'], st['orbits']))
        movesets = [()] + [(m,) for m in moves_full(tab, bog)]
    else:
        red = moves_reduced(tab, bog)
        pairs = [(a, b) for a, b in itertools.combinations(red, 2) if move_class(a) != move_class(b)]
        c, n = case['chunk']
        movesets = [()] + pairs[c::n]
    seen = {}
    base_digest = None
    for ms in movesets:
        try:
            fails, dg = check_dict(vm, tab, ms)
        except Exception as e:
            fails, dg = [('exception', '{}: {}'.format(type(e).__name__, e))], None
        nstates += 1; ntrans += 1
        if not ms: base_digest = dg
        if dg is not None:
            outcomes.add(str(dg))
            if ms and dg != base_digest: nontriv += 1
        for orc, det in fails:
            kinds = '+'.join(sorted(m[0] + ('-' + m[1] if m[0] == 'bogus' else '') for m in ms)) or 'default'
            mk = [movekey(tab, m) for m in ms]
            v = {'oracle': orc, 'key': '{}:{}:{}'.format(label, kinds, ';'.join(mk)), 'detail': det,
                 'case': {'key': case['key'] + ':replay', 'kind': 'vm', 'net': name, 'N': N, 'part': 'replay', 'moves': mk}}
            # one violation per oracle and case; which one must not depend on the hash seed (class and member order
            # do): fewest moves first, then the smallest key
            rank = (len(ms), v['key'])
            if orc not in seen or rank < seen[orc][0]: seen[orc] = (rank, v)
    viols += [v for r, v in seen.values()]
    return {'states': nstates, 'transitions': ntrans, 'execs': nstates, 'nontrivial': nontriv, 'outcomes': sorted(outcomes),
            'violations': viols,
            'sample': {'case': case['key'], 'classes': len(tab), 'dictionaries': len(movesets),
                       'tags': {t: [len(vm.tags[t]), sum(len(c) for c in vm.tags[t])] for t in TYPES}}}
