"""
C05 — Rayleigh monotonicity: lowering one transition-state free energy never decreases D, L0vv or Lss.

E1 with edge oracle: every node (base T/G1/G2 within one deviation, plus nodes whose omega2 rates are large
enough to switch the large-omega2 algorithm on) x every transition-state class (omega0, omega1, omega2;
interstitial jump classes) x delta in {0.1, 1, 5}: the change of the tensor must be positive semidefinite.
"""
import numpy as np
from mc import vm, inter

PID = 'C05'
ENGINE = 'E1'
TECHNIQUE = 'bounded-exhaustive enumeration of (node, transition-state class, delta) edges; positive semidefiniteness of the change checked on every edge'
RULE = ('edge = (node, one transition-state class lowered by delta); nontrivial = edges on which the tensor actually changes by > 1e-9 relative')
LEVEL_TEXT = 'Every transition-state class of every enumerated node is lowered by each delta; semidefiniteness of the difference is checked with a round-off tolerance (k-mesh tolerance when the bare GF is recomputed or origin states exist).'
LEVEL_NOTE = 'omega0 edges recompute the bare GF on the same mesh: the difference of two k-mesh results is compared with 20 x the measured GF residual.'

TOL = 1e-9
DELTAS = [0.1, 1.0, 5.0]
VM_QUICK = [('FCC', 0, 1), ('HCP', 0, 1), ('HONEY', 0, 1), ('OMEGA', 0, 1), ('RECTM', 0, 1)]
VM_THOROUGH = VM_QUICK + [('BCC', 0, 1), ('SC', 0, 1), ('SQUARE', 0, 1), ('DIAMOND', 0, 1), ('B2', 0, 1), ('ROMEGA', 0, 1), ('FCC', 0, 2), ('SQUARE', 0, 2), ('NBO', 0, 1)]
CHUNK = 6
BIGOM2 = 25.0      # lowering every omega2 transition state by 25 (rate x 7e10) puts the node in the large-omega2 regime


def BOUNDS(tier):
    return {'vacancy-mediated': VM_QUICK if tier == 'quick' else VM_THOROUGH, 'interstitial': inter.INTER_CRYSTALS, 'deltas': DELTAS,
            'bases': ['T', 'G1', 'G2', 'G1+all omega2 lowered by 25 (large-omega2 algorithm)', 'G1+one omega2 class lowered by 25 (each class in turn)'], 'k': '1 (letter E+5 on every coordinate)' if tier == 'thorough' else 0, 'tol': TOL}


def cases(tier):
    out = []
    for (name, icut, N) in (VM_QUICK if tier == 'quick' else VM_THOROUGH):
        ent = vm.calculator(name, icut, N)
        nco = len(vm.coordinates(ent))
        devs = [()]
        # letter E+5 on every coordinate; not on crystals with origin states: their comparison is limited by the k-mesh accuracy of
        # the bare bias correction, which a +5 letter degrades to the size of the changes under test (RECTM, B2 at base G2)
        if tier == 'thorough' and not vm.has_vb(ent): devs += [((c, 2),) for c in range(nco)]
        nodes = [(b, d) for b in ('T', 'G1', 'G2', 'G1L') for d in devs]
        # one exchange class alone in the large-omega2 regime (crystals with several exchange classes)
        nT2 = len(vm.class_keys(ent)['T2'])
        if nT2 >= 2: nodes += [('G1S%d' % k, ()) for k in range(nT2)]
        for c in range(0, len(nodes), CHUNK):
            out.append({'key': 'vm/{}/{}/N{}/chunk{}'.format(name, icut, N, c // CHUNK), 'kind': 'vm', 'crystal': name, 'icut': icut, 'N': N,
                        'nodes': [[b, [list(x) for x in d]] for b, d in nodes[c:c + CHUNK]], 'cost': N})
    for (name, icut) in inter.INTER_CRYSTALS:
        out.append({'key': 'int/{}/{}'.format(name, icut), 'kind': 'int', 'crystal': name, 'icut': icut, 'cost': 0.3})
    return out


def minrel(dT, sc):
    return float(np.linalg.eigvalsh(0.5 * (dT + dT.T)).min()) / sc


def evaluate(case):
    return eval_vm(case) if case['kind'] == 'vm' else eval_int(case)


def eval_vm(case):
    ent = vm.calculator(case['crystal'], case['icut'], case['N'])
    vb = vm.has_vb(ent)
    coords = vm.coordinates(ent)
    ts = [n for n, (kind, _) in enumerate(coords) if kind in ('T0', 'T1', 'T2')]
    viols, outcomes, ntr, nontriv = [], [], 0, 0
    for base, devs in case['nodes']:
        devs = [tuple(x) for x in devs]
        d = vm.base_data(ent, 'G1' if base.startswith('G1') else base)
        if base == 'G1L': d['eneT2'] = d['eneT2'] - BIGOM2
        if base.startswith('G1S'):
            keys2 = vm.class_keys(ent)['T2']
            n2 = sorted(range(len(keys2)), key=lambda n: keys2[n])[int(base[3:])]     # canonical (hash-seed independent) class order
            d['eneT2'][n2] -= BIGOM2
        d = vm.apply_devs(ent, d, devs)
        nkey = 'vm/{}/cut{}/N{};vb={};multiwyckoff={};base={};dev={}'.format(case['crystal'], case['icut'], case['N'], int(vb), int(len(ent['sitelist']) > 1), base, vm.dev_name(ent, devs))
        L = vm.package_L(ent, d)
        sc = vm.tscale(L[0], L[1])
        for ci in ts:
            kind, n = coords[ci]
            for delta in DELTAS:
                d2 = {k: v.copy() for k, v in d.items()}
                d2[vm.ENE[kind]][n] -= delta
                key = nkey + ';lower={}:{:g}'.format('.'.join(str(x) for x in vm.class_keys(ent)[kind][n]), delta)
                sub = dict(case, nodes=[[base, [list(x) for x in devs]]])
                try:
                    L2 = vm.package_L(ent, d2)
                except Exception as e:
                    viols.append({'oracle': 'exception', 'key': key, 'detail': repr(e), 'case': sub}); continue
                ntr += 1
                tol = TOL
                if vb or kind == 'T0': tol = max(tol, vm.bz_tol(ent, d)[0], vm.bz_tol(ent, d2)[0])
                sc2 = max(sc, vm.tscale(L2[0], L2[1]))
                changed = False
                for name, a, b in (('L0vv', L[0], L2[0]), ('Lss', L[1], L2[1])):
                    m = minrel(b - a, sc2)
                    if np.abs(b - a).max() > 1e-9 * sc2: changed = True
                    if not np.isfinite(m) or m < -tol:
                        viols.append({'oracle': name + '-decreased', 'key': key, 'detail': {'min eig of change / scale': m, 'tol': tol, 'before': a.tolist(), 'after': b.tolist()}, 'case': sub})
                if kind != 'T0' and np.abs(L2[0] - L[0]).max() > 0:
                    viols.append({'oracle': 'L0vv-depends-on-solute-data', 'key': key, 'detail': float(np.abs(L2[0] - L[0]).max()), 'case': sub})
                nontriv += 1 if changed else 0
        outcomes.append('{:.6e}'.format(float(np.trace(L[1]))))
    return {'states': len(case['nodes']), 'transitions': ntr, 'execs': ntr + len(case['nodes']), 'outcomes': outcomes, 'nontrivial': nontriv,
            'violations': viols, 'sample': {'edge': key}}


def eval_int(case):
    ent = inter.calculator(case['crystal'], case['icut'])
    coords = inter.coordinates(ent)
    nco = len(coords)
    js = [n for n, (kind, _) in enumerate(coords) if kind == 'jump']
    viols, outcomes, ntr, nontriv, nst = [], [], 0, 0, 0
    for base in ('T', 'G1', 'G2', 'X'):
        for devs in [()] + [((c, l),) for c in range(nco) for l in (0, 2, 3)]:
            d = inter.apply_devs(ent, inter.base_data(ent, base), devs)
            nkey = 'int/{}/cut{};base={};dev={}'.format(case['crystal'], case['icut'], base, inter.dev_name(ent, devs))
            try:
                D0 = inter.D(ent, d); nst += 1
            except Exception as e:
                viols.append({'oracle': 'exception', 'key': nkey, 'detail': repr(e)}); continue
            for ci in js:
                n = coords[ci][1]
                for delta in DELTAS:
                    d2 = {k: v.copy() for k, v in d.items()}
                    d2['betaeneT'][n] -= delta
                    key = nkey + ';lower={}:{:g}'.format('.'.join(str(x) for x in inter.class_keys(ent)['jump'][n]), delta)
                    try:
                        D1 = inter.D(ent, d2)
                    except Exception as e:
                        viols.append({'oracle': 'exception', 'key': key, 'detail': repr(e)}); continue
                    ntr += 1
                    sc = vm.tscale(D0, D1)
                    m = minrel(D1 - D0, sc)
                    if np.abs(D1 - D0).max() > 1e-9 * sc: nontriv += 1
                    if not np.isfinite(m) or m < -TOL:
                        viols.append({'oracle': 'D-decreased', 'key': key, 'detail': {'min eig of change / scale': m, 'before': D0.tolist(), 'after': D1.tolist()}})
            outcomes.append('{:.6e}'.format(float(np.trace(D0))))
    return {'states': nst, 'transitions': ntr, 'execs': ntr + nst, 'outcomes': outcomes, 'nontrivial': nontriv, 'violations': viols, 'sample': {'edge': key}}
