"""
C35 -- the compiled sampler (numba jitclass MonteCarloSampler_jit) behaves exactly like MonteCarloSampler.

E3 lock-step product explorer: state = (reference sampler, compiled sampler built from it through the documented
export MonteCarloSampler_jit(**MonteCarloSampler_param(ref))).  All nondeterminism of MCmoves is owned by the check:
the index choices and the -kT ln u thresholds are passed in as arrays.

 kind 'api'    one fresh interpreter (no workaround installed) builds a sampler and calls every method of the
               compiled class once: a method that cannot be compiled/called is a violation (this is where F12,
               `np.Inf` inside MonteCarloSampler_jit.transitions, shows up as `jit-method-unusable|transitions...`).
 kind 'lock'   for EVERY occupation sigma of the supercell:
                 export   ref.start(sigma) -> export -> compiled object   (and once per case: export of the un-started ref)
                 start    compiled.start(sigma) on one long-lived compiled object (history of many starts)
                 trial    deltaE_trial(i, j) for every (unoccupied i, occupied j)
                 update   update(i, j) for every such pair, from sigma
                 transitions()  after start and after every update (forbidden jumps must be +inf, the others in the
                               order and with the values of the reference)
                 MCmoves  every choice sequence of length <= L over all (index into unoccupied_set, index into
                          occupied_set) pairs x thresholds {0, |dE|/2, 2|dE|, inf}: one batch call == the same moves
                          one at a time == Metropolis rule (accept iff dE < threshold) applied to the reference sampler.
               L = 3 for supercells with <= 4 mobile sites (all start states); for 8 sites: L = 1 from every state,
               L = 2 from states with counting index = 0 mod 17, L = 3 from the states with counting index 90 (quick) / 37 and 90 (thorough), split into one case per first move.
 After every operation: occ, E, clustercount, Nocc/Nunocc, occupied/unoccupied sets (as sets), index consistency
 (occupied_set[index[i]] == i ...) equal the reference; batch vs one-at-a-time compiled objects: all arrays identical.

So that the remaining behaviour of transitions() stays checked while F12 is open, the worker processes install
`numpy.Inf = numpy.inf` when (and only when) the attribute is missing; the 'api' case runs without it.
"""
import itertools, json, os, subprocess, sys
import numpy as np
from mc.refmodels import energy as en

PID = 'C35'
ENGINE = 'E3'
CHUNK = 2
TECHNIQUE = 'lock-step exploration of (MonteCarloSampler, MonteCarloSampler_jit) pairs over all occupations and bounded choice sequences'
RULE = ('lock: supercell x vacancy x jump network x spectator occupation x chunk of start occupations; every operation of the '
        'menu from every start state; MCmoves sequences as stated; non-trivial = accepted moves that change the energy. '
        'api: every method of the compiled class called once in a fresh interpreter')
ASSUMPTIONS = ['Metropolis rule of MCmoves: accept iff dE < kTlogu[i] (strict), as coded and as the docstring\'s u in (0,1) implies',
               'numpy.Inf is aliased to numpy.inf inside the worker processes when missing (F12 is reported by the api case)',
               'the order of occupied_set / unoccupied_set is not prescribed; choices are resolved by reading the arrays',
               'tolerance 1e-10 on energies (different summation order)']
TOL = 1e-10
_STATE = {'warm': False, 'shim': False, 'trans_error': None}


def _configs(tier):
    # (supercell, icut, order, vacancy, jump network)
    if tier == 'quick':
        return [('HCP211', 2, 3, None, True), ('HCP211', 2, 3, 0, True), ('HCP211', 2, 3, None, False),
                ('B2AB211sB', 2, 3, None, True), ('FCC2I', 1, 3, None, True), ('FCC2I', 1, 3, 5, True)]
    return [('HCP211', 2, 3, None, True), ('HCP211', 2, 3, 0, True), ('HCP211', 2, 3, 3, True), ('HCP211', 2, 4, None, False),
            ('B2AB211sB', 2, 3, None, True), ('B2AB211sB', 2, 3, 1, True), ('B2AB211m', 2, 3, None, True), ('B2AB211m', 2, 3, 2, True),
            ('FCCskew4', 2, 3, None, True), ('FCCO211sPd', 2, 3, None, True), ('CHAINAB5', 2, 3, None, True),
            ('FCC2I', 2, 3, None, True), ('FCC2I', 2, 3, 5, True), ('FCC2I', 2, 3, None, False),
            ('HCP221', 2, 3, None, True), ('CHAIN8', 2, 3, None, True), ('CHAIN8', 2, 3, 3, True)]


def _l3(tier): return [90] if tier == 'quick' else [37, 90]    # counting indices of the 8-site start states explored to MCmoves length 3


def BOUNDS(tier):
    return {'configs(supercell,cutoff interval,order,vacancy,jump network)': _configs(tier), 'spectator occupations': 'all',
            'start states': 'all occupations', 'thresholds': ['0', '|dE|/2', '2|dE|', 'inf', '(|dE| < 1e-9: 1, inf)'],
            'MCmoves length': '3 (<= 5 mobile sites); 8 sites: 1 all states, 2 states = 0 mod 17, 3 from states with counting index ' + str(_l3(tier))}


def cases(tier):
    _warm()      # compile in the parent: forked workers inherit the compiled class
    out = [{'key': 'api', 'kind': 'api', 'cost': 1e9}]
    for name, icut, order, vac, jn in _configs(tier):
        sup = en.build_supercell(name)
        nm, ns = len(sup.mobilepos), len(sup.specpos)
        nstates = 2 ** (nm - (vac is not None))
        nchunk = 16 if nm > 5 else (4 if nm > 2 else 1)
        for sb in itertools.product((0, 1), repeat=ns):
            for ch in range(nchunk):
                out.append({'key': 'lock:{}:cut{}o{}:vac{}:{}:s{}:chunk{}of{}'.format(name, icut, order, '-' if vac is None else vac, 'jn' if jn else 'nojn',
                                                                                  ''.join(map(str, sb)) or '-', ch, nchunk),
                            'kind': 'lock', 'sup': name, 'icut': icut, 'order': order, 'vac': vac, 'jn': jn, 'socc': list(sb),
                            'chunk': ch, 'nchunk': nchunk, 'cost': nstates / nchunk * nm ** 2})
            if nm > 5:
                # MCmoves length 3 from the listed start states: one case per first move (a, b)
                for n3 in _l3(tier):
                    occ3 = list(en.all_occupations(nm, vac))[n3]
                    npair = int(np.sum(occ3 == 0) * np.sum(occ3 == 1))
                    for first in range(npair):
                        out.append({'key': 'lock:{}:cut{}o{}:vac{}:{}:s{}:L3state{}:first{}'.format(name, icut, order, '-' if vac is None else vac,
                                                                                                  'jn' if jn else 'nojn', ''.join(map(str, sb)) or '-', n3, first),
                                    'kind': 'lock', 'sup': name, 'icut': icut, 'order': order, 'vac': vac, 'jn': jn, 'socc': list(sb),
                                    'chunk': 0, 'nchunk': 1, 'l3state': n3, 'l3first': first, 'cost': 1e6})
    return out


# ------------------------------------------------------------------------------------------------ compile once
def _make_jit(ref):
    from onsager import cluster
    return cluster.MonteCarloSampler_jit(**cluster.MonteCarloSampler_param(ref))


def _warm():
    """compile every method once per process (module-level cache); install the numpy.Inf alias only if missing"""
    if _STATE['warm']: return
    st = en.get_setup('HCP211', 2, 3, None, True)
    ref = st.sampler([])
    occ = np.array([1, 0, 1, 0])
    ref.start(occ.copy())
    j = _make_jit(ref)
    j.start(occ); j.E(); j.deltaE_trial(1, 0); j.copy()
    j.MCmoves(np.array([0]), np.array([0]), np.array([0.]))
    j.update(int(j.unoccupied_set[0]), int(j.occupied_set[0]))
    try:
        j.transitions()
    except Exception as e:
        if not hasattr(np, 'Inf'):
            np.Inf = np.inf
            _STATE['shim'] = True
            try:
                j.transitions()
            except Exception as e2:
                _STATE['trans_error'] = '{}: {}'.format(type(e2).__name__, str(e2).split('\n')[0][:200])
        else:
            _STATE['trans_error'] = '{}: {}'.format(type(e).__name__, str(e).split('\n')[0][:200])
    _STATE['warm'] = True


API_SCRIPT = r'''
import sys, json
sys.path.insert(0, %r)
import numpy as np
from onsager import cluster
from mc.refmodels import energy as en
st = en.get_setup('HCP211', 2, 3, None, True)
ref = st.sampler([])
occ = np.array([1, 0, 1, 0])
ref.start(occ.copy())
out = {}
try:
    j = cluster.MonteCarloSampler_jit(**cluster.MonteCarloSampler_param(ref))
except Exception as e:
    out['constructor'] = type(e).__name__ + ': ' + str(e).split('\n')[0][:200]
    print('RESULT' + json.dumps(out)); sys.exit(0)
calls = [('start', lambda: j.start(occ)), ('E', lambda: j.E()), ('deltaE_trial', lambda: j.deltaE_trial(1, 0)),
         ('copy', lambda: j.copy()), ('MCmoves', lambda: j.MCmoves(np.array([0]), np.array([0]), np.array([0.]))),
         ('update', lambda: j.update(int(j.unoccupied_set[0]), int(j.occupied_set[0]))), ('transitions', lambda: j.transitions())]
for name, f in calls:
    try:
        f()
    except Exception as e:
        out[name] = type(e).__name__ + ': ' + str(e).split('\n')[0][:200]
print('RESULT' + json.dumps(out))
'''


def eval_api(case):
    verif = os.path.dirname(os.path.dirname(os.path.dirname(os.path.abspath(__file__))))
    env = dict(os.environ, PYTHONWARNINGS='ignore', PYTHONHASHSEED=os.environ.get('PYTHONHASHSEED', '0'))
    p = subprocess.run([sys.executable, '-c', API_SCRIPT % verif], capture_output=True, text=True, env=env, cwd=verif)
    line = [l for l in p.stdout.splitlines() if l.startswith('RESULT')]
    if not line: raise RuntimeError('api probe failed: ' + p.stderr[-400:])
    res = json.loads(line[0][6:])
    viols = []
    for name, err in sorted(res.items()):
        tag = 'np.Inf' if 'np.Inf' in err else err.split(':')[0]
        viols.append({'oracle': 'jit-method-unusable', 'key': '{}:{}'.format(name, tag), 'detail': err})
    return {'states': 1, 'transitions': 7, 'execs': 7, 'outcomes': ['api:' + ','.join(sorted(res)) or 'api:ok'], 'nontrivial': 1, 'violations': viols,
            'sample': {'case': 'api', 'failing methods': res}}


# ------------------------------------------------------------------------------------------------ lock-step
def ref_transitions(ref):
    ij, Q, dx = ref.transitions()
    return [(int(a), int(b)) for a, b in ij], np.array(Q, dtype=float), np.array(dx, dtype=float).reshape(len(ij), 3)


def diff(ref, jit, vac, with_trans):
    """observational differences between the reference and the compiled sampler"""
    out = []
    jocc = np.array(jit.occ)
    if not np.array_equal(jocc, np.asarray(ref.occ)): out.append(('occ', [jocc.tolist(), np.asarray(ref.occ).tolist()]))
    ej, er = float(jit.E()), float(ref.E())
    if abs(ej - er) > TOL: out.append(('E', [ej, er]))
    if not np.array_equal(np.array(jit.clustercount), np.asarray(ref.clustercount)): out.append(('clustercount', 'differs'))
    no, nu = int(jit.Nocc), int(jit.Nunocc)
    oset, uset = [int(x) for x in jit.occupied_set[:no]], [int(x) for x in jit.unoccupied_set[:nu]]
    if no != len(ref.occupied_set) or set(oset) != set(ref.occupied_set) or len(set(oset)) != no: out.append(('occupied_set', [oset, sorted(ref.occupied_set)]))
    if nu != len(ref.unoccupied_set) or set(uset) != set(ref.unoccupied_set) or len(set(uset)) != nu: out.append(('unoccupied_set', [uset, sorted(ref.unoccupied_set)]))
    idx = np.array(jit.index)
    if not out:
        if any(idx[s] != k for k, s in enumerate(oset)) or any(idx[s] != k for k, s in enumerate(uset)): out.append(('index', idx.tolist()))
    if with_trans and ref.jumps is not None and _STATE['trans_error'] is None and not out:
        rij, rQ, rdx = ref_transitions(ref)
        jij, jQ, jdx = jit.transitions()
        jij, jQ, jdx = np.array(jij), np.array(jQ), np.array(jdx)
        allij = [(int(a), int(b)) for (a, b), _ in ref.jumps]
        if [(int(a), int(b)) for a, b in jij] != allij: out.append(('transitions-jumplist', 'jump_ij differs from the reference jump list'))
        else:
            fin = np.isfinite(jQ)
            if np.any(~fin & ~(jQ == np.inf)): out.append(('transitions-forbidden-marker', jQ[~fin].tolist()[:4]))
            kept = [allij[n] for n in range(len(allij)) if fin[n]]
            if kept != rij: out.append(('transitions-allowed-set', {'jit': kept[:6], 'ref': rij[:6], 'njit': len(kept), 'nref': len(rij)}))
            elif len(rij) and (np.max(np.abs(jQ[fin] - rQ)) > TOL or np.max(np.abs(jdx[fin] - rdx)) > 0):
                out.append(('transitions-values', float(np.max(np.abs(jQ[fin] - rQ)))))
    return out


def same_arrays(a, b):
    """two compiled samplers that went through the same moves: every array identical"""
    return (np.array_equal(a.occ, b.occ) and np.array_equal(a.clustercount, b.clustercount) and a.Nocc == b.Nocc and a.Nunocc == b.Nunocc
            and np.array_equal(a.occupied_set[:a.Nocc], b.occupied_set[:b.Nocc]) and np.array_equal(a.unoccupied_set[:a.Nunocc], b.unoccupied_set[:b.Nunocc])
            and np.array_equal(a.index, b.index))


def thresholds(dE):
    """{0, |dE|/2, 2|dE|, inf}; when dE is zero up to rounding (the two samplers sum in different orders: +-1e-14) the
    comparison dE < 0 is a tie that neither implementation can decide reproducibly -- ties are excluded, as for cutoffs --
    and the menu is {1, inf} (docstring: kTlogu > 0 for u in (0,1), so a zero dE is always accepted)"""
    a = abs(dE)
    if a < 1e-9: return [1., np.inf]
    out = []
    for t in (0., 0.5 * a, 2. * a, np.inf):
        if t not in out: out.append(t)
    return out


def evaluate(case):
    if case['kind'] == 'api': return eval_api(case)
    _warm()
    st = en.get_setup(case['sup'], case['icut'], case['order'], case['vac'], case['jn'])
    socc = np.array(case['socc'], dtype=int)
    vac, nm = st.vac, st.nm
    base = st.label(socc)
    ref = st.sampler(socc)
    viols, seen = [], set()
    stats = {'ops': 0, 'nontriv': 0}
    outcomes = set()
    if _STATE['trans_error'] is not None:
        viols.append({'oracle': 'jit-transitions-unusable', 'key': _STATE['trans_error'].split(':')[0], 'detail': _STATE['trans_error']})

    def bad(what, start, desc, det):
        opkind = desc.split('(')[0]
        if (what, opkind) in seen: return
        seen.add((what, opkind))
        sub = dict(case, only=en.bits(start))
        viols.append({'oracle': what, 'key': '{}:start{}:{}'.format(base, en.bits(start), desc), 'detail': det, 'case': sub})

    def check(jit, start, desc, with_trans):
        stats['ops'] += 1
        d = diff(ref, jit, vac, with_trans)
        for what, det in d: bad('lockstep-' + what, start, desc, det)
        return not d

    # ---- export of the un-started reference sampler: documented default = everything occupied
    full = np.ones(nm, dtype=int)
    if vac is not None: full[vac] = -1
    jit0 = _make_jit(ref)
    ref.start(full.copy())
    check(jit0, full, 'export-unstarted', True)
    jit = jit0       # the long-lived compiled object

    allocc = list(en.all_occupations(nm, vac))
    l3state, l3first = case.get('l3state'), case.get('l3first')
    nstart = 0
    for n, start in enumerate(allocc):
        if n % case['nchunk'] != case['chunk']: continue
        if case.get('only') is not None and en.bits(start) != case['only']: continue
        if l3state is not None and n != l3state: continue
        sb = en.bits(start)
        # export of a started reference sampler
        ref.start(start.copy())
        jx = _make_jit(ref)
        check(jx, start, 'export-started', True)
        # start on the long-lived object
        jit.start(start)
        if not check(jit, start, 'start', True): continue
        e0 = float(ref.E())
        outcomes.add(round(e0, 9))
        nstart += 1
        un = [int(x) for x in jit.unoccupied_set[:jit.Nunocc]]
        oc = [int(x) for x in jit.occupied_set[:jit.Nocc]]
        # trials and single updates (not repeated in the L3 sub-cases)
        for i in (un if l3state is None else []):
            for j in oc:
                dr = float(ref.deltaE_trial((i,), (j,)))
                dj = float(jit.deltaE_trial(i, j)); stats['ops'] += 1
                if abs(dr - dj) > TOL: bad('lockstep-deltaE_trial', start, 'trial({},{})'.format(i, j), [dj, dr])
                jc = jit.copy()
                jc.update(i, j); ref.update((i,), (j,))
                ok = check(jc, start, 'update({},{})'.format(i, j), True)
                if ok and abs(float(jc.E()) - e0 - dj) > TOL: bad('lockstep-dE-vs-E', start, 'update({},{})'.format(i, j), [float(jc.E()) - e0, dj])
                ref.update((j,), (i,))
        # MCmoves sequences
        if nm <= 5 or l3state is not None: L = 3
        elif n % 17 == 0: L = 2
        else: L = 1
        root = jit.copy()

        def dfs(node, depth, oc_ch, un_ch, thr_ch):
            nu_, no_ = int(node.Nunocc), int(node.Nocc)
            for a in range(nu_):
                for b in range(no_):
                    if depth == 0 and l3first is not None and a * no_ + b != l3first: continue
                    i, j = int(node.unoccupied_set[a]), int(node.occupied_set[b])
                    dE = float(ref.deltaE_trial((i,), (j,)))
                    for thr in thresholds(dE):
                        acc = dE < thr
                        A, B, T = oc_ch + [a], un_ch + [b], thr_ch + [thr]
                        desc = 'MCmoves(occ={},unocc={},accept={})'.format(A, B, [bool(t) for t in acc_ch + [acc]]).replace(' ', '')
                        child = node.copy()
                        child.MCmoves(np.array([a]), np.array([b]), np.array([thr], dtype=float))
                        batch = root.copy()
                        batch.MCmoves(np.array(A), np.array(B), np.array(T, dtype=float))
                        stats['ops'] += 2
                        if acc: ref.update((i,), (j,))
                        ok = True
                        if not same_arrays(child, batch):
                            bad('mcmoves-batch-vs-stepwise', start, desc, 'arrays differ'); ok = False
                        d = diff(ref, batch, vac, False)
                        for what, det in d: bad('mcmoves-' + what, start, desc, det)
                        ok = ok and not d
                        if acc and abs(dE) > 1e-9: stats['nontriv'] += 1
                        if ok and depth + 1 < L:
                            acc_ch.append(acc)
                            dfs(child, depth + 1, A, B, T)
                            acc_ch.pop()
                        if acc: ref.update((j,), (i,))

        acc_ch = []
        dfs(root, 0, [], [], [])
        # the reference must be back in the start state (sanity of the explorer's own backtracking)
        if not np.array_equal(np.asarray(ref.occ), start): raise RuntimeError('explorer: backtracking did not restore the start state')
        # copies were moved, the object they were copied from must not have
        check(root, start, 'copy-independence', False)
    return {'states': nstart, 'transitions': stats['ops'], 'execs': stats['ops'],
            'outcomes': [str(o) for o in outcomes], 'nontrivial': stats['nontriv'], 'violations': viols,
            'sample': {'case': case['key'], 'numpy.Inf aliased': _STATE['shim'], 'jumps': len(ref.jumps) if ref.jumps else 0}}
