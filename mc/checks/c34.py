"""
C34 -- kinetic barriers obey detailed balance.

E1 explorer over (sampler configuration with a jump network) x (value vector) ; inside a case EVERY occupation and EVERY
transition reported by MonteCarloSampler.transitions() is checked.  Value vectors = each unit vector over the
concatenation (cluster values + constant | KRA values per jump class | TS-cluster values) -- barriers and energies are
linear in them -- plus one generic vector.

transitions() returns (ijlist, Qlist, dxlist): (initial site, final site), barrier, displacement.
  no vacancy : sigma' = sigma with site i emptied and site j occupied; same sampler.
  vacancy    : the vacancy sits on i and exchanges with j (whatever occupies j); sigma' has the vacancy on j and the
               former content of j on i and is evaluated by the sampler built on the supercell with its vacancy at j
               (as the package's own testDetailedBalance does).
Oracles (1e-12 for unit vectors -- sums of 0, +-1/2, 1 --, 1e-10 for the generic vector):
  detailed-balance      Q(i->j|sigma) - Q(j->i|sigma') == E(sigma') - E(sigma), E from the same samplers
  reverse-missing       (j, i, -dx) is reported from sigma'
  transitions-set       reported (i, j, dx) == every jump of the network placed at every translation (own enumeration by
                        position) that is allowed in sigma
  barrier-definition    Q == KRA(class of the jump) + (E(sigma') - E(sigma))/2 + sum TS value * brute-force TS count
                        (the documented meaning: KRA is relative to the average energy of the end points; TS clusters are
                        added on), E from R-energy
"""
import itertools
import numpy as np
from mc.refmodels import energy as en

PID = 'C34'
ENGINE = 'E1'
CHUNK = 4      # neighbouring cases share a configuration: the per-process Setup cache is reused
TECHNIQUE = 'every occupation x every reported transition x every unit value vector; reverse lookup in the final configuration'
RULE = ('case = sampler configuration x spectator occupation x value vector; inside: all occupations, all transitions; '
        'non-trivial = transitions with non-zero barrier or energy difference')
ASSUMPTIONS = ['sigma\' of a vacancy exchange is evaluated by a sampler on the supercell with its vacancy moved',
               'jump networks come from Crystal.jumpnetwork (closed under reversal and symmetry, C21)']


def _configs(tier):
    # (supercell, icut, order, modes) ; mode 'n' = no vacancy, 'v' = vacancy (every mobile site)
    # first group: minimum-image supercells (chains / layers); second group: the small 3-d supercells, all of which are
    # smaller than the interaction range in some direction (keys carry 'imgdeg')
    if tier == 'quick':
        return [('CHAIN8', 2, 3, 'nv'), ('CHAINAB5', 2, 3, 'nv'), ('ZIGZAG4', 1, 3, 'nv'), ('SQ33', 2, 3, 'n'), ('TRI33', 1, 3, 'n'),
                ('B2AB211sB', 2, 3, 'nv'), ('HCP211', 2, 3, 'nv'), ('FCC2I', 1, 3, 'n')]
    return [('CHAIN8', 2, 3, 'nv'), ('CHAIN8', 2, 4, 'nv'), ('ZIGZAG4', 1, 3, 'nv'), ('ZIGZAG4', 2, 4, 'nv'), ('CHAINAB5', 2, 3, 'nv'), ('CHAINAB5', 3, 4, 'nv'), ('SQ33', 2, 3, 'nv'), ('SQ33', 2, 4, 'n'),
            ('TRI33', 1, 3, 'nv'), ('TRI33', 2, 3, 'n'),
            ('B2AB211sB', 2, 3, 'nv'), ('B2AB211sA', 2, 3, 'nv'), ('HCP211', 2, 4, 'nv'), ('B2AB211m', 2, 3, 'nv'),
            ('FCCskew4', 2, 3, 'nv'), ('FCCO211sPd', 2, 3, 'nv'), ('FCC2I', 2, 3, 'nv'), ('FCC2I', 2, 4, 'n'),
            ('B2AB221sB', 2, 3, 'nv'), ('HCP221', 2, 3, 'nv')]


def BOUNDS(tier):
    return {'configs(supercell,cutoff interval,order,modes n=no vacancy v=vacancy at every site)': _configs(tier),
            'spectator occupations': 'all', 'occupations': 'all', 'transitions': 'all reported',
            'values': 'unit vectors over (cluster values+constant, KRA per jump class, TS values) + one generic vector'}


def vac_sites(sup, chem):
    """mobile sites of the supercell whose native species is chem (documented: site n has basis index n mod Nmobile)"""
    return [n for n in range(len(sup.mobilepos)) if sup.mobileindices[n % sup.Nmobile][0] == chem]


def cases(tier):
    out = []
    for name, icut, order, modes in _configs(tier):
        for mode in modes:
            sup = en.build_supercell(name)
            for vchem in (en.mobile_chems(name) if mode == 'v' else [None]):
                s = en.get_setup(name, icut, order, vac_sites(sup, vchem)[0] if mode == 'v' else None, True)
                nvec = sum(s.nvalues())
                tag = 'novac' if mode != 'v' else 'vac' + s.crys.chemistry[vchem]
                for sb in itertools.product((0, 1), repeat=s.ns):
                    for k in list(range(nvec)) + ['generic']:
                        out.append({'key': '{}:cut{}o{}:{}:s{}:value{}'.format(name, icut, order, tag, ''.join(map(str, sb)) or '-', k),
                                    'sup': name, 'icut': icut, 'order': order, 'mode': mode, 'vchem': vchem, 'socc': list(sb), 'vec': k,
                                    'cost': 2 ** s.nm * s.nm * (s.nm if mode == 'v' else 1)})
    return out


def dxkey(dx):
    return tuple(float(x) + 0.0 for x in np.round(np.array(dx, dtype=float), 6))


def ref_jumps(setup, model):
    """own placement of the jump network in the supercell: list of (i, j, dxkey, class index)"""
    out = []
    chem = setup.chem
    for nc, jc in enumerate(setup.jumpnetwork):
        for (i0, j0), dx in jc:
            R = model.lattice_disp((chem, i0), (chem, j0), dx)
            for t in model.trans:
                ti, i = model.site((chem, int(i0), t))
                tj, j = model.site((chem, int(j0), tuple(a + b for a, b in zip(t, R))))
                if ti != 'm' or tj != 'm': raise RuntimeError('jump end on a spectator site')
                out.append((i, j, dxkey(dx), nc))
    return out


def vectors(setup, which):
    nv, nj, nt = setup.nvalues()
    if which == 'generic':
        return setup.generic(), 'generic'
    u = np.zeros(nv + nj + nt)
    u[which] = 1.
    names = setup.desc + ['constant'] + setup.jdesc + setup.tsdesc
    return (u[:nv], u[nv:nv + nj], u[nv + nj:]), names[which]


def evaluate(case):
    name, mode = case['sup'], case['mode']
    socc = np.array(case['socc'], dtype=int)
    tol = 1e-10 if case['vec'] == 'generic' else 1e-12
    only = case.get('occ')
    if mode == 'v':
        vs = vac_sites(en.build_supercell(name), case['vchem'])
        setups = {v: en.get_setup(name, case['icut'], case['order'], v, True) for v in vs}
        s0 = setups[vs[0]]
    else:
        s0 = en.get_setup(name, case['icut'], case['order'], None, True)
        setups = {None: s0}
    nm = s0.nm
    (vals, kra, tsv), vname = vectors(s0, case['vec'])
    base = '{}:{}:cut{}o{}:{}:s{}'.format(name, 'minimage' if s0.minimage() else 'imgdeg', case['icut'], case['order'],
                                          'novac' if mode != 'v' else 'vac' + s0.crys.chemistry[case['vchem']], en.bits(socc) or '-')

    # ---- evaluate the real samplers on every occupation
    table, refE, models, preps, rj = {}, {}, {}, {}, {}
    execs = 0
    for v, st in setups.items():
        if st.desc != s0.desc or st.jdesc != s0.jdesc or st.tsdesc != s0.tsdesc:
            raise RuntimeError('class lists differ between vacancy positions')
        smp = st.sampler(socc, vals, kra, tsv); execs += 1
        model, prep, preps[v] = st.model()
        models[v] = model
        rj[v] = ref_jumps(st, model)
        for occ in en.all_occupations(nm, v):
            smp.start(occ.copy())
            ij, Q, dx = smp.transitions(); execs += 1
            tr = [(int(a), int(b), dxkey(d), float(q)) for (a, b), q, d in zip(ij, Q, dx)]
            k = tuple(int(x) for x in occ)
            table[k] = (float(smp.E()), tr, len(ij) == len(Q) == len(dx))
            refE[k] = float(np.dot(vals, model.counts(prep, occ, socc, v)))

    viols, seen = [], set()
    ntr, nontriv, outcomes = 0, 0, set()

    def bad(what, occ, t, det):
        tag = 'self-image' if (t is not None and t[0] == t[1]) else 'jump'
        if (what, tag) in seen: return
        seen.add((what, tag))
        tdesc = '' if t is None else ':{}>{}:dx={}'.format(t[0], t[1], ','.join('{:g}'.format(x) for x in t[2]))
        viols.append({'oracle': what, 'key': '{}:m{}{}:value={}'.format(base, en.bits(occ), tdesc, vname), 'detail': det,
                      'case': dict(case, occ=[int(x) for x in occ])})

    for k, (E, tr, okshape) in table.items():
        if only is not None and list(k) != list(only): continue
        occ = np.array(k)
        v = None if mode != 'v' else int(np.nonzero(occ == -1)[0][0])
        if not okshape: bad('transitions-shape', occ, None, 'lists of different length')
        # allowed transitions by definition
        if mode == 'v':
            want = sorted((i, j, d) for (i, j, d, nc) in rj[v] if i == v)
        else:
            want = sorted((i, j, d) for (i, j, d, nc) in rj[v] if occ[i] == 1 and occ[j] == 0)
        got = sorted((i, j, d) for (i, j, d, q) in tr)
        if got != want:
            bad('transitions-set', occ, None, {'missing': [x for x in want if x not in got][:4], 'surplus': [x for x in got if x not in want][:4]})
        cls = {(i, j, d): nc for (i, j, d, nc) in rj[v]}
        for (i, j, d, q) in sorted(tr):     # sorted: the order of jumps inside a class depends on the hash seed
            ntr += 1
            new = occ.copy()
            if mode == 'v':
                new[i], new[j] = occ[j], -1
            else:
                new[i], new[j] = 0, 1
            k2 = tuple(int(x) for x in new)
            E2, tr2, _ = table[k2]
            rd = tuple(-x + 0.0 for x in d)
            rev = [qq for (a, b, dd, qq) in tr2 if a == j and b == i and dd == rd]
            if len(rev) != 1:
                bad('reverse-missing', occ, (i, j, d), {'found': len(rev), 'final': en.bits(new)})
                continue
            if abs((q - rev[0]) - (E2 - E)) > tol:
                bad('detailed-balance', occ, (i, j, d), {'Qf': q, 'Qr': rev[0], 'E': E, 'E2': E2, 'final': en.bits(new)})
            if (i, j, d) in cls:
                nc = cls[(i, j, d)]
                tsc = models[v].ts_counts(preps[v], len(tsv), occ, socc, i, j, d)
                qdef = float(kra[nc]) + 0.5 * (refE[k2] - refE[k]) + float(np.dot(tsv, tsc)) if len(tsv) else float(kra[nc]) + 0.5 * (refE[k2] - refE[k])
                if abs(q - qdef) > tol:
                    bad('barrier-definition', occ, (i, j, d), {'Q': q, 'definition': qdef, 'kra': float(kra[nc]), 'dE': refE[k2] - refE[k], 'ts_counts': tsc})
            if abs(q) > 1e-9 or abs(E2 - E) > 1e-9: nontriv += 1
            outcomes.add((round(q, 9), round(E2 - E, 9)))
    return {'states': len(table), 'transitions': ntr, 'execs': execs, 'outcomes': [str(o) for o in outcomes], 'nontrivial': nontriv,
            'violations': viols, 'sample': {'case': case['key'], 'value': vname, 'jump classes': s0.jdesc, 'ts classes': len(s0.ts),
                                            'cluster classes': len(s0.classes)}}
