"""
C12 -- Interstitial.losstensors: relaxation modes and the internal-friction sum rule.

E1 enumeration: network x data node (T/G1/G2 and all points within k deviations) x site-dipole input.
The loss tensors are QUADRATIC in the dipoles, so besides every single (class, E_ab) and the generic matrix the
enumeration contains every unordered PAIR of elementary inputs (polarisation identity: a quadratic form that is
right on e_i, e_j and e_i + e_j is right on their span) at the base points.

Normalisation of the package (docstring + testBCCinternalfriction): dipoles are given divided by kB T, site
probabilities are normalised over the unit cell (per diffusing particle), and
     sum_modes L_abcd  =  sum_i rho_i P_i,ab P_i,cd  -  (sum_i rho_i P_i,ab)(sum_i rho_i P_i,cd);
L has to be multiplied by kB T to be an energy.  (BCC octahedral check: (2/9)(Ppara-Pperp)^2 = <Pxx^2>-<Pxx>^2.)
"""
import itertools
import numpy as np
from onsager import OnsagerCalc
from mc import catalog
from mc.refmodels import chain1
from mc.checks.c11 import ref_site_dipoles, letter_matrix, letters

PID = 'C12'
ENGINE = 'E1'
TECHNIQUE = ('exhaustive enumeration of (network, data node, dipole input incl. all pairs of elementary dipoles); '
             'oracle = eigen-decomposition of an independently built symmetrised rate matrix + equilibrium dipole covariance')
RULE = ('case = (network, base); nodes = all data points within k deviations; dipole inputs = ZERO, every (site class, '
        'E_ab), GEN per class, ALL, and at the base node every unordered pair of elementary inputs; nontrivial = input '
        'with at least one mode of non-vanishing dipole coupling')
ASSUMPTIONS = [
    'two relaxation rates closer than 1e-4 (relative) are treated as one cluster when tensors are compared '
    '(the package merges at 1e-5; nothing in the alphabets puts distinct eigenvalues between 1e-9 and 1e-4)',
    'site dipole of the property = Reynolds average of the symmetrised input over the site stabiliser, carried by a group element',
]

NETS = ['FCC_T', 'FCC_OT', 'BCC_O', 'BCC_T', 'HCP_OT', 'HONEY', 'ROMEGA', 'RUMPLED2', 'WURTZ2', 'P1', 'P1_3', 'PMMM_G', 'P2MM_G', 'OBL3', 'TET4I',
        'RECTM', 'HEXM', 'KAGOME', 'POLAR4', 'PM2D']
BASES = ['T', 'G1', 'G2']
TOL = 1e-9
CLUSTER = 1e-4


def tierspec(tier):
    return {'k': 1 if tier == 'quick' else 2}


def networks():
    return [(n, ic) for n in NETS for ic in range(len(chain1.meta(catalog, n)['cut']))]


def BOUNDS(tier):
    return {'networks': ['{}:cut{}'.format(n, ic) for n, ic in networks()], 'bases': BASES, 'k': tierspec(tier)['k'],
            'dipole_inputs': 'ZERO; (class, E_ab) all a,b; (class, GEN); ALL; at base nodes all unordered pairs of (class, E_ab)',
            'tolerance': '1e-9 * max|P|^2 for tensors, 1e-9 * max eigenvalue for rates'}


def cases(tier):
    k = tierspec(tier)['k']
    out = []
    for name, ic in networks():
        for base in BASES:
            out.append({'key': '{}:cut{}:{}:k{}'.format(name, ic, base, k), 'net': name, 'icut': ic, 'base': base, 'k': k,
                        'cost': 1. + k})
    return out


def dipole_inputs(dim, ns, srank, pairs):
    """list of (label, [dipole per class in class order])"""
    singles = [(r, l) for r in range(ns) for l in letters(dim) if l != 'GEN']
    out = [('ZERO', [])]
    out += [('s{}:{}'.format(r, l), [(r, l)]) for r, l in singles]
    out += [('s{}:GEN'.format(r), [(r, 'GEN')]) for r in range(ns)]
    out += [('ALL', [(r, 'GEN', 1 + r) for r in range(ns)])]
    if pairs:
        out += [('s{}:{}+s{}:{}'.format(a[0], a[1], b[0], b[1]), [a, b]) for a, b in itertools.combinations(singles, 2)]
    res = []
    for label, spec in out:
        dip = [np.zeros((dim, dim)) for _ in range(ns)]
        for sp in spec:
            r, l = sp[0], sp[1]
            dip[srank.index(r)] = dip[srank.index(r)] + letter_matrix(dim, l, sp[2] if len(sp) > 2 else 0)
        res.append((label, dip))
    return res


def outer4(F):
    return np.einsum('ab,cd->abcd', F, F)


def check_one(it, crys, chem, sl, ch, lam, phi, rho, data, dip, ncomp):
    """returns list of (oracle, detail) failures for one (node, dipole input), and #coupled modes"""
    dim = crys.dim
    fails = []
    lamL = it.losstensors(data[0], data[1], dip, data[2], data[3])
    lmax = lam[-1]
    sq = np.sqrt(rho)
    pmax = max(1e-300, max(abs(P).max() for P in dip))
    tscale = max(pmax ** 2, 1e-300)
    nonzero = list(range(ncomp, len(lam)))       # the ncomp smallest eigenvalues of -omega are the null modes
    # -- reported rates are positive non-zero eigenvalues
    for r, L in lamL:
        if not (r > 0 and np.min(abs(lam[nonzero] - r)) <= TOL * lmax if nonzero else False):
            fails.append(('rate-not-eigenvalue', {'rate': float(r), 'eigenvalues': lam.tolist()}))
        if ncomp and abs(r) <= 1e-9 * lmax:
            fails.append(('zero-mode-reported', {'rate': float(r)}))
    # -- per tensor: compliance symmetries, PSD on symmetric strains
    for r, L in lamL:
        L = np.array(L)
        if L.shape != (dim,) * 4:
            fails.append(('tensor-shape', {'shape': list(L.shape)})); continue
        asym = max(abs(L - L.transpose(1, 0, 2, 3)).max(), abs(L - L.transpose(0, 1, 3, 2)).max(), abs(L - L.transpose(2, 3, 0, 1)).max())
        if asym > 1e-12 * tscale: fails.append(('tensor-symmetry', {'rate': float(r), 'asym': float(asym)}))
        basis = []
        for a in range(dim):
            for b in range(a, dim):
                S = np.zeros((dim, dim)); S[a, b] += 0.5; S[b, a] += 0.5
                basis.append(S)
        M = np.array([[np.einsum('ab,abcd,cd', S1, L, S2) for S2 in basis] for S1 in basis])
        if np.linalg.eigvalsh(0.5 * (M + M.T))[0] < -1e-12 * tscale:
            fails.append(('tensor-not-psd', {'rate': float(r), 'min_eig': float(np.linalg.eigvalsh(0.5 * (M + M.T))[0])}))
    # -- mode tensors per eigenvalue cluster, with the dipoles the package itself populated (tests the
    #    decomposition / merging in isolation from the population)
    pkgP = np.array(it.siteDipoles(dip))
    refP = ref_site_dipoles(crys, chem, sl, dip)
    clusters = []
    for m in nonzero:
        if clusters and lam[m] - lam[clusters[-1][-1]] <= CLUSTER * lam[m]: clusters[-1].append(m)
        else: clusters.append([m])
    ncoupled = 0
    used = [False] * len(lamL)
    for cl in clusters:
        lo, hi = lam[cl[0]] * (1 - CLUSTER), lam[cl[-1]] * (1 + CLUSTER)
        Lref = sum(outer4(np.tensordot(phi[:, m] * sq, pkgP, axes=1)) for m in cl)
        Lref_prop = sum(outer4(np.tensordot(phi[:, m] * sq, refP, axes=1)) for m in cl)
        if abs(Lref_prop).max() > 1e-9 * tscale: ncoupled += 1
        Lpk = np.zeros((dim,) * 4)
        hit = False
        for n, (r, L) in enumerate(lamL):
            if lo <= r <= hi:
                Lpk = Lpk + np.array(L); used[n] = True; hit = True
        if abs(Lpk - Lref).max() > TOL * tscale:
            fails.append(('mode-tensor' if hit else 'coupled-mode-missing',
                          {'cluster_rates': [float(lam[m]) for m in cl], 'err': float(abs(Lpk - Lref).max())}))
    # -- sum rule (the property, with the Reynolds-populated site dipoles)
    Lsum = sum((np.array(L) for r, L in lamL), np.zeros((dim,) * 4))
    Pav = np.tensordot(rho, refP, axes=1)
    cov = np.einsum('i,iab,icd->abcd', rho, refP, refP) - outer4(Pav)
    if abs(Lsum - cov).max() > TOL * tscale:
        Pav2 = np.tensordot(rho, pkgP, axes=1)
        cov2 = np.einsum('i,iab,icd->abcd', rho, pkgP, pkgP) - outer4(Pav2)
        fails.append(('sumrule', {'err': float(abs(Lsum - cov).max()),
                                  'holds_with_package_populated_dipoles': bool(abs(Lsum - cov2).max() <= TOL * tscale),
                                  'population_err': float(abs(pkgP - refP).max())}))
    return fails, ncoupled, ','.join('{:.4f}'.format(r / lmax) for r, L in sorted(lamL, key=lambda x: x[0]))


def evaluate(case):
    name, ic, base = case['net'], case['icut'], case['base']
    crys, chem, sl, jn = chain1.network(catalog, name, ic)
    dim, ns, nj = crys.dim, len(sl), len(jn)
    srank, jrank, skeys, jkeys = chain1.classranks(crys, chem, sl, jn)
    it = OnsagerCalc.Interstitial(crys, chem, sl, jn)
    if 'devs' in case:
        nodelist = [tuple(((kd, int(r)), l) for (kd, r), l in case['devs'])]
    else:
        nodelist = chain1.nodes(ns, nj, case['k'])
    viols, seen, outcomes = [], set(), set()
    nstates = ncmp = nontriv = 0
    for devs in nodelist:
        data = chain1.toclassorder(chain1.nodedata(base, ns, nj, devs), srank, jrank)
        ch = chain1.from_network(crys, chem, sl, jn, *data)
        lam, phi = ch.modes()
        rho = ch.rho()
        ncomp = len(ch.components())
        inputs = dipole_inputs(dim, ns, srank, pairs=(len(devs) == 0))
        if 'dipole' in case: inputs = [x for x in inputs if x[0] == case['dipole']]
        for label, dip in inputs:
            nstates += 1
            nk = '{}:cut{}:{}:{}:{}'.format(name, ic, base, chain1.nodekey(devs), label)
            sub = {'key': nk, 'net': name, 'icut': ic, 'base': base, 'devs': [[[kd, r], l] for (kd, r), l in devs], 'dipole': label}
            try:
                fails, ncoupled, nrep = check_one(it, crys, chem, sl, ch, lam, phi, rho, data, dip, ncomp)
            except Exception as e:
                fails, ncoupled, nrep = [('exception', '{}: {}'.format(type(e).__name__, e))], 0, 'exc'
            ncmp += 4
            if ncoupled > 0: nontriv += 1
            if len(outcomes) < 300: outcomes.add('{}:rates[{}]:coupled{}'.format(name, nrep, ncoupled))
            for orc, det in fails:
                if orc in seen: continue        # one violation per oracle and case: the first (simplest) input
                seen.add(orc)
                viols.append({'oracle': orc, 'key': nk, 'detail': det, 'case': sub})
    return {'states': nstates, 'transitions': ncmp, 'execs': nstates, 'nontrivial': nontriv, 'outcomes': sorted(outcomes),
            'violations': viols,
            'sample': {'case': case['key'], 'nodes': len(nodelist), 'dipole_inputs_at_base': len(dipole_inputs(dim, ns, srank, True)),
                       'sites': len(crys.basis[chem])}}
