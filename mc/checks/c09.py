"""
C09 — equivalent descriptions of the same crystal give the same transport.

E1 over (crystal, re-description, data base): the same physical crystal is presented through
  uni:<k>   a unimodular change of lattice vectors (noreduce=True), listed matrices with entries in {-1,0,1,2}
  perm      reversed atom order within every species (noreduce=True)
  sup:<k>   a non-reduced supercell (Hermite normal forms of determinant 2, noreduce=True)
  red:<k>   the same supercells handed to the constructor WITH reduction (must come back to the primitive physics)
  rot:<k>   a rigid rotation of the whole crystal (result tensors must rotate with it)
Data are functions of geometry only (site energy = f(sorted neighbour distances), transition energy = f(|dx|,
environment of the midpoint, distance to the solute), pair energy = f(|dx|, site environments)), so identical
physics is supplied to every description without any index bookkeeping.
Oracle: interstitial D equal to 1e-9 (no k-mesh); vacancy-mediated L0vv, Lss, Lsv, L1vv equal to the k-mesh accuracy
of the two calculators (20 x the sum of the measured GF residuals x sqrt(rate range), floor 1e-7).
"""
import itertools
import numpy as np
from onsager import crystal, OnsagerCalc, GFcalc
from mc import catalog, vm
from mc.vm import hval

PID = 'C09'
ENGINE = 'E1'
TECHNIQUE = 'exhaustive enumeration of listed re-descriptions x data bases; geometric data functions; equality of transport tensors between descriptions'
RULE = ('case = (crystal, re-description, base); reference = catalogue description; nontrivial = descriptions whose lattice/basis arrays differ '
        'from the reference and whose base is not the uniform one')
LEVEL_TEXT = 'Every listed re-description of every listed crystal with three data bases; interstitial results compared algebraically, vacancy-mediated ones within measured k-mesh accuracy.'
LEVEL_NOTE = 'Data functions hash rounded geometric fingerprints (1e-4): two descriptions get the same numbers because they have the same geometry, not because of any index correspondence.'

UNI3 = [[[1, 1, 0], [0, 1, 0], [0, 0, 1]], [[1, 0, 0], [0, 1, 1], [0, 0, 1]], [[1, 0, 0], [1, 1, 0], [1, 0, 1]], [[0, 1, 0], [0, 0, 1], [1, 0, 0]],
        [[1, 2, 0], [0, 1, 2], [0, 0, 1]], [[-1, 0, 0], [0, 1, 0], [0, 0, -1]],
        [[2, -1, 0], [-1, 1, 0], [-2, -1, 1]]]      # last: inverse lattice with very unequal row / column norms
UNI2 = [[[1, 1], [0, 1]], [[1, 0], [1, 1]], [[0, 1], [-1, 0]], [[1, 2], [0, 1]]]
HNF3 = [[[2, 0, 0], [0, 1, 0], [0, 0, 1]], [[1, 0, 0], [0, 1, 0], [0, 0, 2]], [[1, 0, 0], [0, 2, 0], [1, 1, 1]][:3], [[2, 0, 0], [1, 1, 0], [0, 0, 1]]]
HNF2 = [[[2, 0], [0, 1]], [[1, 0], [1, 2]]]
ROT3 = [np.array([[0.36, 0.48, -0.8], [-0.8, 0.6, 0.], [0.48, 0.64, 0.6]])]
ROT2 = [np.array([[0.6, -0.8], [0.8, 0.6]])]

INT_CRYS = [('FCC_OT', 0), ('HCP_OT', 0), ('BCC_O', 0), ('HONEY', 0), ('ROMEGA', 0), ('HEXM', 1)]
VM_QUICK = [('FCC', 0), ('HCP', 0), ('SQUARE', 0), ('OMEGA', 0)]
VM_THOROUGH = VM_QUICK + [('BCC', 0), ('HONEY', 0), ('B2', 0), ('TRIA', 0)]


def BOUNDS(tier):
    return {'interstitial crystals': INT_CRYS, 'vacancy-mediated crystals': VM_QUICK if tier == 'quick' else VM_THOROUGH, 'unimodular (3D)': UNI3, 'unimodular (2D)': UNI2,
            'supercells (3D)': HNF3, 'supercells (2D)': HNF2, 'rotations': 'one fixed non-symmetry rotation per dimension', 'bases': ['T', 'G1', 'G2'],
            'vacancy-mediated supercells': 'first two HNF matrices only (cost grows as det^3)'}


def descriptions(dim, kind):
    out = [('perm', None)]
    for k, M in enumerate(UNI3 if dim == 3 else UNI2): out.append(('uni:%d' % k, M))
    hn = (HNF3 if dim == 3 else HNF2)
    if kind == 'vm': hn = hn[:2]
    for k, M in enumerate(hn):
        out.append(('sup:%d' % k, M)); out.append(('red:%d' % k, M))
    for k, Q in enumerate(ROT3 if dim == 3 else ROT2): out.append(('rot:%d' % k, Q.tolist()))
    return out


def cases(tier):
    out = []
    for (n, i) in INT_CRYS:
        dim = catalog.get(n).dim
        for tag, M in descriptions(dim, 'int'):
            out.append({'key': 'int/{}/{}/{}'.format(n, i, tag), 'kind': 'int', 'crystal': n, 'icut': i, 'desc': tag, 'M': M, 'cost': 0.5})
    for (n, i) in (VM_QUICK if tier == 'quick' else VM_THOROUGH):
        dim = catalog.get(n).dim
        for tag, M in descriptions(dim, 'vm'):
            out.append({'key': 'vm/{}/{}/{}'.format(n, i, tag), 'kind': 'vm', 'crystal': n, 'icut': i, 'desc': tag, 'M': M, 'cost': 8 if tag.startswith('sup') else 2})
    return out


def redescribe(crys, tag, M):
    """-> (new crystal, Q) with Q the rigid rotation applied (identity otherwise)"""
    dim = crys.dim
    L, basis, chem = crys.lattice, crys.basis, crys.chemistry
    Q = np.eye(dim)
    if tag == 'perm':
        return crystal.Crystal(L.copy(), [list(reversed([u.copy() for u in b])) for b in basis], chem, noreduce=True), Q
    M = np.array(M)
    if tag.startswith('uni'):
        Mi = np.linalg.inv(M)
        return crystal.Crystal(L @ M, [[crystal.incell(Mi @ u) for u in b] for b in basis], chem, noreduce=True), Q
    if tag.startswith('sup') or tag.startswith('red'):
        Mi = np.linalg.inv(M)
        det = int(round(abs(np.linalg.det(M))))
        # translations of the primitive cell inside the supercell
        trans, seen = [], set()
        for nv in itertools.product(range(-2, 3), repeat=dim):
            t = crystal.incell(Mi @ np.array(nv))
            k = tuple(np.round(t, 8))
            if k not in seen: seen.add(k); trans.append(t)
        assert len(trans) == det
        newbasis = [[crystal.incell(Mi @ u + t) for t in trans for u in b] for b in basis]
        return crystal.Crystal(L @ M, newbasis, chem, noreduce=tag.startswith('sup')), Q
    if tag.startswith('rot'):
        Q = M
        return crystal.Crystal(Q @ L, [[u.copy() for u in b] for b in basis], chem, noreduce=True), Q
    raise KeyError(tag)


# ---------------------------------------------------------------------------- geometric data functions
def atoms_near(crys, x, r):
    """sorted rounded (distance, species) of all atoms within r of Cartesian point x"""
    dim = crys.dim
    nmax = [int(np.ceil(r * np.linalg.norm(crys.invlatt[i]))) + 1 for i in range(dim)]
    u0 = crys.invlatt @ x
    out = []
    for c, b in enumerate(crys.basis):
        for u in b:
            du = u - u0
            du = du - np.round(du)
            for nv in itertools.product(*[range(-n, n + 1) for n in nmax]):
                d = np.linalg.norm(crys.lattice @ (du + np.array(nv)))
                if d < r: out.append((int(round(d * 1e4)), crys.chemistry[c]))
    return tuple(sorted(out))


def geo(crys, r, *points_and_numbers):
    fp = []
    for p in points_and_numbers:
        if isinstance(p, np.ndarray): fp.append(atoms_near(crys, p, r))
        else: fp.append(int(round(float(p) * 1e4)))
    return tuple(fp)


AMP = {'T': 0.0, 'G1': 1.0, 'G2': 4.0}


def int_data(crys, chem, sl, jn, base, r):
    pos = lambda i: crys.lattice @ crys.basis[chem][i]
    amp = AMP[base]
    bE = np.array([amp * hval(('s',) + geo(crys, r, pos(w[0]))) for w in sl])
    bT = np.array([1.0 + amp * hval(('j',) + geo(crys, r, np.linalg.norm(j[0][1]), pos(j[0][0][0]) + 0.5 * j[0][1])) for j in jn])
    return np.ones(len(sl)), bE, np.ones(len(jn)), bT


def vm_data(calc, base, r):
    crys, chem = calc.crys, calc.chem
    amp = AMP[base]
    pos = lambda i: crys.lattice @ crys.basis[chem][i]
    d = {}
    d['preV'] = np.ones(len(calc.sitelist)); d['preS'] = np.ones(len(calc.sitelist))
    d['eneV'] = np.array([amp * hval(('V',) + geo(crys, r, pos(w[0]))) for w in calc.sitelist])
    d['eneS'] = np.array([amp * hval(('S',) + geo(crys, r, pos(w[0]))) for w in calc.sitelist])
    sv = [calc.thermo.states[s[0]] for s in calc.thermo.stars]
    d['preSV'] = np.ones(len(sv))
    d['eneSV'] = np.array([amp * hval(('SV',) + geo(crys, r, np.linalg.norm(PS.dx), pos(PS.i), pos(PS.i) + PS.dx, pos(PS.i) + 0.5 * PS.dx)) for PS in sv])
    d['preT0'] = np.ones(len(calc.om0_jn))
    d['eneT0'] = np.array([1.0 + amp * hval(('T0',) + geo(crys, r, np.linalg.norm(j[0][1]), pos(j[0][0][0]) + 0.5 * j[0][1])) for j in calc.om0_jn])
    kst = calc.kinetic.states

    def om(jl, label):
        out = []
        for jlist in jl:
            (a, b), dx = jlist[0]
            PSa, PSb = kst[a], kst[b]
            S = pos(PSa.i)
            A, B = S + PSa.dx, S + PSa.dx + dx          # vacancy before / after (for omega2 the solute moves the other way)
            ds = sorted([np.linalg.norm(PSa.dx), np.linalg.norm(PSb.dx)])
            out.append(1.0 + amp * hval((label,) + geo(crys, r, np.linalg.norm(dx), ds[0], ds[1], 0.5 * (A + B))))
        return np.array(out)
    d['preT1'] = np.ones(len(calc.om1_jn)); d['eneT1'] = om(calc.om1_jn, 'T1')
    d['preT2'] = np.ones(len(calc.om2_jn)); d['eneT2'] = om(calc.om2_jn, 'T2')
    return d


def evaluate(case):
    return eval_int(case) if case['kind'] == 'int' else eval_vm(case)


def eval_int(case):
    name, icut = case['crystal'], case['icut']
    crys0, chem, sl0, jn0 = catalog.network(name, icut)
    cut = catalog.meta(name)['cut'][min(icut, len(catalog.meta(name)['cut']) - 1)]
    r = 1.3 * cut
    key = 'int/{}/cut{};desc={}'.format(name, icut, case['desc'])
    viols, outcomes, nontriv = [], [], 0
    try:
        crys1, Q = redescribe(crys0, case['desc'], case['M'])
        sl1, jn1 = crys1.sitelist(chem), crys1.jumpnetwork(chem, cut)
        it0 = OnsagerCalc.Interstitial(crys0, chem, sl0, jn0); it1 = OnsagerCalc.Interstitial(crys1, chem, sl1, jn1)
    except Exception as e:
        return {'violations': [{'oracle': 'exception', 'key': key, 'detail': repr(e)}]}
    n0 = sum(len(j) for j in jn0) / len(crys0.basis[chem]); n1 = sum(len(j) for j in jn1) / len(crys1.basis[chem])
    if abs(n0 - n1) > 1e-9:
        viols.append({'oracle': 'jumps-per-site', 'key': key, 'detail': {'reference': n0, 'redescribed': n1}})
    for base in ('T', 'G1', 'G2'):
        D0 = np.array(it0.diffusivity(*int_data(crys0, chem, sl0, jn0, base, r)))
        D1 = np.array(it1.diffusivity(*int_data(crys1, chem, sl1, jn1, base, r)))
        e = float(np.abs(Q @ D0 @ Q.T - D1).max()) / vm.tscale(D0)
        if e > 1e-9: viols.append({'oracle': 'D', 'key': key + ';base=' + base, 'detail': {'relerr': e, 'reference(rotated)': (Q @ D0 @ Q.T).tolist(), 'redescribed': D1.tolist()}})
        outcomes.append('{:.6e}'.format(float(np.trace(D0))))
        if base != 'T': nontriv += 1
    return {'states': 2, 'transitions': 3, 'execs': 6, 'outcomes': outcomes, 'nontrivial': nontriv, 'violations': viols,
            'sample': {'case': key, 'sites per cell': [len(crys0.basis[chem]), len(crys1.basis[chem])], '|G|': [len(crys0.G), len(crys1.G)]}}


def gf_resid(calc, d):
    ent = {'calc': calc, 'crys': calc.crys, 'chem': calc.chem, 'sitelist': calc.sitelist, 'jumpnetwork': calc.jumpnetwork, 'model': None, 'gf': None, 'keys': None}
    from mc.refmodels import pair

    class M: pass
    m = M(); m.net = pair.Net(calc.crys, calc.chem, calc.sitelist, calc.jumpnetwork)
    ent['model'] = m
    return vm.gf_residual(ent, d)


def eval_vm(case):
    name, icut = case['crystal'], case['icut']
    crys0, chem, sl0, jn0 = catalog.network(name, icut)
    cut = catalog.meta(name)['cut'][min(icut, len(catalog.meta(name)['cut']) - 1)]
    r = 1.3 * cut
    key = 'vm/{}/cut{};desc={}'.format(name, icut, case['desc'])
    viols, outcomes, nontriv = [], [], 0
    try:
        crys1, Q = redescribe(crys0, case['desc'], case['M'])
        sl1, jn1 = crys1.sitelist(chem), crys1.jumpnetwork(chem, cut)
        c0 = vm.calculator(name, icut, 1)['calc']
        c1 = OnsagerCalc.VacancyMediated(crys1, chem, sl1, jn1, 1)
    except Exception as e:
        return {'violations': [{'oracle': 'exception', 'key': key, 'detail': repr(e)}]}
    vb = any(crys0.VectorBasis((chem, w[0]))[0] > 0 for w in sl0)
    for base in ('T', 'G1', 'G2'):
        d0, d1 = vm_data(c0, base, r), vm_data(c1, base, r)
        try:
            L0 = [np.array(x) for x in c0.Lij(*c0.preene2betafree(1.0, **d0))]
            L1 = [np.array(x) for x in c1.Lij(*c1.preene2betafree(1.0, **d1))]
        except Exception as e:
            viols.append({'oracle': 'exception', 'key': key + ';base=' + base, 'detail': repr(e)}); continue
        # two different k-meshes: their errors add, and are amplified by the conditioning of the Dyson inversion, for which
        # sqrt(dynamic range of the rates) is used (base T: 1, G1: ~3, G2: ~50); floor 1e-7
        lo, hi = vm.rate_span({'calc': c0}, d0)
        tol = max(1e-7, 20 * (gf_resid(c0, d0) + gf_resid(c1, d1)) * np.sqrt(hi / lo))
        sc = vm.tscale(*L0)
        for nm, a, b in zip(('L0vv', 'Lss', 'Lsv', 'L1vv'), L0, L1):
            e = float(np.abs(Q @ a @ Q.T - b).max()) / sc
            if not np.isfinite(e) or e > tol:
                viols.append({'oracle': nm, 'key': key + ';vb={};base={}'.format(int(vb), base), 'detail': {'relerr': e, 'tol': tol, 'reference(rotated)': (Q @ a @ Q.T).tolist(), 'redescribed': b.tolist()}})
        outcomes.append('{:.6e}'.format(float(np.trace(L0[1]))))
        if base != 'T': nontriv += 1
    return {'states': 2, 'transitions': 3, 'execs': 6, 'outcomes': outcomes, 'nontrivial': nontriv, 'violations': viols,
            'sample': {'case': key, 'sites per cell': [len(crys0.basis[chem]), len(crys1.basis[chem])], '|G|': [len(crys0.G), len(crys1.G)],
                       'classes (omega1)': [len(c0.om1_jn), len(c1.om1_jn)]}}
