"""
C07 — results do not depend on the thermodynamic range beyond the interactions.

E1 with edge oracle: for every node (data point of the SMALLER calculator, base G1/G2 within k one-class
deviations) a tag dictionary is built that gives data to every class of the smaller calculator through
one member tag (member choice enumerated: first / last of the class); the same dictionary is handed to the
calculator with the next larger thermodynamic range (missing classes: default = no interaction; missing
transitions: the package's LIMB back-fill).  Edge = (N -> N+1); oracle = all four tensors equal.
"""
import numpy as np
from mc import vm

PID = 'C07'
ENGINE = 'E1'
TECHNIQUE = 'bounded-exhaustive enumeration of tag-supplied data on calculator pairs (Nthermo, Nthermo+1); equality of all tensors on every pair'
RULE = ('node = (crystal, cutoff, N, base, <=1 one-class deviation, member-tag choice); edge = same tag dictionary evaluated '
        'with Nthermo=N and N+1; nontrivial = node with non-zero binding in the smaller range whose Lss differs from the no-binding value')
LEVEL_TEXT = 'Every listed data point on every listed calculator pair; equality is an algebraic statement (same GF calculator parameters), checked to 1e-9 (k-mesh accuracy where origin states exist).'
LEVEL_NOTE = 'Both calculators use NGFmax=4; the larger range evaluates the GF at more separations of the same mesh.'

TOL = 1e-9
QUICK = [('FCC', 0, 1), ('BCC', 0, 1), ('HCP', 0, 1), ('HONEY', 0, 1), ('SQUARE', 0, 1), ('OMEGA', 0, 1), ('RECTM', 0, 1)]
THOROUGH = QUICK + [('SC', 0, 1), ('DIAMOND', 0, 1), ('TRIA', 0, 1), ('B2', 0, 1), ('ROMEGA', 0, 1), ('FCC', 1, 1),
                    ('FCC', 0, 2), ('SQUARE', 0, 2), ('HONEY', 0, 2), ('BCC', 0, 2), ('SC', 0, 2)]
CHUNK = 12


def BOUNDS(tier):
    return {'calculator pairs (crystal, cutoff, N -> N+1)': QUICK if tier == 'quick' else THOROUGH, 'bases': ['G1', 'G2'], 'k': 1,
            'letters': vm.LETTER_NAMES if tier != 'quick' else ['E-ln2', 'E+5', 'P*2'], 'member tags': ['first', 'last'], 'tol': TOL}


def cases(tier):
    out = []
    letters = [0, 2, 3] if tier == 'quick' else list(range(len(vm.LETTERS)))
    for (name, icut, N) in (QUICK if tier == 'quick' else THOROUGH):
        ent = vm.calculator(name, icut, N)
        nco = len(vm.coordinates(ent))
        devs = [()] + [((c, l),) for c in range(nco) for l in letters]
        nodes = [(b, d, m) for b in ('G1', 'G2') for d in devs for m in (('first', 'last') if not d else ('first',))]
        for c in range(0, len(nodes), CHUNK):
            out.append({'key': '{}/{}/N{}/chunk{}'.format(name, icut, N, c // CHUNK), 'crystal': name, 'icut': icut, 'N': N,
                        'nodes': [[b, [list(x) for x in d], m] for b, d, m in nodes[c:c + CHUNK]], 'cost': 3 if N == 2 else 1})
    return out


TAGKIND = {'V': 'vacancy', 'S': 'solute', 'SV': 'solute-vacancy', 'T0': 'omega0', 'T1': 'omega1', 'T2': 'omega2'}


def tagdict(ent, d, member):
    calc = ent['calc']
    out = {}
    for kind in vm.KINDS:
        for n, tags in enumerate(calc.tags[TAGKIND[kind]]):
            t = sorted(tags)[0 if member == 'first' else -1]     # sorted: hash-seed independent member choice
            out[t] = (float(d[vm.PRE[kind]][n]), float(d[vm.ENE[kind]][n]))
    return out


def evaluate(case):
    small = vm.calculator(case['crystal'], case['icut'], case['N'])
    big = vm.calculator(case['crystal'], case['icut'], case['N'] + 1)
    viols, outcomes, nontriv = [], [], 0
    vb = vm.has_vb(small)
    for base, devs, member in case['nodes']:
        devs = [tuple(x) for x in devs]
        d = vm.apply_devs(small, vm.base_data(small, base), devs)
        key = '{}/cut{}/N{}->N{};vb={};base={};dev={};member={}'.format(case['crystal'], case['icut'], case['N'], case['N'] + 1,
                                                                     int(vb), base, vm.dev_name(small, devs), member)
        sub = dict(case, nodes=[[base, [list(x) for x in devs], member]])
        try:
            td = tagdict(small, d, member)
            res = []
            for ent in (small, big):
                calc = ent['calc']
                thermo, missing, dup, bad = calc.tags2preene(td, VERBOSE=True)
                if ent is small and (missing or dup or bad):
                    raise RuntimeError('harness: tag dictionary incomplete for the smaller calculator: {} {} {}'.format(missing, dup, bad))
                if bad:
                    viols.append({'oracle': 'tag-not-recognised-by-larger-range', 'key': key, 'detail': bad[:5], 'case': sub})
                res.append(vm.package_L(ent, thermo))
            # the tag route must reproduce the class data exactly in the smaller calculator
            ts = small['calc'].tags2preene(td)
            for kind in vm.KINDS:
                if not (np.allclose(ts[vm.ENE[kind]], d[vm.ENE[kind]], atol=1e-14, rtol=0) and np.allclose(ts[vm.PRE[kind]], d[vm.PRE[kind]], atol=0, rtol=1e-14)):
                    viols.append({'oracle': 'tags2preene-roundtrip', 'key': key + ';kind=' + kind, 'detail': {'got': ts[vm.ENE[kind]].tolist(), 'want': d[vm.ENE[kind]].tolist()}, 'case': sub})
        except RuntimeError:
            raise
        except Exception as e:
            viols.append({'oracle': 'exception', 'key': key, 'detail': repr(e), 'case': sub}); continue
        sc = vm.tscale(*res[0])
        tol = TOL
        if vb: tol = max(tol, vm.bz_tol(small, d)[0])
        for name, a, b in zip(('L0vv', 'Lss', 'Lsv', 'L1vv'), res[0], res[1]):
            e = float(np.abs(a - b).max()) / sc
            if e > tol:
                viols.append({'oracle': name, 'key': key, 'detail': {'relerr': e, 'N': a.tolist(), 'N+1': b.tolist()}, 'case': sub})
        outcomes.append('{:.6e}'.format(float(np.trace(res[0][1]))))
        nontriv += 1 if devs else 0
    return {'states': 2 * len(case['nodes']), 'transitions': len(case['nodes']), 'execs': 2 * len(case['nodes']), 'outcomes': outcomes,
            'nontrivial': nontriv, 'violations': viols, 'sample': {'edge': key}}


