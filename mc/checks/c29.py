"""
C29 -- makesupercells (Interstitial and VacancyMediated): defect content, transition pairs, mappings, warnings.

E1 enumeration over (calculator, supercell matrix).  Every state and transition of the returned dictionary is
checked: tags are parsed back to unit-cell positions, located in the supercell by geometry and compared
with the R-occ model of the perfect cell plus the named defects.
"""
import itertools, warnings
import numpy as np
from onsager import crystal, supercell, OnsagerCalc
from mc import catalog
from mc.refmodels import occ as R

PID = 'C29'
ENGINE = 'E1'
TECHNIQUE = ('exhaustive walk over every state/transition/mapping of makesupercells output for a stated list of '
             'calculators x supercell matrices; tags parsed to geometry; R-occ dictionary model; brute-force minimum image')
RULE = ('case = (calculator kind, crystal, cutoff index, supercell matrix); every entry of states, transitions, '
        'transmapping, indices, reference is checked; nontrivial = transition endpoints whose recorded mapping uses '
        'a non-identity site permutation, plus endpoints correctly reported unmappable (escape states)')
LEVEL_TEXT = 'bounded-exhaustive over the listed calculators and supercells; every dictionary entry is checked'
ASSUMPTIONS = ['Interstitial calculators are given the site list / jump network in a canonical (sorted) order, rotated by the '
               'stated amounts, so that representatives do not depend on the hash seed; VacancyMediated ones as catalog.network returns them',
               'sup.G operations are correct site permutations (C27); the star sets / jump networks of the calculator '
               'are correct (C24, C26); tags name their class (C15) -- the tag<->jump consistency is only re-checked to 5e-3',
               'tags print three decimals: positions are resolved to the unique crystal site within 2e-3',
               'Nthermo = 1 only; 3D crystals only']

MATS = {
    '1I': np.eye(3, dtype=int).tolist(), '2I': (2 * np.eye(3, dtype=int)).tolist(),
    '3I': (3 * np.eye(3, dtype=int)).tolist(), '4I': (4 * np.eye(3, dtype=int)).tolist(),
    'd2hnf': [[2, 1, 0], [0, 1, 0], [0, 0, 1]],                 # det 2, low symmetry
    'cub2': [[-2, 2, 2], [2, -2, 2], [2, 2, -2]],               # det 32 (the matrix the suite uses for FCC)
    'hex6': [[2, 1, 0], [1, 2, 0], [0, 0, 2]],                  # det 6
    '553': [[5, 0, 0], [0, 5, 0], [0, 0, 3]],                   # the "large enough" HCP cell of the suite
    '5I': (5 * np.eye(3, dtype=int)).tolist(),
}
CALCS_Q = [('I', 'FCC_OT', 0), ('I', 'FCC_OT', 1), ('I', 'FCC_OT', 2), ('I', 'HCP_OT', 0), ('I', 'HCP_OT', 1), ('I', 'BCC_O', 0),
           ('V', 'FCC', 0), ('V', 'BCC', 0), ('V', 'HCP', 0), ('V', 'B2', 0),
           ('I', 'OT_FCC', 1), ('I', 'B2AB_O', 0), ('I', 'B2AOB', 0), ('V', 'B2AB', 0)]
CALCS_T = CALCS_Q + [('V', 'FCC', 1), ('V', 'BCC', 1), ('V', 'B2', 1), ('V', 'HCP15', 0), ('I', 'FCC_O', 1), ('I', 'BCC_T', 0)]
ROTS = {'quick': (0, 1, 2), 'thorough': (0, 1, 2, 3)}   # representative choices for Interstitial calculators (VacancyMediated: as given)
ROTCAP = {'quick': 40, 'thorough': 130}               # rot > 0 only on cells with at most this many sites
MATS_Q = ['1I', '2I', '3I', '4I', 'd2hnf', 'cub2']
MATS_T = MATS_Q + ['hex6', '553', '5I']
SITECAP = {'quick': 220, 'thorough': 700}


def _nsites(cname, mname):
    crys = catalog.get(cname)
    return crys.N * abs(int(round(np.linalg.det(np.array(MATS[mname], dtype=float)))))


def _configs(tier):
    calcs, mats = (CALCS_Q, MATS_Q) if tier == 'quick' else (CALCS_T, MATS_T)
    out, skipped = [], []
    for kind, cname, icut in calcs:
        for m in mats:
            for rot in (ROTS[tier] if kind == 'I' else (0,)):
                if rot and _nsites(cname, m) > ROTCAP[tier]: continue   # representative variation on the smaller cells only
                (out if _nsites(cname, m) <= SITECAP[tier] else skipped).append((kind, cname, icut, m, rot))
    return out, skipped


def BOUNDS(tier):
    conf, skipped = _configs(tier)
    return {'calculators': sorted(set('{}:{}:cut{}'.format(k, c, i) for k, c, i, m, r in conf)),
            'matrices': {m: MATS[m] for m in sorted(set(c[3] for c in conf))},
            'Nthermo': 1, 'site_cap': SITECAP[tier],
            'representative_rotations_for_Interstitial': list(ROTS[tier]) + ['rot > 0 only on cells <= {} sites'.format(ROTCAP[tier])],
            'skipped_by_site_cap': sorted(set('{}:{}:cut{}:{}'.format(*s[:4]) for s in skipped))}


def cases(tier):
    conf, _ = _configs(tier)
    return [{'key': '{}:{}:cut{}:{}{}'.format(k, c, i, m, ':rep{}'.format(r) if k == 'I' else ''), 'kind': k, 'crystal': c,
             'icut': i, 'matrix': m, 'rot': r, 'cost': _nsites(c, m) ** 2 * (3 if k == 'V' else 1)} for k, c, i, m, r in conf]


# --------------------------------------------------------------------------- helpers
def canonical_network(sitelist, jumpnetwork, rot=0):
    """
    Hash-seed independent presentation of a site list / jump network: members of every class sorted, classes
    sorted by their first member, then every class list rotated by `rot` (so that the representative --
    element 0 of each list, which makesupercells builds -- runs through the class as rot varies).
    """
    jkey = lambda j: (j[0][0], j[0][1]) + tuple(np.round(j[1], 6).tolist())
    sl = sorted((sorted(l) for l in sitelist), key=lambda l: l[0])
    jn = sorted((sorted(l, key=jkey) for l in jumpnetwork), key=lambda l: jkey(l[0]))
    r = lambda l: l[rot % len(l):] + l[:rot % len(l)]
    return [r(l) for l in sl], [r(l) for l in jn]


def make_calc(kind, cname, icut, rot=0):
    crys, chem, sitelist, jn = catalog.network(cname, icut)
    if kind == 'I':
        sitelist, jn = canonical_network(sitelist, jn, rot)
        return OnsagerCalc.Interstitial(crys, chem, sitelist, jn)
    return OnsagerCalc.VacancyMediated(crys, chem, sitelist, jn, 1)


def kinetic_displacements(crys, chem, jumpnetwork, nshell=2):
    """own enumeration of solute->vacancy separations of the kinetic shell: all sums of 1..nshell consecutive jumps"""
    jumps = {}
    for jl in jumpnetwork:
        for (i, j), dx in jl: jumps.setdefault(i, []).append((j, np.array(dx)))
    out = {}
    for i0 in range(len(crys.basis[chem])):
        front = [(i0, np.zeros(3))]
        for _ in range(nshell):
            new = []
            for i, x in front:
                for j, dx in jumps.get(i, []):
                    y = x + dx
                    new.append((j, y))
                    if np.dot(y, y) > 1e-12: out[(i0, tuple(np.round(y, 6)))] = y
            front = new
    return list(out.values())


def min_image(lattice, d):
    """brute-force minimum image of d; (vector, unique?)"""
    best, b2, unique = d, float(np.dot(d, d)), True
    for T in R.superlattice_images(lattice):
        e = d - T
        e2 = float(np.dot(e, e))
        if e2 < b2 - 1e-8: best, b2, unique = e, e2, True
        elif e2 < b2 + 1e-8: unique = False
    return best, unique


class Ctx:
    pass


def evaluate(case):
    kind, cname, icut, mname = case['kind'], case['crystal'], case['icut'], case['matrix']
    pre = case['key']
    viols, outcomes = [], set()

    def V(oracle, key, detail):
        viols.append({'oracle': oracle, 'key': '{}:{}'.format(pre, key), 'detail': detail})

    calc = make_calc(kind, cname, icut, case.get('rot', 0))
    crys, chem = calc.crys, calc.chem
    M = np.array(MATS[mname], dtype=int)
    with warnings.catch_warnings(record=True) as wlist:
        warnings.simplefilter('always')
        sd = calc.makesupercells(M)
    small = [str(w.message) for w in wlist if 'too small' in str(w.message)]
    warned = len(small) > 0

    def ctag(tag):
        """hash-seed independent name of the tag's class: the smallest tag of the class"""
        return min(calc.tags[calc.tagdicttype[tag]][calc.tagdict[tag]])

    # ---- structure of the dictionary
    wantkeys = {'states', 'transitions', 'transmapping', 'indices'} | ({'reference'} if kind == 'V' else set())
    if set(sd.keys()) != wantkeys: V('dict-keys', 'keys', sorted(sd.keys()))
    states, transitions, transmapping = sd['states'], sd['transitions'], sd['transmapping']
    anysup = sd['reference'] if kind == 'V' else next(iter(states.values()))
    schem = crys.Nchem if kind == 'V' else None
    labels, problems = R.site_labels(anysup)
    if problems: V('sites', 'sites', problems[:3])
    perfect = R.perfect_model(anysup, labels)
    if kind == 'V':
        if R.ROcc.of(sd['reference']).occ != perfect.occ or not R.ROcc.of(sd['reference']).sane():
            V('reference-not-perfect', 'reference', R.ROcc.of(sd['reference']).diff(perfect))
    Lsup = np.dot(crys.lattice, M.astype(float))
    species = {'i': chem, 'v': -1, 's': schem}

    def meta_ok(sup, what):
        ok = (np.all(sup.superlatt == M) and tuple(sup.interstitial) == ((chem,) if kind == 'I' else ())
              and sup.Nchem == crys.Nchem + (1 if kind == 'V' else 0) and sup.crys is crys and len(sup.occ) == len(labels)
              and np.allclose(sup.lattice, Lsup, atol=1e-12))
        if kind == 'V': ok = ok and sup.chemistry[schem] == 'solute'
        if not ok: V('supercell-meta', what, 'superlatt/interstitial/Nchem/crys differ from the request')

    def place(defects):
        """(expected model, degenerate?, [(type, site index, (ci, R))]) for the defects named by one side of a tag"""
        m, where, used = perfect.copy(), [], set()
        for t, u in defects:
            ci, Rv = R.locate(crys, chem, u)
            n = R.super_index(anysup, ci, Rv)
            where.append((t, n, (ci, Rv)))
        degenerate = len(set(n for _, n, _ in where)) < len(where)
        for t, n, _ in where: m.set(n, species[t])
        return m, degenerate, where

    def content(sup, m, oracle, key, tag):
        got = R.ROcc.of(sup)
        if not got.sane() or not sup.__sane__():
            V('insane', key, {'tag': tag, 'state': got.key()})
        if got.occ != m.occ:
            V(oracle, key, {'tag': tag, 'differs from the tag (site: [expected, found])':
                            {n: [m.occ[n], got.occ[n]] for n in range(len(labels)) if m.occ[n] != got.occ[n]}})
            return False
        return True

    ndeg = 0
    # ---- states
    if kind == 'V':
        nwant = 2 * len(calc.sitelist) + calc.thermo.Nstars
        types = {'vacancy': len(calc.sitelist), 'solute': len(calc.sitelist), 'solute-vacancy': calc.thermo.Nstars}
    else:
        nwant, types = len(calc.sitelist), {'states': len(calc.sitelist)}
    if len(states) != nwant: V('state-count', 'states', {'found': len(states), 'classes': nwant})
    seen = {}
    for tag in sorted(states):
        sup = states[tag]
        if tag not in calc.tagdict: V('unknown-tag', 'state:' + tag, 'tag is not in the calculator'); continue
        k = ctag(tag)
        cls = (calc.tagdicttype[tag], calc.tagdict[tag])
        if cls in seen: V('class-twice', 'state:' + k, 'tags {} and {} are in the same class'.format(seen[cls], tag))
        seen[cls] = tag
        if cls[0] not in types: V('wrong-type', 'state:' + k, cls[0])
        ind = sd['indices'].get(tag)
        if ind != (cls if kind == 'V' else cls[1]): V('indices', 'state:' + k, {'indices': ind, 'calculator': cls})
        meta_ok(sup, 'state:' + k)
        try:
            P = R.parse_tag(tag)
            if P['kind'] != 'state': raise ValueError('state tag parses as a transition')
            m, deg, where = place(P['sides'][0])
        except ValueError as e:
            V('tag-unparsable', 'state:' + k, str(e)); continue
        if deg:
            ndeg += 1
            if kind == 'V' and not warned: V('nowarn-degenerate', 'state:' + k, 'two named defects share a supercell site, no warning')
            continue
        if content(sup, m, 'state-content', 'state:' + k, tag):
            outcomes.add(('state', cls[0], tuple(sorted(t for t, _, _ in where))))
    for t, n in types.items():
        if sum(1 for c in seen if c[0] == t) != n: V('state-count', 'states:' + t, 'classes without a supercell')

    # ---- orbits of the state supercells (for the "no mapping recorded" completeness test)
    Gl = list(anysup.G)
    Pm = np.array([g.indexmap[0] for g in Gl], dtype=int)
    rows = np.arange(len(Gl))[:, None]
    orbits = {}

    def orbit(tag):
        if tag not in orbits:
            img = np.empty(Pm.shape, dtype=np.int8)
            img[rows, Pm] = np.array(states[tag].occ, dtype=np.int8)[None, :]
            orbits[tag] = set(r.tobytes() for r in img)
        return orbits[tag]

    # ---- transitions
    if kind == 'V':
        nets = {'omega0': calc.om0_jn, 'omega1': calc.om1_jn, 'omega2': calc.om2_jn}
    else:
        nets = {'transitions': calc.jumpnetwork}
    ntr = sum(len(n) for n in nets.values())
    if len(transitions) != ntr: V('transition-count', 'transitions', {'found': len(transitions), 'classes': ntr})
    if set(transmapping.keys()) != set(transitions.keys()): V('transmapping-keys', 'transmapping', 'keys differ from transitions')
    tseen, nontrivial, nmapped, nunmapped = {}, 0, 0, 0
    for tag in sorted(transitions):
        if tag not in calc.tagdict: V('unknown-tag', 'trans:' + tag, 'tag is not in the calculator'); continue
        k = ctag(tag)
        ttype, tcls = calc.tagdicttype[tag], calc.tagdict[tag]
        if (ttype, tcls) in tseen: V('class-twice', 'trans:' + k, 'two transitions of one class')
        tseen[(ttype, tcls)] = tag
        if ttype not in nets: V('wrong-type', 'trans:' + k, ttype); continue
        ind = sd['indices'].get(tag)
        if ind != ((ttype, tcls) if kind == 'V' else tcls): V('indices', 'trans:' + k, {'indices': ind})
        pairsup = transitions[tag]
        if not (isinstance(pairsup, tuple) and len(pairsup) == 2): V('transition-shape', 'trans:' + k, str(type(pairsup))); continue
        s0, s1 = pairsup
        meta_ok(s0, 'trans:' + k); meta_ok(s1, 'trans:' + k)
        (i0, j0), dx = nets[ttype][tcls][calc.tags[ttype][tcls].index(tag)]
        dx = np.array(dx, dtype=float)
        try:
            P = R.parse_tag(tag)
            if P['kind'] != 'transition': raise ValueError('transition tag parses as a state')
            a, b = P['sides']
            jt = P['jumptype']
            if (jt if kind == 'V' else 'transitions') != ttype: raise ValueError('tag prefix {} but class type {}'.format(jt, ttype))
            if jt == 'i':
                side0, side1 = a, b
                dtag = np.dot(crys.lattice, b[0][1] - a[0][1])
                datom = dx
            elif jt == 'omega0':
                side0, side1 = a, b
                dtag = np.dot(crys.lattice, b[0][1] - a[0][1]); datom = -dx
            elif jt == 'omega1':
                if [t for t, _ in a] != ['s', 'v'] or [t for t, _ in b] != ['v']: raise ValueError('omega1 tag shape')
                side0, side1 = a, [a[0], b[0]]
                dtag = np.dot(crys.lattice, b[0][1] - a[1][1]); datom = -dx
            elif jt == 'omega2':
                if [t for t, _ in a] != ['s', 'v'] or [t for t, _ in b] != ['s', 'v']: raise ValueError('omega2 tag shape')
                # complex2 is printed in the frame where the solute sits in cell 0: undo that lattice translation
                (cs0, Rs0), (cv0, Rv0) = R.locate(crys, chem, a[0][1]), R.locate(crys, chem, a[1][1])
                (cs1, Rs1), (cv1, Rv1) = R.locate(crys, chem, b[0][1]), R.locate(crys, chem, b[1][1])
                T = np.array(Rv0) - np.array(Rs1)
                if cs1 != cv0 or cv1 != cs0 or tuple(np.array(Rv1) + T) != Rs0:
                    raise ValueError('omega2 tag is not an exchange of the two named sites')
                side0, side1 = a, [('s', a[1][1]), ('v', a[0][1])]
                dtag = np.dot(crys.lattice, a[0][1] - a[1][1]); datom = -dx
            else:
                raise ValueError('unknown jump type ' + str(jt))
            m0, deg0, w0 = place(side0)
            m1, deg1, w1 = place(side1)
        except ValueError as e:
            V('tag-unparsable', 'trans:' + k, str(e)); continue
        if np.max(np.abs(dtag - dx)) > 5e-3: V('tag-vs-dx', 'trans:' + k, {'tag': tag, 'from tag': dtag.tolist(), 'dx': dx.tolist()})
        # degenerate: the named positions collide modulo the supercell (within an endpoint, or initial == final)
        deg = deg0 or deg1 or (kind == 'V' and R.in_superlattice(Lsup, dx))
        if deg:
            ndeg += 1
            if kind == 'V' and not warned: V('nowarn-degenerate', 'trans:' + k, 'named defect positions coincide modulo the supercell, no warning')
        else:
            ok0 = content(s0, m0, 'transition-content', 'trans:' + k + ':initial', tag)
            ok1 = content(s1, m1, 'transition-content', 'trans:' + k + ':final', tag)
            if ok0 and ok1:
                # exactly one moving atom
                g0, g1 = R.ROcc.of(s0), R.ROcc.of(s1)
                dsites = sorted(n for n in range(len(labels)) if g0.occ[n] != g1.occ[n])
                moved = None
                if len(dsites) == 0 and R.in_superlattice(Lsup, dx):
                    moved = 'none'      # interstitial jump onto its own periodic image: nothing to compare
                elif len(dsites) == 2:
                    x, y = dsites
                    if g0.occ[x] == -1: x, y = y, x
                    if g0.occ[y] == -1 and g1.occ[x] == -1 and g0.occ[x] == g1.occ[y] and g0.occ[x] >= 0: moved = (x, y)
                if moved is None:
                    V('not-one-moving-atom', 'trans:' + k, {'tag': tag, 'sites that differ': dsites})
                elif moved != 'none':
                    x, y = moved
                    disp = np.dot(Lsup, anysup.pos[y] - anysup.pos[x])
                    if not R.in_superlattice(Lsup, disp - datom):
                        V('displacement', 'trans:' + k, {'tag': tag, 'atom moves': disp.tolist(), 'jump requires': datom.tolist()})
                    mi, uniq = min_image(Lsup, disp)
                    st = R.image_status(Lsup, datom)
                    if st == 'unique' and (not uniq or np.max(np.abs(mi - datom)) > 1e-9):
                        V('displacement-minimum-image', 'trans:' + k, {'tag': tag, 'minimum image': mi.tolist(), 'jump requires': datom.tolist()})
                    # NEB ordering: the lists agree slot by slot except the one slot of the moving atom
                    slots = [(c, n) for c, (l0, l1) in enumerate(zip(g0.order, g1.order)) for n in range(max(len(l0), len(l1)))
                             if n >= len(l0) or n >= len(l1) or l0[n] != l1[n]]
                    c = g0.occ[x]
                    if [len(l) for l in g0.order] != [len(l) for l in g1.order] or len(slots) != 1 or slots[0][0] != c \
                            or g0.order[c][slots[0][1]] != x or g1.order[c][slots[0][1]] != y:
                        V('neb-ordering', 'trans:' + k, {'tag': tag, 'slots that differ (species, slot)': slots})
                    outcomes.add(('moved', ttype, st, tuple(np.round(sorted(np.abs(datom)), 4))))
        # ---- recorded mappings
        tm = transmapping.get(tag)
        if not (isinstance(tm, tuple) and len(tm) == 2):
            V('transmapping-shape', 'trans:' + k, 'entry is {} of length {}'.format(type(tm).__name__, len(tm) if hasattr(tm, '__len__') else '?'))
            continue
        for which, mp, end in (('initial', tm[0], s0), ('final', tm[1], s1)):
            kk = 'trans:' + k + ':' + which
            endocc = np.array(end.occ, dtype=np.int8).tobytes()
            if mp is None:
                hit = [st for st in sorted(states) if endocc in orbit(st)]
                if hit:   # (None is legitimate only when no state supercell is equivalent to the endpoint under sup.G)
                    V('mapping-missing', kk, {'tag': tag, 'states that are equivalent to the endpoint': [ctag(h) for h in hit]})
                else:
                    nunmapped += 1; outcomes.add(('unmapped', ttype))
                continue
            if not (isinstance(mp, tuple) and len(mp) == 3 and mp[0] in states):
                V('mapping-shape', kk, str(mp)[:200]); continue
            stag, g, mapping = mp
            st = states[stag]
            if not any(g is h for h in Gl) and g not in anysup.G: V('mapping-foreign-op', kk, 'operation is not in sup.G')
            try:
                real = (g * st).reorder(mapping)
                okreal = (real == end) and not (real != end) and R.state_of(real) == R.state_of(end)
            except Exception as e:
                okreal = False; real = None
                V('mapping-replay', kk, {'tag': tag, 'state': stag, 'raised': '{}: {}'.format(type(e).__name__, e)})
            if real is not None and not okreal:
                V('mapping-replay', kk, {'tag': tag, 'state': stag, '(g*state).reorder(mapping)': R.state_of(real)[1], 'endpoint': R.state_of(end)[1]})
            gp = R.geometric_perm(anysup.pos, g.rot, g.trans)
            if gp is None:
                V('mapping-op-not-geometric', kk, 'operation does not permute the sites'); continue
            try:
                model = R.ROcc.of(st).permuted(gp).reordered(mapping)
                okmodel = model.key() == R.state_of(end)
            except Exception:
                okmodel = False
            if not okmodel: V('mapping-replay-model', kk, {'tag': tag, 'state': stag})
            nmapped += 1
            if gp != list(range(len(gp))): nontrivial += 1
            outcomes.add(('mapped', ttype, calc.tagdicttype[stag], gp == list(range(len(gp))),
                          all(list(cm) == list(range(len(cm))) for cm in mapping)))

    # ---- warnings: a cell in which some kinetic pair state is not its own (unique) minimum image must warn
    need = None
    if kind == 'V':
        st = [R.image_status(Lsup, d) for d in kinetic_displacements(crys, chem, calc.om0_jn)]
        need = 'shorter' if 'shorter' in st else ('tied' if 'tied' in st else None)
        if need and not warned:
            V('nowarn-too-small', 'warning:' + need, 'some kinetic pair separation has a {} periodic image, no warning was issued'.format(
                'strictly shorter' if need == 'shorter' else 'equally long'))
        # cross-check of the own enumeration against the calculator's kinetic star set (sizes only, for the evidence)
        ownn, libn = len(st), sum(1 for PS in calc.kinetic.states if not PS.iszero())
        outcomes.add(('warn', need, warned, ownn == libn))
    return {'states': len(states) + 2 * len(transitions), 'transitions': nmapped + nunmapped + len(transitions),
            'execs': 1 + nmapped, 'outcomes': ['{}:{}:{}'.format(kind, cname, o) for o in outcomes],
            'nontrivial': nontrivial + nunmapped, 'violations': viols,
            'sample': {'case': pre, 'sites': len(labels), 'len(G)': len(Gl), 'states': sorted(states),
                       'transitions': len(transitions), 'mapped_endpoints': nmapped, 'unmapped_endpoints': nunmapped,
                       'degenerate_entries': ndeg, 'too_small_by_own_test': need, 'warned': warned,
                       'warning_kinds': sorted(set(s.split('too small: ')[-1] for s in small))}}
