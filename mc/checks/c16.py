"""
C16 -- Taylor3D / Taylor2D arithmetic commutes with evaluation; index tables are exact.

Explorer E1 (input lattice) over a finite structural alphabet of expansions, every unary operation on every
expansion and every binary operation on every compatible pair, the REAL objects of onsager.PowerExpansion
observed through Taylor?D.__call__ and compared with the reference model R-poly (mc/refmodels/poly.py):
an expansion is sum_n |u|^n g_n(u/|u|) with g_n a polynomial of degree <= Lmax in the normalised
components.  The per-n angular functions g_n are read off the real object by ONE call per direction with
one-hot vector-valued `fnu` entries and compared at a direction set that is verified at start-up (numerical
rank) to be unisolvent for polynomials of degree <= Lmax on the sphere/circle -- agreement at the points
decides the polynomial identity.  The callable-`fnu` and dictionary modes of __call__ are observed at a
point subset x radii {0.3, 1, 2.5} (and u = 0 where the function is continuous there).

Index tables: every entry of every table for the class's Lmax (pow2ind/ind2pow, powlrange, Ylm2ind/FC2ind,
directmult, powercoeff, Ylmpow/powYlm resp. FCpow/powFC, Lproj), plus the same for other Lmax in fresh
processes.

E2 sub-check: the class-level lazily initialised tables are shared mutable state (Taylor2D inherits from
Taylor3D): all histories of <= 3 operations over {construct 3D, construct 2D, construct with another Lmax,
class-method use, instance use} are run, each in a process forked from a pristine interpreter; tables and
results must not depend on the order in which the two classes were first used.
"""
import os, sys, json, itertools, subprocess, hashlib, math, traceback
import numpy as np
from mc.refmodels import poly

PID = 'C16'
ENGINE = 'E1'
TECHNIQUE = ('exhaustive enumeration of index-table entries, of a structural alphabet of expansions x all unary '
             'operations and of all compatible pairs x all binary operations on the real Taylor3D/Taylor2D objects; '
             'oracle = independent polynomial evaluation at a rank-verified unisolvent point set; explicit-state '
             'enumeration of class-initialisation histories in forked pristine processes')
RULE = ('states = (dimension, (n,l,kind) entry list in list order, coefficient shape, dtype) expansions resp. table '
        'entries resp. initialisation histories; transitions = one operation applied and compared per n at all '
        'directions; nontrivial = operation results whose reference value is not identically zero and that differ '
        'from the (first) operand')
LEVEL_TEXT = ('every polynomial identity asserted by the tables is decided (unisolvent evaluation / exact integer '
              'comparison); the operation algebra is checked on all structures of <= 2 (thorough: 3) entries with '
              'generic coefficients, which covers every branch of the merge-by-n / pad-by-l bookkeeping')
LEVEL_NOTE = 'generic coefficient tables are fixed, O(1) in magnitude; reduce() is used with its default atol=1e-10'
ASSUMPTIONS = [
    'the class is initialised by constructing an instance before class attributes are used (GFcalc protocol)',
    'products are only formed when the sum of the angular orders is <= Lmax (property pre-condition); beyond that '
    'the package silently folds the overflow into the last coefficient (not checked, reported)',
    'u = 0 is only observed for expansions with all n >= 0 whose n = 0 term is isotropic (function continuous at 0)',
    'coefficients are O(1): the absolute atol=1e-10 of reduce/collect/separate is a documented parameter',
]

LMAX = 4
SHAPES = [(), (1, 1), (2, 2), (2, 3), (3, 2)]
NV = [-2, -1, 0, 1, 2]
LV = [0, 1, 2, 3, 4]
TOL = 1e-10     # DESIGN 6/C16: R-poly vs package through different arithmetic, <= 35*35 products of O(1) numbers
                # (observed 1e-15); also the documented zeroing threshold of reduce().  Multiplied by the scale.


def shp(s): return 'x'.join(str(x) for x in s) if len(s) else 'scalar'


# =========================================================================================== binding to the real class
_CTX = {}


class Ctx(object):
    """binding to the real class + evaluation points.  full=True: the whole direction set of DESIGN 5.2;
    full=False (bulk operations of the quick tier): the generic directions + one axis / face- / body-diagonal
    direction -- also verified to be unisolvent, so the decision is the same, with fewer calls"""

    def __init__(self, dim, full=True):
        import onsager.PowerExpansion as PE
        self.dim, self.full = dim, full
        self.T = PE.Taylor3D if dim == 3 else PE.Taylor2D
        self.T()     # documented protocol: construct once to initialise the class tables (default Lmax)
        if self.T.Lmax != LMAX: raise RuntimeError('harness: class initialised with Lmax {}'.format(self.T.Lmax))
        U, lab = poly.directions(dim)
        if not full:
            kinds, keep = set(), []
            for i, l in enumerate(lab):
                if l == 'generic' or l not in kinds: keep.append(i)
                kinds.add(l)
            U, lab = U[keep], [lab[i] for i in keep]
        self.U, self.lab = U, lab
        self.H = poly.Harmonics(dim, LMAX, self.U)
        if not self.H.unisolvent or self.H.cond > 1e3:
            raise RuntimeError('harness: direction set not unisolvent (rank {}, cond {})'.format(self.H.rank, self.H.cond))
        # point subset for the full-value observers: one of each special kind + two generic
        kinds = {}
        for i, l in enumerate(self.lab): kinds.setdefault(l, []).append(i)
        self.sub = [v[0] for k, v in kinds.items() if k != 'generic'] + kinds['generic'][1:3]


def ctx(dim, full=True):
    if (dim, full) not in _CTX: _CTX[(dim, full)] = Ctx(dim, full)
    return _CTX[(dim, full)]


def entry_monos(dim, n, l, kind, tag, shape, real):
    """{exps: coefficient} of one (n, l) entry of the given kind"""
    g = lambda e, ll=l, t=tag: poly.gencoef(t, n, ll, e, shape, real)
    if kind == 'gen':
        return {e: g(e) for e in poly.exps(dim, l)}
    if kind == 'neg':       # exact negative of 'gen' (cancellation between two entries of the same n)
        return {e: -g(e) for e in poly.exps(dim, l)}
    if kind == 'one':       # the constant 1 (identity matrix)
        return {(0,) * dim: (np.eye(shape[0], dtype=complex) if len(shape) == 2 else np.array(1. + 0j))}
    if kind == 'par':       # powers with the parity of n only (C17 domain)
        return {e: g(e) for e in poly.exps(dim, l) if (sum(e) - n) % 2 == 0}
    if kind in ('pad1', 'pad2', 'pad3'):   # generic of degree l-k stored with l blocks (zero-padded top blocks)
        return {e: g(e) for e in poly.exps(dim, l) if sum(e) <= l - int(kind[3])}
    if kind == 'gap':       # top block zero, block l-1 non-zero, block l-2 zero, lower blocks generic
        return {e: g(e) for e in poly.exps(dim, l) if sum(e) == l - 1 or sum(e) < l - 2}
    if kind == 'top':       # homogeneous of degree l
        return {e: g(e) for e in poly.exps(dim, l) if sum(e) == l}
    if kind in ('r2', 'null'):   # (x^2+y^2(+z^2)) * q   resp.  (x^2+y^2(+z^2) - 1) * q, q generic of degree l-2
        out = {}
        for e in poly.exps(dim, l - 2):
            c = g(e)
            for k in range(dim):
                e2 = tuple(x + 2 * (j == k) for j, x in enumerate(e))
                out[e2] = out[e2] + c if e2 in out else c.copy()
            if kind == 'null': out[e] = out[e] - c if e in out else -c
        return out
    if kind == 'harm':      # pure harmonic of degree l: A (x+iy)^l [+ B z (x+iy)^(l-1) in 3D]
        out = {}
        A = poly.gencoef(tag, n, l, (0,) * dim, shape, False)
        for k in range(l + 1):
            e = (k, l - k) + (0,) * (dim - 2)
            out[e] = A * (math.comb(l, k) * (1j) ** (l - k))
        if dim == 3 and l >= 1:
            B = poly.gencoef(tag + 7, n, l, (0,) * dim, shape, False)
            for k in range(l):
                e = (k, l - 1 - k, 1)
                out[e] = out.get(e, 0) + B * (math.comb(l - 1, k) * (1j) ** (l - 1 - k))
        return out
    raise KeyError(kind)


def spec_str(spec):
    return 'ent={};shape={}{}'.format(''.join('({},{},{})'.format(*e[:3]) for e in spec['ent']),
                                      shp(tuple(spec['shape'])), ';real' if spec.get('real') else '')


def build(cx, spec):
    """(real object, per-entry reference [(n, l, {exps: coef})]) for a form spec"""
    T, dim = cx.T, cx.dim
    shape, tag, real = tuple(spec['shape']), spec.get('tag', 0), bool(spec.get('real'))
    cl, ents = [], []
    for i, e in enumerate(spec['ent']):
        n, l, kind = e[0], e[1], e[2]
        t = tag + (e[3] if len(e) > 3 else 0.13 * i)
        d = entry_monos(dim, n, l, kind, t, shape, real)
        arr = np.zeros((int(T.powlrange[l]),) + shape, dtype=float if real else complex)
        for ex, c in d.items(): arr[T.pow2ind[ex]] = c
        cl.append((n, l, arr)); ents.append((n, l, d))
    return T(cl), ents


def ref_of(cx, ents, shape):
    return poly.RExp(cx.dim, shape, [(n, d) for n, l, d in ents])


_GMEMO = {}


def ref_angular(cx, spec, ents):
    """reference per-n angular functions of a form at the direction set (memoised per worker)"""
    k = (cx.dim, cx.full, json.dumps(spec, sort_keys=True))
    if k not in _GMEMO:
        if len(_GMEMO) > 4000: _GMEMO.clear()
        _GMEMO[k] = ref_of(cx, ents, tuple(spec['shape'])).angular(cx.U)
    return {n: g for n, g in _GMEMO[k].items()}


def impl_angular(obj, U):
    """{n: G[npts, *shape]} from the real object: one __call__ per direction with one-hot vector-valued fnu"""
    cl = obj.coefflist
    ns = sorted(set(int(n) for n, l, c in cl))
    if not ns: return {}
    shape = cl[0][2].shape[1:]
    K = len(ns)
    eye = np.eye(K)
    hot = {n: eye[i].reshape((K,) + (1,) * len(shape)) for i, n in enumerate(ns)}
    fnu = {(n, l): hot[int(n)] for n, l, c in cl}
    vals = np.array([obj(u, fnu) for u in U])
    return {n: vals[:, i] for i, n in enumerate(ns)}


def impl_entry_angular(T, entry, U):
    n, l, c = entry
    o = T([(0, l, c)])
    return np.array([o(u, {(0, l): 1.}) for u in U])


def state_digest(obj):
    h = hashlib.sha1()
    for n, l, c in obj.coefflist:
        h.update(repr((int(n), int(l), c.shape, str(c.dtype))).encode()); h.update(np.ascontiguousarray(c).tobytes())
    return h.hexdigest()


def compare_angular(cx, obj, expected, scale, fails, oracle='value'):
    got = impl_angular(obj, cx.U)
    d, where = poly.gdiff(got, expected)
    tol = TOL * max(1., scale)
    if not (d <= tol):
        fails.append((oracle, 'per-n angular function differs by {:.3g} (tol {:.1g}) at n={}'.format(d, tol, where)))
    return got


def observe_full(cx, obj, expected, fails, cont0=None, sub=None):
    """callable-fnu mode and dictionary mode of __call__ at the point subset x radii (and u=0 if defined)"""
    cl = obj.coefflist
    fnu = {(n, l): (lambda x, n=int(n): x ** n) for n, l, c in cl}
    nex = 0
    for pi in (cx.sub if sub is None else sub):
        for r in poly.RADII[1:]:
            u = r * cx.U[pi]
            ref = sum(float(r) ** n * g[pi] for n, g in expected.items()) if expected else 0.
            mag = sum(float(r) ** n * np.abs(g[pi]).max() for n, g in expected.items() if g[pi].size) if expected else 0.
            tol = TOL * max(1., mag)
            v = obj(u.copy(), fnu)
            nex += 1
            if not np.all(np.abs(np.asarray(v) - ref) <= tol):
                fails.append(('call-function', 'callable-fnu value differs by {:.3g} at dir#{} r={}'.format(
                    float(np.abs(np.asarray(v) - ref).max()), pi, r)))
                return nex
            dd = obj(u.copy())
            v2 = sum(float(r) ** n * val for (n, l), val in dd.items()) if dd else 0.
            nex += 1
            if not np.all(np.abs(np.asarray(v2) - ref) <= tol):
                fails.append(('call-dict', 'sum over the returned (n,l) dictionary differs by {:.3g} at dir#{} r={} '
                                           '(duplicate (n,l) entries: {})'.format(
                    float(np.abs(np.asarray(v2) - ref).max()), pi, r, len(set((n, l) for n, l, c in cl)) < len(cl))))
                return nex
    if cont0 is not None:
        v = obj(np.zeros(cx.dim), fnu)
        nex += 1
        if not np.all(np.abs(np.asarray(v) - cont0) <= TOL * max(1., float(np.abs(cont0).max()) if np.size(cont0) else 1.)):
            fails.append(('call-zero', 'value at u=0 differs: {} vs {}'.format(np.asarray(v).tolist(), np.asarray(cont0).tolist())))
    return nex


# =========================================================================================== forms (structural alphabet)
def forms_unary(tier, base=True):
    """list of entry lists, simplest first.  base=False: the reduced list used for the non-base shapes"""
    quick = tier == 'quick'
    F = []
    for n in NV:
        for l in LV: F.append([[n, l, 'gen']])
    for l in (2, 3, 4):
        for k in ('r2', 'null', 'harm'): F.append([[0, l, k]])
    F.append([[2, 0, 'harm']]); F.append([[1, 1, 'harm']]); F.append([[2, 4, 'top']])
    # zero-padded storage: the highest block(s) vanish, lower blocks of either parity do not
    for l in (1, 2, 3, 4):
        for k in (1, 2, 3):
            if k <= l: F.append([[0, l, 'pad{}'.format(k)]])
    F.append([[1, 3, 'gap']]); F.append([[0, 4, 'gap']]); F.append([[-1, 2, 'pad1'], [1, 4, 'pad1']])
    F.append([[0, 3, 'pad1'], [0, 2, 'neg', 0.]])
    # two entries with the same n (uncollected / separated representation), incl. identical (n,l)
    for n in ((0, 2) if quick else NV):
        for l1 in LV:
            for l2 in LV:
                if quick and n == 2 and (l1, l2) not in ((0, 2), (2, 0), (2, 2), (1, 3), (4, 1)): continue
                F.append([[n, l1, 'gen'], [n, l2, 'gen']])
    for l in (0, 2, 4):     # exact cancellation between two entries
        F.append([[0, l, 'gen', 0.], [0, l, 'neg', 0.]])
        F.append([[1, l, 'gen', 0.], [1, 4, 'gen', 0.5], [1, l, 'neg', 0.]])
    F.append([[0, 4, 'r2'], [0, 2, 'gen'], [2, 3, 'null'], [1, 2, 'harm']])
    if quick and not base: return F
    # two entries, distinct n; list order ascending in n and (quick: for three n-pairs) descending
    lp = [(0, 0), (0, 2), (2, 0), (1, 3), (4, 1)] if (quick or not base) else [(a, b) for a in LV for b in LV]
    for n1 in NV:
        for n2 in NV:
            if n1 == n2: continue
            if quick and n1 > n2 and (n1, n2) not in ((0, -2), (2, 1), (1, -1)): continue
            for (l1, l2) in lp: F.append([[n1, l1, 'gen'], [n2, l2, 'gen']])
    if not quick and base:
        l3 = [0, 2, 3]
        for ns in itertools.combinations(NV, 3):
            for ls in itertools.product(l3, repeat=3):
                F.append([[n, l, 'gen'] for n, l in zip(ns, ls)])
        for n in NV:
            for m in NV:
                if n == m: continue
                for ls in itertools.product((0, 2), repeat=3):
                    F.append([[n, ls[0], 'gen'], [m, ls[1], 'gen'], [n, ls[2], 'gen']])
    return F


def bforms(name):
    """named operand alphabets for the binary operations"""
    if name == 'S':      # all single entries
        return [[[n, l, 'gen']] for n in NV for l in LV]
    if name == 'Sr':     # reduced single entries
        return [[[n, l, 'gen']] for n in (-2, 0, 1) for l in (0, 1, 2, 4)]
    if name == 'Sx':     # four single entries (shape-incompatibility sub-check)
        return [[[n, l, 'gen']] for n in (0, 1) for l in (0, 2)]
    if name == 'Dq':
        F = []
        for n1, n2 in ((-2, 0), (-1, 1), (0, 1), (0, 2), (1, 2), (-2, 2)):
            for (l1, l2) in ((0, 2), (2, 0), (1, 1)): F.append([[n1, l1, 'gen'], [n2, l2, 'gen']])
        for n in (-1, 0):
            for (l1, l2) in ((0, 2), (2, 0), (1, 1)): F.append([[n, l1, 'gen'], [n, l2, 'gen']])
        return F
    if name == 'Dt':
        F = []
        for n1, n2 in itertools.combinations(NV, 2):
            for (l1, l2) in ((0, 2), (2, 0), (1, 1), (2, 2)): F.append([[n1, l1, 'gen'], [n2, l2, 'gen']])
        for n in (-1, 0, 1):
            for (l1, l2) in ((0, 2), (2, 0), (1, 1), (2, 2)): F.append([[n, l1, 'gen'], [n, l2, 'gen']])
        return F
    if name == 'SDt': return bforms('S') + bforms('Dt')
    raise KeyError(name)


def binary_blocks(tier, sa, sb):
    """list of (A alphabet name, B alphabet name): all pairs A x B are enumerated"""
    if (sa, sb) in INCOMPAT: return [('Sx', 'Sx')]
    if (sa, sb) in BASE_PAIRS:
        if tier != 'quick': return [('SDt', 'SDt')]
        return [('S', 'S'), ('Dq', 'Dq')] if (sa, sb) == BASE_PAIRS[0] else [('Sr', 'Sr'), ('Dq', 'Dq')]
    return [('Sr', 'Sr')] if tier == 'quick' else [('S', 'S'), ('Dq', 'Dq')]


ADD_SHAPES = [(s, s) for s in SHAPES]
MUL_SHAPES = ([((), s) for s in SHAPES] + [(s, ()) for s in SHAPES[1:]] +
              [((1, 1), (1, 1)), ((2, 2), (2, 2)), ((2, 2), (2, 3)), ((2, 3), (3, 2)), ((3, 2), (2, 3)), ((3, 2), (2, 2))])
BASE_PAIRS = [((2, 2), (2, 2)), ((), (2, 2)), ((), ())]
INCOMPAT = [((2, 3), (2, 3)), ((1, 1), (2, 2)), ((2, 2), (3, 2)), ((3, 2), (3, 2))]


def lmax_of(ent): return max(e[1] for e in ent)


# =========================================================================================== unary operations
def keys_for(shape):
    if len(shape) == 0: return []
    r, c = shape
    ks = [('00', (0, 0)), ('last', (r - 1, c - 1)), ('row0', (0,)), ('col0', (slice(None), 0)),
          ('rows01', (slice(0, 1), slice(None)))]
    if c >= 2: ks.append(('cols1-', (slice(None), slice(1, None))))
    return ks


def unary_opnames(spec):
    shape = tuple(spec['shape'])
    ent = spec['ent']
    ns = [e[0] for e in ent]
    names = ['observe', 'pos', 'neg', 'copy', 'mul_real', 'rmul_cplx', 'mul_dict', 'mul_array', 'ismul', 'ldot_num',
             'ldot_dictnum', 'nl', 'str']
    if len(shape) == 2:
        r, c = shape
        for k in sorted(set([r, 3 if r != 3 else 2])): names += ['ldot:{}'.format(k)]
        for k in sorted(set([c, 3 if c != 3 else 2])): names += ['rdot:{}'.format(k)]
        names += ['ildot', 'irdot', 'ldot_dict', 'rdot_dict']
        for kn, k in keys_for(shape):
            names += ['getitem:' + kn, 'setitem_zeros:' + kn, 'setitem_same:' + kn]
            if len(ent) >= 2: names.append('setitem_subset:' + kn)
    for N in (-3, -2, -1, 0, 1, 2, 3):
        names += ['truncate:{}'.format(N), 'truncate_inplace:{}'.format(N)]
    names += ['reducecoeff', 'collectcoeff', 'reduce', 'separate', 'reduce_separate', 'separate_reduce', 'reduce_twice',
              'add_array', 'sub_array', 'radd_array', 'rsub_array', 'iadd_array', 'isub_array', 'radd_zero',
              'self_add', 'self_sub', 'self_iadd', 'self_isub']
    if 2 * lmax_of(ent) <= LMAX and (len(shape) == 0 or shape[0] == shape[1]): names.append('self_mul')
    if len(ent) >= 2 and len(set(ns)) == len(ns): names.append('addterms')
    if len(ent) >= 2: names.append('addterms_overlap')
    return names


def run_unary_op(cx, spec, name):
    """
    run one operation on a freshly built operand.  Returns (fails, nexec, outcome digest, nontrivial flag).
    """
    op, _, arg = name.partition(':')
    if op == 'observe': cx = ctx(cx.dim, True)      # the plain evaluation is always observed at every direction
    T, U, dim = cx.T, cx.U, cx.dim
    shape = tuple(spec['shape'])
    a, ents = build(cx, spec)
    ra = ref_of(cx, ents, shape)
    ga = ref_angular(cx, spec, ents)
    ent_g = [(n, l, poly.RExp(dim, shape, [(n, d)]).angular(U).get(n, np.zeros((len(U),) + shape))) for n, l, d in ents]
    scale = max(poly.gmax(ga), max([poly.gmax({0: g}) for n, l, g in ent_g] + [0.]))
    before = state_digest(a)
    fails, nex = [], 0
    cont0 = ra.value0() if ra.continuous_at_0() else None
    inplace = False
    res, expected, post = None, None, None

    def scale_g(g, f): return {n: f * v for n, v in g.items()}

    def by_entry(fn):
        out = {}
        for n, l, g in ent_g:
            v = fn(n, l, g)
            out[n] = out[n] + v if n in out else v
        return out

    W = poly.genmatrix(3, shape) if len(shape) == 2 else np.array(0.7 - 0.45j)
    sdict = {(e[0], e[1]): complex(np.cos(1.1 * e[0] + 0.7 * e[1]) + 0.3, np.sin(0.9 * e[0] - 1.3 * e[1])) for e in spec['ent']}

    if op == 'observe':
        res, expected = a, ga
        # the constructor must deep-copy: editing the input list's arrays afterwards must not change the object
    elif op == 'pos': res, expected = +a, ga
    elif op == 'neg': res, expected = -a, scale_g(ga, -1.)
    elif op == 'copy':
        res, expected = a.copy(), ga
        for n, l, c in res.coefflist: c *= 0.
        if state_digest(a) != before: fails.append(('copy-aliased', 'editing the copy changed the original'))
        res = a.copy()
    elif op == 'mul_real': res, expected = a * 2.5, scale_g(ga, 2.5)
    elif op == 'rmul_cplx': res, expected = (0.3 - 1.1j) * a, scale_g(ga, 0.3 - 1.1j)
    elif op == 'mul_dict': res, expected = a * sdict, by_entry(lambda n, l, g: sdict[(n, l)] * g)
    elif op == 'mul_array': res, expected = a * W, {n: g * W[None] for n, g in ga.items()}
    elif op == 'ismul':
        if spec.get('real'): return [], 0, 'skip', False
        r = T.scalarproductcoeff(0.3 - 1.1j, a, inplace=True)
        res, expected, inplace = a, scale_g(ga, 0.3 - 1.1j), True
        if r is not a: fails.append(('inplace-return', 'scalarproductcoeff(inplace=True) did not return its argument'))
    elif op == 'ldot_num': res, expected = a.ldot(2.5), scale_g(ga, 2.5)
    elif op == 'ldot_dictnum': res, expected = a.ldot(sdict), by_entry(lambda n, l, g: sdict[(n, l)] * g)
    elif op in ('ldot', 'ildot'):
        k = int(arg) if arg else shape[0]
        M = poly.genmatrix(1, (k, shape[0]))
        expected = {n: np.einsum('kr,prc->pkc', M, g) for n, g in ga.items()}
        if op == 'ldot': res = a.ldot(M)
        else:
            res = a.ildot(M); inplace = True
            if res is not a: fails.append(('inplace-return', 'ildot did not return self'))
    elif op in ('rdot', 'irdot'):
        k = int(arg) if arg else shape[1]
        M = poly.genmatrix(2, (shape[1], k))
        expected = {n: np.einsum('prc,ck->prk', g, M) for n, g in ga.items()}
        if op == 'rdot': res = a.rdot(M)
        else:
            res = a.irdot(M); inplace = True
            if res is not a: fails.append(('inplace-return', 'irdot did not return self'))
    elif op == 'ldot_dict':
        md = {(e[0], e[1]): poly.genmatrix(1 + 0.31 * e[0] + 0.17 * e[1], (shape[0], shape[0])) for e in spec['ent']}
        res, expected = a.ldot(md), by_entry(lambda n, l, g: np.einsum('kr,prc->pkc', md[(n, l)], g))
    elif op == 'rdot_dict':
        md = {(e[0], e[1]): poly.genmatrix(2 + 0.31 * e[0] + 0.17 * e[1], (shape[1], shape[1])) for e in spec['ent']}
        res, expected = a.rdot(md), by_entry(lambda n, l, g: np.einsum('prc,ck->prk', g, md[(n, l)]))
    elif op == 'getitem':
        key = dict(keys_for(shape))[arg]
        res = a[key]
        expected = {n: g[(slice(None),) + key] for n, g in ga.items()}
        cont0 = cont0[key] if cont0 is not None else None
    elif op in ('setitem_zeros', 'setitem_same', 'setitem_subset'):
        key = dict(keys_for(shape))[arg]
        src = (1.5 - 0.5j) * a[key].copy()
        gsrc = {n: (1.5 - 0.5j) * g[(slice(None),) + key] for n, g in ga.items()}
        if op == 'setitem_zeros':
            ns = [e[0] for e in spec['ent']]
            tgt = T.zeros(min(ns), max(ns), shape)
            gt = {}
        elif op == 'setitem_same':
            tgt, gt = a, {n: g.copy() for n, g in ga.items()}
            inplace = True
        else:
            tgt, gt = a, {n: g.copy() for n, g in ga.items()}
            inplace = True
            # rhs = first entry only: every other (n,l) of the lhs must end up with a zero [key] block
            n0, l0, c0 = src.coefflist[0]
            src = T([(n0, l0, c0)])
            gsrc = {n0: (1.5 - 0.5j) * ent_g[0][2][(slice(None),) + key]}
        tgt[key] = src
        expected = {}
        for n in set(gt) | set(gsrc) | set(ga):
            v = gt[n].copy() if n in gt else np.zeros((len(U),) + shape, dtype=complex)
            sub = gsrc.get(n)
            v[(slice(None),) + key] = sub if sub is not None else 0.
            expected[n] = v
        res = tgt
        cont0 = None
    elif op in ('truncate', 'truncate_inplace'):
        N = int(arg)
        expected = {n: g for n, g in ga.items() if n <= N}
        if op == 'truncate': res = a.truncate(N)
        else:
            res = a.truncate(N, inplace=True); inplace = True
            if res is not a: fails.append(('inplace-return', 'truncate(inplace=True) did not return self'))
        if any(n > N for n, l, c in res.coefflist): fails.append(('truncate-post', 'entries with n > {} remain'.format(N)))
    elif op == 'reducecoeff': res, expected = T(T.reducecoeff(a)), ga
    elif op == 'collectcoeff': res, expected, post = T(T.collectcoeff(a)), ga, 'collect'
    elif op == 'reduce':
        res, expected, inplace, post = a.reduce(), ga, True, 'reduce'
        if res is not a: fails.append(('inplace-return', 'reduce did not return self'))
    elif op == 'separate':
        res, expected, inplace, post = a.separate(), ga, True, 'separate-raw'
    elif op == 'reduce_separate':
        res, expected, inplace, post = a.reduce().separate(), ga, True, 'separate'
    elif op == 'separate_reduce':
        res, expected, inplace, post = a.separate().reduce(), ga, True, 'reduce'
    elif op == 'reduce_twice':
        a.reduce()
        d1 = [(n, l, c.copy()) for n, l, c in a.coefflist]
        res, expected, inplace, post = a.reduce(), ga, True, 'reduce'
        d2 = a.coefflist
        if [(n, l) for n, l, c in d1] != [(n, l) for n, l, c in d2] or \
                any(np.abs(c1 - c2).max() > 1e-12 * max(1., scale) for (n, l, c1), (m, k, c2) in zip(d1, d2)):
            fails.append(('reduce-idempotent', 'second reduce() changed the representation'))
    elif op in ('add_array', 'sub_array', 'radd_array', 'rsub_array', 'iadd_array', 'isub_array'):
        if op in ('iadd_array', 'isub_array') and spec.get('real'): return [], 0, 'skip', False
        s1, s2 = {'add_array': (1, 1), 'sub_array': (1, -1), 'radd_array': (1, 1), 'rsub_array': (-1, 1),
                  'iadd_array': (1, 1), 'isub_array': (1, -1)}[op]
        expected = scale_g(ga, s1)
        z = np.zeros((len(U),) + shape, dtype=complex)
        expected[0] = expected.get(0, z) + s2 * W[None]
        if cont0 is not None: cont0 = s1 * cont0 + s2 * W
        if op == 'add_array': res = a + W
        elif op == 'sub_array': res = a - W
        elif op == 'radd_array': res = a.__radd__(W)
        elif op == 'rsub_array': res = a.__rsub__(W)
        elif op == 'iadd_array': a += W; res = a; inplace = True
        else: a -= W; res = a; inplace = True
    elif op == 'radd_zero':
        a2, _ = build(cx, spec)
        res, expected = sum([a, a2]), scale_g(ga, 2.)
        if cont0 is not None: cont0 = 2 * cont0
    elif op == 'self_add': res, expected = a + a, scale_g(ga, 2.)
    elif op == 'self_sub': res, expected = a - a, {}
    elif op == 'self_iadd':
        if spec.get('real'): pass
        a += a; res, expected, inplace = a, scale_g(ga, 2.), True
    elif op == 'self_isub':
        a -= a; res, expected, inplace = a, {}, True
    elif op == 'self_mul':
        res, expected = a * a, poly.gprod(ga, ga, len(shape) == 2)
        cont0 = (np.dot(cont0, cont0) if len(shape) == 2 else cont0 * cont0) if cont0 is not None else None
    elif op == 'addterms':
        cl = a.coefflist
        res = T(cl[:1]); res.addterms(cl[1:])
        expected = ga
        if [(n, l) for n, l, c in res.coefflist] != sorted((n, l) for n, l, c in cl):
            fails.append(('addterms-order', 'coefflist not sorted by (n,l) after addterms'))
    elif op == 'addterms_overlap':
        cl = a.coefflist
        t = T(cl)
        try:
            t.addterms([cl[0]])
            fails.append(('addterms-overlap-accepted', 'addterms with an n already present did not raise'))
        except ValueError:
            pass
        return [(o, w) for o, w in fails], 1, 'raised', False
    elif op == 'nl':
        got = a.nl()
        want = sorted((e[0], e[1]) for e in spec['ent'])
        if [tuple(int(x) for x in p) for p in got] != want: fails.append(('nl', '{} vs {}'.format(got, want)))
        return fails, 1, str(got), False
    elif op == 'str':
        s = str(a)
        return fails, 1, hashlib.sha1(s.encode()).hexdigest()[:8], False
    else:
        raise KeyError(name)

    if op in ('self_add', 'self_sub', 'self_iadd', 'self_isub', 'radd_zero', 'add_array', 'iadd_array', 'radd_array'):
        if cont0 is not None and op in ('self_add', 'self_iadd'): cont0 = 2 * cont0
        if op in ('self_sub', 'self_isub'): cont0 = np.zeros(shape) if cont0 is not None else None
    if op in ('neg',) and cont0 is not None: cont0 = -cont0
    if op in ('mul_real', 'ldot_num') and cont0 is not None: cont0 = 2.5 * cont0
    if op in ('rmul_cplx', 'ismul') and cont0 is not None: cont0 = (0.3 - 1.1j) * cont0
    if op in ('mul_dict', 'ldot_dictnum', 'mul_array', 'ldot', 'ildot', 'rdot', 'irdot', 'ldot_dict', 'rdot_dict'):
        cont0 = None    # u = 0 covered by the simpler operations
    if op in ('truncate', 'truncate_inplace') and cont0 is not None and int(arg) < 0: cont0 = np.zeros(shape)

    if not inplace and state_digest(a) != before:
        fails.append(('operand-mutated', 'operand changed by a non-inplace operation'))
    sc = max(scale, poly.gmax(expected))
    nf = len(fails)
    got = compare_angular(cx, res, expected, sc, fails)
    nex += len(U)
    if len(fails) == nf:     # downstream observers only when the function itself is right
        nex += observe_full(cx, res, expected, fails, cont0, sub=None if op == 'observe' else cx.sub[::2])
        if post: check_post(cx, res, expected, sc, post, fails, distinct_in=len(set(e[0] for e in spec['ent'])) == len(spec['ent']))
    run_unary_op.last = res
    nontriv = poly.gmax(expected) > 1e-8 and poly.gdiff(expected, ga)[0] > 1e-8
    outcome = hashlib.sha1(repr([(int(n), int(l), c.shape) for n, l, c in res.coefflist]).encode() +
                           repr(sorted((n, round(float(np.abs(g).sum()), 6)) for n, g in got.items())).encode()).hexdigest()[:10]
    return fails, nex, outcome, nontriv


def check_post(cx, res, expected, scale, post, fails, distinct_in=True):
    """structural post-conditions promised by the docstrings of reduce / collect / separate"""
    T, H = cx.T, cx.H
    cl = res.coefflist
    thr = 1e-8 * max(1., scale)
    if post in ('reduce', 'collect'):
        ns = [int(n) for n, l, c in cl]
        if len(set(ns)) != len(ns):
            fails.append((post + '-post', 'same n appears in more than one entry after {}: {}'.format(post, [(int(n), int(l)) for n, l, c in cl])))
            return
    for ent in cl:
        n, l, c = ent
        if not (0 <= l <= LMAX) or c.shape[0] != T.powlrange[l]:
            fails.append((post + '-post', 'entry ({},{}) has an array of length {}'.format(n, l, c.shape[0]))); return
        g = impl_entry_angular(T, ent, cx.U)
        cont = H.content(g)
        top = max([k for k in range(LMAX + 1) if cont[k] > thr] + [-1])
        if post in ('reduce', 'collect', 'separate', 'separate-raw') and top < 0:
            fails.append((post + '-post', 'entry ({},{}) is the zero function but was kept'.format(n, l))); return
        if post == 'reduce' and top != l:
            fails.append(('reduce-post', 'entry ({},{}) has angular degree {} on the sphere (l not minimal)'.format(n, l, top))); return
        if post in ('separate', 'separate-raw'):
            if any(cont[k] > thr for k in range(LMAX + 1) if k != l):
                fails.append((post + '-post', 'entry ({},{}) contains harmonic content {}'.format(
                    n, l, [round(x, 6) for x in cont]))); return
    if post == 'separate' or (post == 'separate-raw' and distinct_in):
        nl = [(int(n), int(l)) for n, l, c in cl]
        if len(set(nl)) != len(nl): fails.append((post + '-post', 'duplicate (n,l) after separate: {}'.format(nl)))
        if nl != sorted(nl): fails.append((post + '-post', 'not sorted after separate: {}'.format(nl)))


def coarse(spec):
    """hash-seed independent coarse class of a form (part of violation keys); the exact form is in the detail"""
    ent = spec['ent']
    nl = [(e[0], e[1]) for e in ent]
    ns = [e[0] for e in ent]
    shape = tuple(spec['shape'])
    return '{};{};{}'.format('scalar' if len(shape) == 0 else 'matrix', 'real' if spec.get('real') else 'complex',
                             'dup-nl' if len(set(nl)) < len(nl) else ('dup-n' if len(set(ns)) < len(ns) else 'distinct-n'))


def dupnl(obj_or_spec):
    if isinstance(obj_or_spec, dict): nl = [(e[0], e[1]) for e in obj_or_spec['ent']]
    else: nl = [(int(n), int(l)) for n, l, c in obj_or_spec.coefflist]
    return len(set(nl)) < len(nl)


def vkey(dim, orc, opname, specs, res, what=''):
    """violation key: the dictionary mode of __call__ is keyed by where the duplicate (n,l) entries come from;
    exceptions by type and raising function and the rank/dtype of the operands (the operation is in the detail)"""
    op = opname.partition(':')[0]
    if orc == 'exception':
        rd = ['{};{}'.format('scalar' if len(sp['shape']) == 0 else 'matrix', 'real' if sp.get('real') else 'complex') for sp in specs]
        return '{}D:{}:{}'.format(dim, what.split(' @ ')[0].split(':')[0] + '@' + what.rsplit(' @ ', 1)[-1].split(':')[-1], '+'.join(rd))
    if orc == 'call-dict':
        if res is not None and not dupnl(res): return '{}D:__call__:dict-mode:no-duplicate-nl:{}'.format(dim, op)
        if any(dupnl(sp) for sp in specs): return '{}D:__call__:dict-mode:duplicate-nl-entries:constructed'.format(dim)
        return '{}D:__call__:dict-mode:duplicate-nl-entries:produced-by:{}'.format(dim, op)
    if len(specs) == 1: return '{}D:{}:{}'.format(dim, op, coarse(specs[0]))
    return '{}D:{}:a[{}]:b[{}]'.format(dim, op, coarse(specs[0]), coarse(specs[1]))


def run_unary_form(cx, spec, only=None):
    out = {'states': 1, 'transitions': 0, 'execs': 0, 'outcomes': [], 'nontrivial': 0, 'violations': []}
    seen = set()
    for name in unary_opnames(spec):
        if only is not None and name != only: continue
        run_unary_op.last = None
        try:
            fails, nex, outcome, nontriv = run_unary_op(cx, spec, name)
        except Exception as e:
            fails, nex, outcome, nontriv = [('exception', '{}: {} @ {}'.format(type(e).__name__, e, _where(e)))], 0, 'exc', False
        out['transitions'] += 1; out['execs'] += nex; out['outcomes'].append(name.partition(':')[0] + ':' + outcome)
        out['nontrivial'] += int(bool(nontriv))
        for orc, what in fails:
            k = (orc, name.partition(':')[0])
            if k in seen: continue
            seen.add(k)
            out['violations'].append({
                'oracle': orc, 'key': vkey(cx.dim, orc, name, [spec], run_unary_op.last, what),
                'detail': {'op': name, 'form': spec_str(spec), 'what': what},
                'case': {'key': 'unary1:{}D:{}:{}'.format(cx.dim, name, spec_str(spec)), 'kind': 'unary1', 'dim': cx.dim,
                         'spec': spec, 'op': name}})
    return out


def _where(e):
    tb = traceback.extract_tb(e.__traceback__)
    for fr in reversed(tb):
        if 'onsager' in fr.filename: return '{}:{}:{}'.format(os.path.basename(fr.filename), fr.lineno, fr.name)
    fr = tb[-1]
    return '{}:{}:{}'.format(os.path.basename(fr.filename), fr.lineno, fr.name)


# =========================================================================================== binary operations
def run_binary_pair(cx, sa, sb, only=None):
    """all binary operations on the pair (a, b); returns the evidence counters"""
    T, U = cx.T, cx.U
    out = {'transitions': 0, 'execs': 0, 'outcomes': [], 'nontrivial': 0, 'violations': []}
    sha, shb = tuple(sa['shape']), tuple(sb['shape'])
    a0, ea = build(cx, sa); b0, eb = build(cx, sb)
    ga, gb = ref_angular(cx, sa, ea), ref_angular(cx, sb, eb)
    scale = max(poly.gmax(ga), poly.gmax(gb))
    names = []
    addable = sha == shb
    mulable = (len(sha) == 0 or len(shb) == 0 or sha[1] == shb[0])
    real_a = bool(sa.get('real'))
    if addable:
        names += ['add', 'sub', 'lincomb', 'add_reduce']
        if not (real_a and not sb.get('real')): names += ['iadd', 'isub']
    else:
        names += ['add_incompat']
    if mulable:
        if lmax_of(sa['ent']) + lmax_of(sb['ent']) <= LMAX: names += ['mul', 'mul_reduce', 'mul_reduce_separate']
    else:
        names += ['mul_incompat']
    seen = set()
    for name in names:
        if only is not None and name != only: continue
        a, _ = build(cx, sa); b, _ = build(cx, sb)
        da, db = state_digest(a), state_digest(b)
        fails, inplace, post, res, expected = [], False, None, None, None
        try:
            if name == 'add': res, expected = a + b, _gsum(ga, gb, 1, 1)
            elif name == 'sub': res, expected = a - b, _gsum(ga, gb, 1, -1)
            elif name == 'lincomb':
                al, be = 0.5 - 0.25j, -1.5
                res, expected = T(T.sumcoeff(a, b, al, be)), _gsum(ga, gb, al, be)
            elif name == 'add_reduce': res, expected, post = (a + b).reduce(), _gsum(ga, gb, 1, 1), 'reduce'
            elif name == 'iadd':
                a += b; res, expected, inplace = a, _gsum(ga, gb, 1, 1), True
            elif name == 'isub':
                a -= b; res, expected, inplace = a, _gsum(ga, gb, 1, -1), True
            elif name in ('mul', 'mul_reduce', 'mul_reduce_separate'):
                res = a * b
                expected = poly.gprod(ga, gb, len(sha) == 2 and len(shb) == 2)
                if name == 'mul_reduce': res.reduce(); post = 'reduce'
                if name == 'mul_reduce_separate': res.reduce().separate(); post = 'separate'
            elif name in ('add_incompat', 'mul_incompat'):
                try:
                    r = (a + b) if name == 'add_incompat' else (a * b)
                    fails.append(('incompatible-accepted', '{} of shapes {} and {} did not raise'.format(name, sha, shb)))
                except TypeError:
                    pass
                except Exception as e:
                    fails.append(('incompatible-error', '{} of shapes {} and {} raised {} instead of TypeError'.format(
                        name, sha, shb, type(e).__name__)))
                if state_digest(a) != da or state_digest(b) != db:
                    fails.append(('operand-mutated', 'rejected {} changed an operand'.format(name)))
            if res is not None:
                if (not inplace and state_digest(a) != da) or state_digest(b) != db:
                    fails.append(('operand-mutated', 'operand changed by {}'.format(name)))
                sc = max(scale, poly.gmax(expected))
                nf = len(fails)
                got = compare_angular(cx, res, expected, sc, fails)
                out['execs'] += len(U)
                if len(fails) == nf:
                    out['execs'] += observe_full(cx, res, expected, fails, None, sub=cx.sub[::2])
                    if post: check_post(cx, res, expected, sc, post, fails)
                out['nontrivial'] += int(poly.gmax(expected) > 1e-8 and poly.gdiff(expected, ga)[0] > 1e-8)
                out['outcomes'].append(name + ':' + hashlib.sha1(
                    repr([(int(n), int(l), c.shape) for n, l, c in res.coefflist]).encode()).hexdigest()[:8])
            else:
                out['outcomes'].append(name + ':raised')
        except Exception as e:
            fails.append(('exception', '{}: {} @ {}'.format(type(e).__name__, e, _where(e))))
            out['outcomes'].append(name + ':exc')
        out['transitions'] += 1
        for orc, what in fails:
            k = (orc, name)
            if k in seen: continue
            seen.add(k)
            out['violations'].append({
                'oracle': orc, 'key': vkey(cx.dim, orc, name, [sa, sb], res, what),
                'detail': {'op': name, 'a': spec_str(sa), 'b': spec_str(sb), 'what': what},
                'case': {'key': 'binary1:{}D:{}:{}|{}'.format(cx.dim, name, spec_str(sa), spec_str(sb)), 'kind': 'binary1',
                         'dim': cx.dim, 'a': sa, 'b': sb, 'op': name}})
    return out


def _gsum(ga, gb, al, be):
    out = {n: al * g for n, g in ga.items()}
    for n, g in gb.items(): out[n] = out[n] + be * g if n in out else be * g
    return out


# =========================================================================================== index tables
def table_checks(dim, L, ngen=None):
    """every entry of every index table of the (already importable) class for maximum order L.
    Returns (violations as (oracle, key, detail), number of entries compared, outcome digests)."""
    import onsager.PowerExpansion as PE
    T = PE.Taylor3D if dim == 3 else PE.Taylor2D
    T(Lmax=L)
    V, cnt, outc = [], 0, []

    def bad(orc, key, det): V.append((orc, '{}D:L{}:{}'.format(dim, L, key), det))

    if T.Lmax != L:
        bad('lmax', 'Lmax', 'requested {} got {}'.format(L, T.Lmax)); return V, cnt, outc
    E = poly.exps(dim, L)
    Npow = math.comb(L + dim, dim)
    # --- pow2ind / ind2pow / powlrange
    if T.Npower != Npow or len(E) != Npow: bad('index', 'Npower', '{} vs {}'.format(T.Npower, Npow))
    if tuple(T.pow2ind.shape) != (L + 1,) * dim: bad('index', 'pow2ind.shape', str(T.pow2ind.shape))
    if tuple(T.ind2pow.shape) != (Npow, dim): bad('index', 'ind2pow.shape', str(T.ind2pow.shape))
    seen = {}
    for e in itertools.product(range(L + 1), repeat=dim):
        p = int(T.pow2ind[e]); cnt += 1
        if sum(e) <= L:
            if not (0 <= p < Npow) or tuple(int(x) for x in T.ind2pow[p]) != e:
                bad('index', 'pow2ind{}'.format(e), 'index {} maps back to {}'.format(p, T.ind2pow[p] if 0 <= p < Npow else None))
            if p in seen: bad('index', 'pow2ind{}'.format(e), 'index {} also used by {}'.format(p, seen[p]))
            seen[p] = e
        elif p != -1:
            bad('index', 'pow2ind{}'.format(e), 'degree > Lmax has index {}'.format(p))
    if sorted(seen) != list(range(Npow)): bad('index', 'coverage', 'indices used {}'.format(sorted(seen)))
    deg = [int(sum(T.ind2pow[p])) for p in range(Npow)]
    if deg != sorted(deg): bad('index', 'grading', 'degrees not non-decreasing: {}'.format(deg))
    if len(T.powlrange) != L + 2: bad('index', 'powlrange.len', str(len(T.powlrange)))
    for l in range(L + 1):
        cnt += 1
        if int(T.powlrange[l]) != math.comb(l + dim, dim) or int(T.powlrange[l]) != sum(1 for d in deg if d <= l):
            bad('index', 'powlrange[{}]'.format(l), '{} vs {}'.format(T.powlrange[l], math.comb(l + dim, dim)))
    if int(T.powlrange[-1]) != 0: bad('index', 'powlrange[-1]', str(T.powlrange[-1]))
    expo = [tuple(int(x) for x in T.ind2pow[p]) for p in range(Npow)]
    outc.append('index:' + hashlib.sha1(repr(expo).encode()).hexdigest()[:8])
    # --- directmult: every pair
    for p0 in range(Npow):
        for p1 in range(Npow):
            cnt += 1
            s = tuple(x + y for x, y in zip(expo[p0], expo[p1]))
            want = expo.index(s) if sum(s) <= L else -1
            if int(T.directmult[p0, p1]) != want:
                bad('directmult', 'directmult[{}*{}]'.format(expo[p0], expo[p1]), '{} vs {}'.format(T.directmult[p0, p1], want))
    # --- powercoeff multinomials: every entry
    if T.powercoeff.shape != (L + 1, Npow): bad('powercoeff', 'shape', str(T.powercoeff.shape))
    for n in range(L + 1):
        for p in range(Npow):
            cnt += 1
            e = expo[p]
            want = (math.factorial(n) // math.prod(math.factorial(x) for x in e)) if sum(e) == n else 0
            if T.powercoeff[n, p] != want: bad('powercoeff', 'powercoeff[{},{}]'.format(n, e), '{} vs {}'.format(T.powercoeff[n, p], want))
    # --- evaluation points
    U, lab = poly.directions(dim, ngen)
    H = poly.Harmonics(dim, L, U)
    if not H.unisolvent: raise RuntimeError('harness: direction set not unisolvent for L={}'.format(L))
    M = poly.monomials(U, expo)                # [npts, Npow] in the class's index order (via verified ind2pow)
    # --- powexp: every direction x radius, both modes, and the u=0 convention
    for pi, u in enumerate(U):
        for r in poly.RADII:
            cnt += 1
            up, um = T.powexp(r * u)
            if r == 0.:
                want = np.zeros(Npow); want[T.pow2ind[(0,) * dim]] = 1.
                if um != 0. or not np.array_equal(up, want): bad('powexp', 'u=0', 'upow {} umagn {}'.format(up.tolist(), um))
                continue
            if abs(um - r) > 1e-14 * max(1, r) or np.abs(up - M[pi]).max() > 1e-13:
                bad('powexp', 'dir#{}({}) r={}'.format(pi, lab[pi], r), 'max diff {}'.format(np.abs(up - M[pi]).max()))
            raw = T.powexp(r * u, normalize=False)
            wantraw = M[pi] * np.array([float(r) ** sum(e) for e in expo])
            if np.abs(raw - wantraw).max() > 1e-12 * max(1., r ** L):
                bad('powexp', 'raw dir#{}({}) r={}'.format(pi, lab[pi], r), 'max diff {}'.format(np.abs(raw - wantraw).max()))
    # --- harmonics tables
    Y, hl = poly.harm_matrix(dim, L, U)        # own implementation
    nh = poly.nharm(dim, L)
    if dim == 3:
        Y2, _ = poly.harm_matrix(dim, L, U, own=False)     # scipy.special.sph_harm_y when available
        if T.NYlm != nh: bad('harm-index', 'NYlm', str(T.NYlm))
        idx = []
        for (l, m) in hl:
            cnt += 1
            k = int(T.Ylm2ind[l, m]); idx.append(k)
            if not (0 <= k < nh) or (int(T.ind2Ylm[k, 0]), int(T.ind2Ylm[k, 1])) != (l, m):
                bad('harm-index', 'Ylm2ind[{},{}]'.format(l, m), str(k))
        if sorted(idx) != list(range(nh)): bad('harm-index', 'coverage', str(idx))
        h2p, p2h = T.Ylmpow, T.powYlm
        name_hp, name_ph = 'Ylmpow', 'powYlm'
    else:
        Y2 = Y
        if T.NFC != nh: bad('harm-index', 'NFC', str(T.NFC))
        idx = []
        for (l, m) in hl:
            cnt += 1
            k = int(T.FC2ind[m]); idx.append(k)
            if not (0 <= k < nh) or int(T.ind2FC[k]) != m: bad('harm-index', 'FC2ind[{}]'.format(m), str(k))
        if sorted(idx) != list(range(nh)): bad('harm-index', 'coverage', str(idx))
        h2p, p2h = T.FCpow, T.powFC
        name_hp, name_ph = 'FCpow', 'powFC'
    if V and any(o in ('index', 'harm-index') for o, k, d in V): return V, cnt, outc
    perm = np.array(idx)                       # class harmonic index of reference harmonic j
    # harmonics -> powers: sum_p h2p[lm,p] u^p == Y_lm(u) at all (unisolvent) directions
    for j, (l, m) in enumerate(hl):
        cnt += len(U)
        v = np.dot(M, h2p[perm[j]])
        for nm, YY in (('own', Y), ('scipy', Y2)):
            d = np.abs(v - YY[:, j]).max()
            if d > 1e-12: bad('harm-to-pow', '{}[l={},m={}]'.format(name_hp, l, m), 'max diff {} vs {} harmonics'.format(d, nm))
    # powers -> harmonics: u^p == sum_lm p2h[p,lm] Y_lm(u)
    for p in range(Npow):
        cnt += len(U)
        v = np.dot(Y, p2h[p][perm])
        d = np.abs(v - M[:, p]).max()
        if d > 1e-12: bad('pow-to-harm', '{}[{}]'.format(name_ph, expo[p]), 'max diff {}'.format(d))
    # inverse relation on the harmonic space, every entry
    I = np.dot(h2p, p2h)
    for i in range(nh):
        for j in range(nh):
            cnt += 1
            if abs(I[i, j] - (i == j)) > 1e-12: bad('harm-inverse', '{}.{}[{},{}]'.format(name_hp, name_ph, i, j), str(I[i, j]))
    PP = np.dot(p2h, h2p)                       # [p', p]: harmonic projector written in powers
    if np.abs(PP.imag).max() > 1e-12: bad('harm-inverse', '{}.{} imaginary part'.format(name_ph, name_hp), str(np.abs(PP.imag).max()))
    # --- Lproj: every entry / every basis monomial
    LP = T.Lproj
    if LP.shape != (L + 2, Npow, Npow): bad('Lproj', 'shape', str(LP.shape))
    for p in range(Npow):
        for q in range(Npow):
            cnt += 1
            if abs(LP[-1][p, q] - PP[q, p].real) > 1e-12: bad('Lproj', 'Lproj[-1][{},{}] vs powers.harmonics'.format(expo[p], expo[q]), '')
            if abs(sum(LP[l][p, q] for l in range(L + 1)) - LP[-1][p, q]) > 1e-12: bad('Lproj', 'sum_l Lproj[l][{},{}]'.format(expo[p], expo[q]), '')
            if deg[p] > deg[q] and any(abs(LP[l][p, q]) > 1e-13 for l in range(L + 2)):
                bad('Lproj', 'degree-raising[{},{}]'.format(expo[p], expo[q]), '')
    for l in range(L + 1):
        for k in range(L + 1):
            cnt += 1
            d = np.abs(np.dot(LP[l], LP[k]) - (LP[l] if l == k else 0.)).max()
            if d > 1e-12: bad('Lproj', 'Lproj[{}].Lproj[{}]'.format(l, k), 'max diff {}'.format(d))
        want_tr = (2 * l + 1) if dim == 3 else (1 if l == 0 else 2)
        if abs(np.trace(LP[l]) - want_tr) > 1e-12: bad('Lproj', 'trace Lproj[{}]'.format(l), str(np.trace(LP[l])))
    if np.abs(np.dot(LP[-1], LP[-1]) - LP[-1]).max() > 1e-12: bad('Lproj', 'Lproj[-1] idempotent', '')
    for q in range(Npow):        # function semantics on every basis monomial: projected coefficient vectors evaluated
        f = M[:, q]
        for l in list(range(L + 1)) + [-1]:
            cnt += len(U)
            v = np.dot(M, LP[l][:, q])
            want = H.component(f, l) if l >= 0 else f
            d = np.abs(v - want).max()
            if d > 1e-12: bad('Lproj-function', 'Lproj[{}] on {}'.format(l, expo[q]), 'max diff {}'.format(d))
            # the truncated block used by reduce/separate for an entry of order deg(q)
            r = int(T.powlrange[deg[q]])
            v2 = np.dot(M[:, :r], LP[l][:r, :r][:, q])
            if np.abs(v2 - want).max() > 1e-12: bad('Lproj-function', 'truncated Lproj[{}] on {}'.format(l, expo[q]), '')
    outc.append('tables:' + hashlib.sha1(np.round(LP, 9).tobytes() + np.round(h2p, 9).tobytes()).hexdigest()[:8])
    # --- zeros(): every (n,l), right lengths, evaluates to zero
    z = T.zeros(-2, 1, (2, 2))
    nl = [(int(n), int(l)) for n, l, c in z.coefflist]
    if sorted(nl) != [(n, l) for n in range(-2, 2) for l in range(L + 1)] or \
            any(c.shape != (int(T.powlrange[l]), 2, 2) or np.any(c != 0) for n, l, c in z.coefflist):
        bad('zeros', 'zeros(-2,1,(2,2))', str(nl))
    cnt += len(nl)
    return V, cnt, outc


TABLE_SCRIPT = r'''
import sys, json
sys.path.insert(0, {verif!r})
import warnings; warnings.simplefilter('ignore')
from mc.checks import c16
V, cnt, outc = c16.table_checks({dim}, {L}, {ngen})
print('RESULT' + json.dumps({{'V': V, 'cnt': cnt, 'outc': outc}}))
'''


def run_tables_subprocess(dim, L):
    ngen = None if L <= 4 else (40 * L if dim == 3 else 8 * L)
    verif = os.path.dirname(os.path.dirname(os.path.dirname(os.path.abspath(__file__))))
    p = subprocess.run([sys.executable, '-c', TABLE_SCRIPT.format(verif=verif, dim=dim, L=L, ngen=ngen)],
                       capture_output=True, text=True, cwd=verif)
    for line in p.stdout.splitlines():
        if line.startswith('RESULT'): return json.loads(line[6:])
    return {'V': [['exception', '{}D:L{}:subprocess'.format(dim, L), (p.stderr or p.stdout)[-600:]]], 'cnt': 0, 'outc': []}


# =========================================================================================== E2: initialisation order
ORDER_OPS = ['new3', 'new2', 'new3L', 'new2L', 'cm3', 'cm2', 'use3', 'use2']
ORDER_SCRIPT = r'''
import sys, os, json, hashlib, itertools, warnings
warnings.simplefilter('ignore')
import numpy as np
import onsager.PowerExpansion as PE
T3, T2 = PE.Taylor3D, PE.Taylor2D
assert not T3.__INITIALIZED__ and not T2.__INITIALIZED__ and 'Lmax' not in T3.__dict__ and T2.__dict__.get('Lmax') is None
OPS = {ops!r}
FIRST = {first!r}
DEPTH = {depth}

def dg(x):
    h = hashlib.sha1()
    def upd(o):
        if isinstance(o, np.ndarray): h.update(repr((o.shape, str(o.dtype))).encode()); h.update(np.ascontiguousarray(o).tobytes())
        elif isinstance(o, (list, tuple)):
            h.update(b'[');
            for y in o: upd(y)
            h.update(b']')
        elif isinstance(o, dict):
            for k in sorted(o): h.update(repr(k).encode()); upd(o[k])
        else: h.update(repr(o).encode())
    upd(x)
    return h.hexdigest()[:16]

def tables(cls):
    d = cls.__dict__
    if not d.get('__INITIALIZED__'): return None
    names = d.get('__internallist__') or ()
    return [int(d['Lmax']) if 'Lmax' in d else None, dg([d.get(n) for n in names])]

def tryit(f):
    try: return ['ok', dg(f())]
    except Exception as e: return ['exc', type(e).__name__]

def classmethods(cls, dim):
    M = np.array([[1.1, 0.3, -0.2], [0.1, 0.9, 0.4], [-0.3, 0.2, 1.2]])[:dim, :dim]
    v = np.array([0.3, -0.5, 0.7])[:dim]
    return [tryit(lambda: list(cls.powexp(v))),
            tryit(lambda: [(n, l, c) for n, l, c in cls.zeros(-1, 0, (1, 1)).coefflist]),
            tryit(lambda: cls.rotatedirections(M)),
            tryit(lambda: [c[0] for c in cls.constructexpansion([(np.eye(2), v)], N=2)])]

def use(cls, dim):
    def f():
        r = cls().powlrange
        mk = lambda l, t: np.cos(t + 0.37 * np.arange(int(r[l]) * 4)).reshape(int(r[l]), 2, 2) + (np.eye(2) if l == 0 else 0) + 0j
        a = cls([(0, 0, mk(0, 0.1)), (1, 1, mk(1, 0.2))])
        b = (a * a).reduce()
        c = a.inv(Nmax=1)
        M = np.array([[1.1, 0.3, -0.2], [0.1, 0.9, 0.4], [-0.3, 0.2, 1.2]])[:dim, :dim]
        d = cls([(1, 1, mk(1, 0.3))]).rotate(cls.rotatedirections(M))
        u = np.array([0.3, -0.5, 0.7])[:dim]
        out = []
        for t in (a, b, c, d):
            out.append(t(u, {{(n, l): (lambda x, n=n: x ** n) for n, l, cc in t.coefflist}}))
            out.append([(n, l, cc) for n, l, cc in t.coefflist])
        return out
    return [tryit(f)]

def apply(op):
    if op == 'new3': T3(); return ['ok', '']
    if op == 'new2': T2(); return ['ok', '']
    if op == 'new3L': T3(Lmax=2); return ['ok', '']
    if op == 'new2L': T2(Lmax=2); return ['ok', '']
    if op == 'cm3': return classmethods(T3, 3)
    if op == 'cm2': return classmethods(T2, 2)
    if op == 'use3': return use(T3, 3)
    if op == 'use2': return use(T2, 2)

def steps_of(h):
    steps = []
    for op in h:
        pre = [tables(T3), tables(T2)]
        try: res = apply(op)
        except Exception as e: res = ['crash', type(e).__name__ + ': ' + str(e)]
        steps.append({{'op': op, 'pre': pre, 'res': res, 'post': [tables(T3), tables(T2)]}})
    return steps

def run_history_fork(h):
    """the history in a process forked from the pristine interpreter (nothing initialised yet)"""
    rd, wr = os.pipe()
    pid = os.fork()
    if pid == 0:
        os.close(rd)
        try:
            os.write(wr, json.dumps(steps_of(h)).encode())
        finally:
            os._exit(0)
    os.close(wr)
    buf = b''
    while True:
        chunk = os.read(rd, 65536)
        if not chunk: break
        buf += chunk
    os.close(rd); os.waitpid(pid, 0)
    return json.loads(buf.decode()) if buf else None

def run_history(h):
    """the history after re-executing the module (fresh class objects: all lazily initialised state is class-level);
    equivalence with a genuinely fresh process is verified below on every history of depth <= 2"""
    global T3, T2
    import importlib
    importlib.reload(PE)
    T3, T2 = PE.Taylor3D, PE.Taylor2D
    assert not T3.__INITIALIZED__ and not T2.__INITIALIZED__ and 'Lmax' not in T3.__dict__ and T2.__dict__.get('Lmax') is None
    return json.loads(json.dumps(steps_of(h)))

hists = []
for d in range(0, DEPTH):
    for rest in itertools.product(OPS, repeat=d): hists.append([FIRST] + list(rest))
# forked (genuinely fresh) runs first, while this interpreter is still pristine
forked = [[h, run_history_fork(h)] for h in hists if len(h) <= 2]
canon = {{}}
for init in ('new3', 'new2', 'new3L', 'new2L'):
    for op in OPS:
        if op[-1] in '32' and op[-1] != init[3]: continue
        if op[-1] == 'L' and op[3] != init[3]: continue
        canon[init + '>' + op] = run_history([init, op])
res = [[h, run_history(h)] for h in hists]
mism = [h for (h, a) in forked for (g, b) in res if g == h and a != b]
out = {{'canon': canon, 'hist': res, 'fork_mismatch': mism, 'nfork': len(forked)}}
print('RESULT' + json.dumps(out))
'''


def run_order(first, depth):
    verif = os.path.dirname(os.path.dirname(os.path.dirname(os.path.abspath(__file__))))
    p = subprocess.run([sys.executable, '-c', ORDER_SCRIPT.format(ops=ORDER_OPS, first=first, depth=depth)],
                       capture_output=True, text=True, cwd=verif)
    for line in p.stdout.splitlines():
        if line.startswith('RESULT'): return json.loads(line[6:])
    raise RuntimeError('order subprocess failed: ' + (p.stderr or p.stdout)[-800:])


def eval_order(case):
    data = run_order(case['first'], case['depth'])
    if data['fork_mismatch']:
        raise RuntimeError('harness: module re-execution and fresh process disagree on histories {}'.format(data['fork_mismatch']))
    canon = data['canon']
    out = {'states': 0, 'transitions': 0, 'execs': 0, 'outcomes': [], 'nontrivial': 0, 'violations': []}
    seen = set()
    only = case.get('history')

    def viol(orc, key, det, h):
        if (orc, key) in seen: return
        seen.add((orc, key))
        out['violations'].append({'oracle': orc, 'key': key, 'detail': det,
                                  'case': {'key': 'order1:' + '>'.join(h), 'kind': 'order', 'first': h[0], 'depth': case['depth'],
                                           'history': h}})

    for h, steps in data['hist']:
        if only is not None and h != only: continue
        out['states'] += 1
        if steps is None:
            viol('exception', 'order:' + '>'.join(h), 'history process died', h); continue
        first_init = {}          # class digit -> init letter of its first initialisation ('new3' / 'new3L' ...)
        initseq = []             # order in which the classes got initialised, with their Lmax: the abstract state
        for i, st in enumerate(steps):
            before_seq = '>'.join(initseq) or 'nothing'
            for cj, dg_ in enumerate(('3', '2')):
                if st['pre'][cj] is None and st['post'][cj] is not None: initseq.append('{}D(Lmax={})'.format(dg_, st['post'][cj][0]))
            after_seq = '>'.join(initseq) or 'nothing'
            op = st['op']; cdig = op[3] if op.startswith('new') else op[-1]
            ci = 0 if cdig == '3' else 1
            out['transitions'] += 1; out['execs'] += 1
            pre, post = st['pre'][ci], st['post'][ci]
            hist_key = '>'.join(h[:i + 1])
            # which Lmax this class was (or is being) initialised with
            if pre is None and post is not None and cdig not in first_init:
                first_init[cdig] = 'new' + cdig + ('L' if post[0] == 2 else '')
            init = first_init.get(cdig)
            # (1) tables of BOTH classes, once initialised, are the canonical ones and never change
            for cj, dg_ in enumerate(('3', '2')):
                tp, tq = st['pre'][cj], st['post'][cj]
                if tq is not None:
                    ini = 'new' + dg_ + ('L' if tq[0] == 2 else '')
                    want = canon[ini + '>' + ini][0]['post'][cj]
                    if tq != want:
                        viol('order-tables', 'order:tables{}D:initialised-in-order:{}'.format(dg_, after_seq),
                             {'history': h[:i + 1], 'tables': tq, 'canonical': want}, h[:i + 1])
                    if tp is not None and tp != tq:
                        viol('order-tables', 'order:tables{}D:changed-by:{}'.format(dg_, op), {'history': h[:i + 1]}, h[:i + 1])
            if op.startswith('new'):
                out['outcomes'].append('{}:{}'.format(op, post))
                continue
            # (2) results of a class-method / instance use
            res = st['res']
            out['outcomes'].append('{}:{}'.format(op, json.dumps(res)))
            if pre is None and op.startswith('cm'):
                # class-level use before this class was ever initialised: must be refused (or be right), and must
                # not depend on whether the OTHER class has been initialised
                want = canon['new' + cdig + '>' + op][1]['res']
                for j, r in enumerate(res):
                    if r[0] == 'ok' and r != want[j]:
                        viol('order-uninitialised-use', 'order:{}[{}]:other-class-initialised={}'.format(
                            op, ['powexp', 'zeros', 'rotatedirections', 'constructexpansion'][j], st['pre'][1 - ci] is not None),
                             {'history': h[:i + 1], 'got': r, 'canonical': want[j],
                              'what': 'class method used before the class was initialised returned a result computed from '
                                      'the tables of the other class'}, h[:i + 1])
                if any(r[0] == 'ok' for r in res): out['nontrivial'] += 1
                continue
            if init is None: init = 'new' + cdig      # instance use initialises with the default Lmax
            want = canon[init + '>' + op][1]['res']
            if res != want:
                viol('order-result', 'order:{}:initialised-before:{}'.format(op, before_seq),
                     {'history': h[:i + 1], 'got': res, 'canonical': want}, h[:i + 1])
            elif i > 0: out['nontrivial'] += 1
    return out


# =========================================================================================== constructexpansion
def run_construct(cx, sub):
    """constructexpansion for one basis description; reference = direct power series"""
    T, U, dim = cx.T, cx.U, cx.dim
    out = {'transitions': 0, 'execs': 0, 'outcomes': [], 'nontrivial': 0, 'violations': []}
    shape = tuple(sub['shape'])
    vecs = [np.array(v, dtype=float) for v in sub['vecs']]
    N = sub['N']
    pre = sub['pre']
    Neff = LMAX if N < 0 else N
    prelist = None if pre == 'none' else ([1. / math.factorial(n) for n in range(Neff + 1)] if pre == 'exp' else
                                          [complex(np.cos(1.3 * n + 0.2), np.sin(0.7 * n)) for n in range(Neff + 1)])
    basis = []
    for i, v in enumerate(vecs):
        C = poly.genmatrix(0.5 * i, shape) if len(shape) == 2 else np.array(complex(np.cos(0.9 * i + 0.3), np.sin(1.7 * i)))
        basis.append((C, v))
    fails = []
    try:
        ce = T.constructexpansion(basis, N=N, pre=prelist)
        if len(ce) != Neff + 1 or any(len(c) != 1 or c[0][0] != n or c[0][1] != n for n, c in enumerate(ce)):
            fails.append(('construct-structure', 'expected one (n,n,.) entry per n=0..{}'.format(Neff)))
        obj = T([c[0] for c in ce])
        obj2 = T()
        for c in ce: obj2.addterms(c)
        expected = {}
        for n in range(Neff + 1):
            g = 0.
            for C, v in basis:
                g = g + (np.dot(U, v) ** n)[(slice(None),) + (None,) * len(shape)] * (prelist[n] if prelist else 1.) * C[None]
            expected[n] = g
        sc = poly.gmax(expected)
        compare_angular(cx, obj, expected, sc, fails)
        compare_angular(cx, obj2, expected, sc, fails, oracle='value-addterms')
        out['execs'] += 2 * len(U)
        # full value at u: sum_basis C * sum_n pre_n (v.u)^n
        out['execs'] += observe_full(cx, obj, expected, fails, expected[0][0] if True else None)
        out['nontrivial'] += int(sc > 1e-8 and Neff > 0)
        out['outcomes'].append(hashlib.sha1(np.round(np.concatenate([np.ravel(c[0][2]) for c in ce]), 9).tobytes()).hexdigest()[:10])
    except Exception as e:
        fails.append(('exception', '{}: {} @ {}'.format(type(e).__name__, e, _where(e))))
    out['transitions'] += 1
    for orc, what in fails:
        out['violations'].append({'oracle': orc, 'key': '{}D:constructexpansion:N={};pre={}'.format(dim, N, pre),
                                  'detail': {'sub': sub, 'what': what},
            'case': {'key': 'construct1:{}D:{}'.format(dim, hashlib.sha1(json.dumps(sub, sort_keys=True).encode()).hexdigest()[:10]),
                     'kind': 'construct', 'dim': dim, 'subs': [sub]}})
    return out


def construct_subs(dim, tier):
    U, lab = poly.directions(dim)
    subs = []
    # every single direction x scale, default N / pre, matrix coefficient
    for i, u in enumerate(U):
        for s in (1., 0.5, 2.5):
            subs.append({'vecs': [(s * u).tolist()], 'shape': [2, 2], 'N': -1, 'pre': 'none'})
    gen = [i for i, l in enumerate(lab) if l == 'generic']
    spec = [i for i, l in enumerate(lab) if l != 'generic']
    v1 = [(1.3 * U[gen[0]]).tolist()]
    v2 = [(1.3 * U[gen[0]]).tolist(), (0.7 * U[gen[1]]).tolist()]
    v8 = [(0.9 * U[i]).tolist() for i in spec[:6]] + [(1.7 * U[gen[2]]).tolist(), (0.4 * U[gen[3]]).tolist()]
    for vecs in (v1, v2, v8):
        for shape in ([], [1, 1], [2, 2], [2, 3]):
            for N in (-1, 0, 1, 2, 3, 4):
                for pre in ('none', 'exp', 'gen'):
                    subs.append({'vecs': vecs, 'shape': shape, 'N': N, 'pre': pre})
    if tier != 'quick':
        for i, j in itertools.combinations(range(len(U)), 2):
            subs.append({'vecs': [(1.1 * U[i]).tolist(), (0.6 * U[j]).tolist()], 'shape': [1, 1], 'N': -1, 'pre': 'gen'})
    return subs


# =========================================================================================== misc sub-checks
def run_misc(cx):
    """integer-typed evaluation points; nodeepcopy / deep copy of the constructor; zero expansion"""
    T, dim = cx.T, cx.dim
    out = {'transitions': 0, 'execs': 0, 'outcomes': [], 'nontrivial': 0, 'violations': []}
    spec = {'ent': [[0, 0, 'gen'], [1, 1, 'gen'], [2, 2, 'gen']], 'shape': [2, 2], 'tag': 0}
    a, ents = build(cx, spec)
    fnu = {(n, l): (lambda x, n=n: x ** n) for n, l, c in a.coefflist}

    def viol(orc, key, what):
        out['violations'].append({'oracle': orc, 'key': '{}D:misc:{}'.format(dim, key), 'detail': what,
                                  'case': {'key': 'misc:{}D'.format(dim), 'kind': 'misc', 'dim': dim}})

    for v in ([1, 0, 0], [0, 2, 0], [1, 1, 1], [-1, 2, 0])[:4]:
        ui = np.array(v[:dim], dtype=int)
        out['transitions'] += 1
        want = a(ui.astype(float), fnu)
        try:
            got = a(ui, fnu)
            out['execs'] += 1
            if np.abs(got - want).max() > 1e-12: viol('int-point', 'int-valued-u', 'value differs for integer-typed u={}'.format(v[:dim]))
            else: out['nontrivial'] += 1
        except Exception as e:
            viol('exception', 'int-typed-u', '{}: {} @ {} for u=np.array({})'.format(type(e).__name__, e, _where(e), v[:dim]))
            break
    # the evaluation point must not be modified by the call
    u = np.array([0.3, -0.4, 1.2][:dim]); u0 = u.copy()
    a(u, fnu); a(u)
    out['transitions'] += 1
    if not np.array_equal(u, u0): viol('argument-mutated', 'call', 'u changed by __call__')
    # constructor deep-copies (default) / shares (nodeepcopy)
    cl = [(n, l, c.copy()) for n, l, c in a.coefflist]
    b = T(cl); d0 = state_digest(b)
    for n, l, c in cl: c *= 0.
    out['transitions'] += 1
    if state_digest(b) != d0: viol('constructor-aliased', 'init', 'default constructor did not copy the coefficient arrays')
    # the zero expansion: evaluates to 0, neutral for + and absorbing for *
    z = T()
    out['transitions'] += 3
    try:
        if z(u, {}) != 0: viol('zero', 'call', 'empty expansion does not evaluate to 0')
        s = z + a; p = a * z; q = z * a
        ga = impl_angular(a, cx.U)
        if poly.gdiff(impl_angular(s, cx.U), ga)[0] > 1e-12: viol('zero', 'add', '0 + a != a')
        if impl_angular(p, cx.U) or impl_angular(q, cx.U): viol('zero', 'mul', 'a*0 != 0')
        s2 = a + z
        if poly.gdiff(impl_angular(s2, cx.U), ga)[0] > 1e-12: viol('zero', 'add', 'a + 0 != a')
        e = (a - a).reduce()
        if len(e.coefflist) != 0: viol('zero', 'reduce', '(a-a).reduce() keeps entries')
        for nm, f in (('rotate', lambda: e.rotate(T.rotatedirections(np.eye(dim)))), ('ldot', lambda: e.ldot(np.eye(2))),
                      ('truncate', lambda: e.truncate(0)), ('separate', lambda: e.separate()), ('neg', lambda: -e),
                      ('add', lambda: e + e), ('mul', lambda: e * a), ('scalar', lambda: 2. * e)):
            out['transitions'] += 1
            r = f()
            if impl_angular(r, cx.U): viol('zero', nm, 'operation on the zero expansion is not zero')
        out['nontrivial'] += 1
    except Exception as ex:
        viol('exception', 'zero-expansion', '{}: {} @ {}'.format(type(ex).__name__, ex, _where(ex)))
    out['outcomes'].append('misc')
    return out


# =========================================================================================== cases / evaluate
def _chunks(lst, n):
    return [lst[i:i + n] for i in range(0, len(lst), n)]


def cases(tier):
    bad = poly.selftest()
    if bad: raise RuntimeError('reference model self-test failed: {}'.format(bad))
    C = []
    for dim in (3, 2):
        C.append({'key': 'tables:{}D:L4'.format(dim), 'kind': 'tables', 'dim': dim, 'L': 4, 'cost': 30})
        for L in ((2, 6) if tier == 'quick' else (1, 2, 3, 5, 6)):
            C.append({'key': 'tables:{}D:L{}'.format(dim, L), 'kind': 'tablesL', 'dim': dim, 'L': L, 'cost': 40 if L == 6 else 10})
        C.append({'key': 'misc:{}D'.format(dim), 'kind': 'misc', 'dim': dim, 'cost': 1})
    for f in ORDER_OPS:
        C.append({'key': 'order:' + f, 'kind': 'order', 'first': f, 'depth': 3, 'cost': 25})
    # unary
    for dim in (3, 2):
        for shape in SHAPES:
            forms = forms_unary(tier, base=shape in ((), (2, 2)))
            per = 6 if shape != () else 10
            for ci, ch in enumerate(_chunks(forms, per)):
                C.append({'key': 'unary:{}D:{}:{}'.format(dim, shp(shape), ci), 'kind': 'unary', 'dim': dim, 'shape': list(shape),
                          'forms': ch, 'real': False, 'full': tier != 'quick', 'cost': 8 if dim == 3 else 4})
        # real dtype on the single-entry forms
        for shape in ((), (2, 2)):
            for ci, ch in enumerate(_chunks(bforms('Sr' if tier == 'quick' else 'S'), 6)):
                C.append({'key': 'unary:{}D:{}:real:{}'.format(dim, shp(shape), ci), 'kind': 'unary', 'dim': dim, 'shape': list(shape),
                          'forms': ch, 'real': True, 'full': tier != 'quick', 'cost': 5})
    # binary
    for dim in (3, 2):
        combos = []
        for (sa, sb) in ADD_SHAPES + MUL_SHAPES + INCOMPAT:
            if (sa, sb) not in combos: combos.append((sa, sb))
        for (sa, sb) in combos:
            for (an, bn) in binary_blocks(tier, sa, sb):
                nb = len(bforms(bn))
                per = max(1, 120 // nb)
                for ci, ch in enumerate(_chunks(bforms(an), per)):
                    C.append({'key': 'binary:{}D:{}*{}:{}x{}:{}'.format(dim, shp(sa), shp(sb), an, bn, ci), 'kind': 'binary', 'dim': dim,
                              'sa': list(sa), 'sb': list(sb), 'aforms': ch, 'bset': bn, 'real': [False, False], 'full': tier != 'quick',
                              'cost': (10 if dim == 3 else 5)})
        # dtype mixing: real (+) complex on two base shapes, single entries
        for (sa, sb) in (((2, 2), (2, 2)), ((), ())):
            for rl in ([True, False], [False, True], [True, True]):
                an = 'Sr' if tier == 'quick' else 'S'
                for ci, ch in enumerate(_chunks(bforms(an), max(1, 120 // len(bforms(an))))):
                    C.append({'key': 'binary:{}D:{}*{}:{}{}:{}'.format(dim, shp(sa), shp(sb), 'R' if rl[0] else 'C', 'R' if rl[1] else 'C', ci),
                              'kind': 'binary', 'dim': dim, 'sa': list(sa), 'sb': list(sb), 'aforms': ch, 'bset': an, 'real': rl, 'full': tier != 'quick', 'cost': 6})
    # constructexpansion
    for dim in (3, 2):
        for ci, ch in enumerate(_chunks(construct_subs(dim, tier), 60)):
            C.append({'key': 'construct:{}D:{}'.format(dim, ci), 'kind': 'construct', 'dim': dim, 'subs': ch, 'cost': 3})
    return C


def BOUNDS(tier):
    return {'Lmax': LMAX, 'n': NV, 'l': LV, 'shapes': [shp(s) for s in SHAPES], 'dims': [3, 2],
            'unary_forms': {'base shapes (scalar, 2x2)': len(forms_unary(tier, True)), 'other shapes': len(forms_unary(tier, False))},
            'binary_alphabets': {k: len(bforms(k)) for k in ('S', 'Sr', 'Dq', 'Dt', 'SDt')},
            'binary_blocks': {'base shape pairs': binary_blocks(tier, (2, 2), (2, 2)), 'other shape pairs': binary_blocks(tier, (2, 3), (3, 2))},
            'base_shape_pairs': ['{}*{}'.format(shp(a), shp(b)) for a, b in BASE_PAIRS],
            'directions': {'3D': 56, '2D': 20, 'bulk operations': 'all (thorough) / generic + 3 special = 33 resp. 14, verified unisolvent (quick)'}, 'radii': list(poly.RADII), 'tolerance': '1e-10*scale',
            'table_Lmax_in_fresh_processes': [2, 6] if tier == 'quick' else [1, 2, 3, 5, 6],
            'init_histories': 'all sequences of <= 3 of {}'.format(ORDER_OPS),
            'mul_shape_pairs': ['{}*{}'.format(shp(a), shp(b)) for a, b in MUL_SHAPES],
            'entry_kinds': ['gen', 'neg', 'top', 'r2', 'null', 'harm', 'pad1', 'pad2', 'pad3', 'gap']}


def _merge(tot, r):
    for k in ('states', 'transitions', 'execs', 'nontrivial'): tot[k] = tot.get(k, 0) + r.get(k, 0)
    tot.setdefault('outcomes', set()).update(r.get('outcomes', ()))
    tot.setdefault('violations', []).extend(r.get('violations', ()))


def evaluate(case):
    kind = case['kind']
    tot = {'states': 0, 'transitions': 0, 'execs': 0, 'nontrivial': 0, 'outcomes': set(), 'violations': []}
    if kind in ('tables', 'tablesL'):
        if kind == 'tables':
            cx = ctx(case['dim'])
            V, cnt, outc = table_checks(case['dim'], case['L'])
        else:
            r = run_tables_subprocess(case['dim'], case['L'])
            V, cnt, outc = r['V'], r['cnt'], r['outc']
        for orc, key, det in V:
            tot['violations'].append({'oracle': orc, 'key': key, 'detail': det})
        tot.update(states=cnt, transitions=cnt, execs=cnt, nontrivial=cnt)
        tot['outcomes'] = set(outc)
        tot['violations'] = tot['violations'][:40]
    elif kind == 'order':
        _merge(tot, eval_order(case))
    elif kind == 'misc':
        _merge(tot, run_misc(ctx(case['dim'])))
    elif kind == 'unary':
        cx = ctx(case['dim'], case.get('full', True))
        for f in case['forms']:
            if case.get('real') and any(e[2] == 'harm' for e in f): continue
            spec = {'ent': f, 'shape': case['shape'], 'tag': 0, 'real': bool(case.get('real'))}
            _merge(tot, run_unary_form(cx, spec))
    elif kind == 'unary1':
        _merge(tot, run_unary_form(ctx(case['dim']), case['spec'], only=case['op']))
    elif kind == 'binary':
        cx = ctx(case['dim'], case.get('full', True))
        for fa in case['aforms']:
            sa = {'ent': fa, 'shape': case['sa'], 'tag': 0, 'real': case['real'][0]}
            for fb in bforms(case['bset']):
                sb = {'ent': fb, 'shape': case['sb'], 'tag': 1, 'real': case['real'][1]}
                tot['states'] += 1
                _merge(tot, run_binary_pair(cx, sa, sb))
    elif kind == 'binary1':
        tot['states'] += 1
        _merge(tot, run_binary_pair(ctx(case['dim']), case['a'], case['b'], only=case['op']))
    elif kind == 'construct':
        cx = ctx(case['dim'])
        for sub in case['subs']:
            tot['states'] += 1
            _merge(tot, run_construct(cx, sub))
    else:
        raise KeyError(kind)
    tot['outcomes'] = sorted(tot['outcomes'])
    # one violation per signature per case is enough (core de-duplicates across cases)
    seen, vs = set(), []
    for v in tot['violations']:
        s = (v['oracle'], v['key'])
        if s in seen: continue
        seen.add(s); vs.append(v)
    tot['violations'] = vs
    return tot

