"""
C18 — the crystal's symmetry group is a group of self-isometries.

Explorer E1 over the generated family of DESIGN §5.1: every decoration of every Bravais lattice type
(14 in 3D, 5 in 2D, + 3 small strains of the cubic / hexagonal members) by <= n atoms over the position,
species and spin alphabets, symmetry search on and off.  Every crystal is built by the REAL constructor and
every reported operation of crys.G is compared with the brute-force model R-geom (mc/refmodels/geom.py).

This module also carries the glue shared with C20 / C23 (building family members, the per-lattice memo of
Crystal.genBZG, flat views of a group).
"""
import itertools
import numpy as np
from onsager import crystal
from mc.refmodels import geom

PID = 'C18'
ENGINE = 'E1'
TECHNIQUE = ('exhaustive enumeration of small decorated crystals; every reported operation checked against a '
             'brute-force space-group model (lattice point group x atom-to-atom translations)')
RULE = ('case = (Bravais type, strain, atoms n, block of positions); inside a case every species pattern x spin '
        'pattern x NOSYM x position tuple of the block is built with the real constructor. nontrivial = crystals '
        'whose reported group has more than the identity AND fewer operations than the holohedry of the '
        'undecorated lattice (the decoration really cut the symmetry)')
LEVEL_TEXT = ('small-scope exhaustive: all decorations over the stated alphabets; for each crystal all |G| operations, '
              'all |G|^2 products and all inverses are checked, and G is compared with the complete brute-force group')
LEVEL_NOTE = ('lattice parameters are one fixed generic table per Bravais type; positions are exact letters, so '
              'near-threshold coincidences are not explored here (C19 adds noise)')
ASSUMPTIONS = [
    'Crystal.genBZG (Brillouin-zone construction; not part of this property, 85% of the constructor time) is memoised '
    'per distinct lattice inside a worker: it is a pure function of self.lattice and the real code computes each value',
    'spin rule checked is the one the class documents: one unit phase per operation (here +1/-1 because the spin '
    'alphabet is real); scalar spins are carried unchanged, vector spins are rotated by cartrot',
    'atom coincidence tolerance = the crystal\'s own threshold (1e-8); cartrot orthogonality / consistency 1e-9',
]

# ------------------------------------------------------------------ glue shared with C20 / C23
_orig_genBZG = crystal.Crystal.genBZG
_bzcache = {}


def _memo_genBZG(self):
    k = self.lattice.tobytes()
    if k not in _bzcache:
        if len(_bzcache) > 4000: _bzcache.clear()
        _bzcache[k] = _orig_genBZG(self)
    return _bzcache[k]


if getattr(crystal.Crystal.genBZG, '__name__', '') != '_memo_genBZG':
    crystal.Crystal.genBZG = _memo_genBZG

TOL = 1e-8      # the crystal's own default threshold
ALG = 1e-9      # algebraic tolerance (different but well-conditioned linear algebra)


def deco_key(d):
    """canonical hash-seed independent name of a family member"""
    return '{}D:{}{}:n{}:pos={}:sp={}:spin={}:nosym={}'.format(
        d['dim'], d['latt'], ('+' + d['strain']) if d.get('strain') else '', 1 + len(d['pos']),
        'explicit' if 'texture' in d else ''.join(geom.pos_name(p) for p in d['pos']), d['species'], d['spin'], int(bool(d.get('nosym'))))


def deco_class(d):
    """the decoration without its position letters (used to group repeated violations)"""
    return '{}D:{}{}:n{}:sp={}:spin={}:nosym={}'.format(
        d['dim'], d['latt'], ('+' + d['strain']) if d.get('strain') else '', 1 + len(d['pos']),
        d['species'], d['spin'], int(bool(d.get('nosym'))))


def coarse_key(d):
    """family parameters without position / species / spin letters: used as the key of failures that do not
    depend on them (wrong operator dimension, constructor exceptions); the replay case keeps the exact input"""
    return '{}D:{}{}:n{}:nosym={}'.format(d['dim'], d['latt'], ('+' + d['strain']) if d.get('strain') else '',
                                          1 + len(d['pos']), int(bool(d.get('nosym'))))


# ---- non-collinear spin textures: with <= 2 atoms an operation and its inverse accept the same spin patterns, so the
# way vector spins are carried (cartrot . s) is only decided by textures in which an operation permutes >= 3 atoms
# cyclically.  Positions are explicit; the spins are every permutation of a set of in-plane unit vectors.
TEXTURES = {
    'kagome3': {'latts': ('hp', 'hP'), 'pos': [(0.5, 0.), (0., 0.5), (0.5, 0.5)], 'angles': [(0, 120, 240), (90, 210, 330), (30, 150, 270)]},
    'square4': {'latts': ('tp', 'tP', 'cP'), 'pos': [(0.25, 0.), (0., 0.25), (0.75, 0.), (0., 0.75)],
                'angles': [(0, 90, 180, 270), (45, 135, 225, 315)]},
}


def texture_decorations():
    for name, t in sorted(TEXTURES.items()):
        for latt in t['latts']:
            for angles in t['angles']:
                for perm in itertools.permutations(range(len(angles))):
                    for tilt in (0, 1):     # tilt = 1: common out-of-plane component (3D only)
                        dim = 2 if latt in geom.BRAVAIS2 else 3
                        if tilt and dim == 2: continue
                        yield {'dim': dim, 'latt': latt, 'strain': None, 'pos': [None] * (len(angles) - 1), 'species': 'tex:' + name,
                               'spin': 'angles=' + ','.join(str(angles[i]) for i in perm) + (';tilt' if tilt else ''),
                               'texture': name, 'spinangles': [angles[i] for i in perm], 'tilt': tilt, 'nosym': False}


def build_texture(d):
    dim, t = d['dim'], TEXTURES[d['texture']]
    basis = [[np.array(list(p) + [0.] * (dim - 2)) for p in t['pos']]]
    spins = [[np.array([np.cos(np.radians(a)), np.sin(np.radians(a))] + ([0.5 * d['tilt']] if dim == 3 else [])) for a in d['spinangles']]]
    return crystal.Crystal(geom.bravais(d['latt'], None), basis, spins=spins)


def build_decoration(d):
    """the REAL crystal of a family member"""
    if 'texture' in d: return build_texture(d)
    dim = d['dim']
    L = geom.bravais(d['latt'], d.get('strain'))
    n = 1 + len(d['pos'])
    letters = geom.SPIN_PATTERNS[n][d['spin']]
    basis, chems, spins = geom.decoration_inputs(dim, [tuple(p) for p in d['pos']], d['species'], letters)
    return crystal.Crystal(L, basis, chemistry=list(chems), spins=spins, NOSYM=bool(d.get('nosym')))


def tkey(t):
    """integer key of a translation modulo the lattice (1e-6 grid; family translations are sums of letters)"""
    t = np.asarray(t, dtype=float)
    return tuple(int(x) % 1000000 for x in np.round((t - np.floor(t + 1e-7)) * 1e6))


def flat_perm(crys, g):
    """indexmap of g as a permutation of the flat atom list (species blocks concatenated)"""
    off, out = 0, []
    for c, atoms in enumerate(crys.basis):
        out.extend(off + j for j in g.indexmap[c])
        off += len(atoms)
    return tuple(out)


def op_key(rot, trans, perm):
    return (tuple(int(x) for x in np.asarray(rot).reshape(-1)), tkey(trans), tuple(int(i) for i in perm))


def family_blocks(tier, dim, blocksize=None):
    """the case list of the generated family: dicts with latt/strain/n/species-less position blocks"""
    quick = tier == 'quick'
    out = []
    latts = geom.lattice_names(dim)
    members = [(l, None) for l in latts] + [(l, s) for l in latts if l in geom.STRAINABLE for s in ('e1', 'e2', 'e3')]
    p2 = [p for p in geom.positions(dim, 2 if (quick and dim == 3) else None) if any(p)]
    bs = blocksize or (21 if dim == 3 else 48)
    for latt, strain in members:
        for b in range(0, len(p2), bs):
            out.append({'dim': dim, 'latt': latt, 'strain': strain, 'n': 2, 'block': [[list(p)] for p in p2[b:b + bs]]})
    if not quick:
        # n = 3, deterministic cut: both extra atoms have at most one non-zero coordinate (3D) / any (2D);
        # unordered pairs (the ordered variants are the same crystals up to atom order except for species AAB,
        # which therefore gets both orders)
        p3 = [p for p in geom.positions(dim, 1) if any(p)]
        pairs = [[list(a), list(b)] for a, b in itertools.permutations(p3, 2)]
        bs3 = 34 if dim == 3 else 96
        for latt in latts:
            for b in range(0, len(pairs), bs3):
                out.append({'dim': dim, 'latt': latt, 'strain': None, 'n': 3, 'block': pairs[b:b + bs3]})
    return out


def decorations_of(case):
    """all family members of a case block, simplest first"""
    n = case['n']
    strained = bool(case.get('strain'))
    for species in geom.SPECIES_PATTERNS[n]:
        for spin in geom.SPIN_PATTERNS[n]:
            if strained and spin not in ('none', 'vzx'): continue
            if case.get('tier') == 'quick' and spin in QUICK_DROPPED_SPINS: continue
            for nosym in (False, True):
                if nosym and spin not in NOSYM_SPINS: continue
                for pos in case['block']:
                    if n == 3 and species != 'AAB' and pos[0] > pos[1]: continue   # unordered for symmetric patterns
                    yield {'dim': case['dim'], 'latt': case['latt'], 'strain': case.get('strain'), 'pos': pos,
                           'species': species, 'spin': spin, 'nosym': nosym}


QUICK_DROPPED_SPINS = ('vz++', 'vx++')      # quick tier: the two ferromagnetic vector patterns are left to thorough
NOSYM_SPINS = ('none', 's+', 'vz', 's+-', 'vz+-', 's+-+', 'vz+-x')   # NOSYM=True is combined with these patterns only


# ------------------------------------------------------------------ interface
def BOUNDS(tier):
    quick = tier == 'quick'
    return {
        'lattices_3D': list(geom.BRAVAIS3), 'lattices_2D': list(geom.BRAVAIS2),
        'strained': {'members': list(geom.STRAINABLE), 'strains': ['e1', 'e2', 'e3'], 'spins': ['none', 'vzx']},
        'position_letters': list(geom.POS_NAMES),
        'n=1': 'every lattice x {none, scalar, vector z, vector x} x NOSYM; also the re-description ' + str(list(geom.EXTRA3)) +
               ' of the hexagonal lattice (exact ties in the pairwise cell reduction)',
        'n=2': ('second atom over letters^dim' + (' with at most two non-zero coordinates in 3D (126 of 342; deterministic cut '
                                                  'for the quick tier)' if quick else ' (all 342 / 48)')),
        'n=3': ('not in the quick tier' if quick else
                'both extra atoms with at most one non-zero coordinate in 3D (18 letters-positions, all ordered pairs for '
                'species AAB, unordered for AAA/ABB), all 48 positions in 2D; spin patterns ' + str(list(geom.SPIN_PATTERNS[3]))),
        'species': geom.SPECIES_PATTERNS,
        'spin_patterns': {k: [x for x in v if not (quick and x in QUICK_DROPPED_SPINS)] for k, v in geom.SPIN_PATTERNS.items()},
        'NOSYM': 'False with every pattern; True with spin patterns ' + str(list(NOSYM_SPINS)),
        'spin_textures': {k: {'lattices': list(v['latts']), 'atoms': len(v['pos']), 'spin sets (degrees, every permutation)': [list(a) for a in v['angles']],
                              'tilt': 'common out-of-plane component 0 and 0.5 (3D)'} for k, v in TEXTURES.items()},
        'real GroupOp.__mul__': 'all |G|^2 ordered pairs when |G| <= 48; for larger groups every g with the 8 '
                                'geometrically-first h (both orders); data-level closure always on all pairs',
    }


def cases(tier):
    out = []
    for dim in (2, 3):
        out.append({'key': 'n1:{}D'.format(dim), 'dim': dim, 'n': 1, 'cost': 1})
    out.append({'key': 'textures', 'textures': True, 'n': 0, 'cost': 400})
    for dim in (2, 3):
        count = {}
        for blk in family_blocks(tier, dim):
            c = dict(blk)
            fam = (blk['latt'], blk['strain'], blk['n'])
            k = count[fam] = count.get(fam, -1) + 1
            c['key'] = '{}D:{}{}:n{}:block{}'.format(dim, blk['latt'], ('+' + blk['strain']) if blk['strain'] else '',
                                                     blk['n'], k)
            c['cost'] = (geom.HOLOHEDRY_ORDER[blk['latt']] + 8) * len(blk['block']) * (0.3 if blk['strain'] else 1) * blk['n']
            c['tier'] = tier
            out.append(c)
    return out


def n1_decorations(dim):
    for latt in geom.lattice_names(dim) + (list(geom.EXTRA3) if dim == 3 else []):
        for strain in ([None, 'e1', 'e2', 'e3'] if latt in geom.STRAINABLE else [None]):
            for spin in geom.SPIN_PATTERNS[1]:
                for nosym in (False, True):
                    if nosym and spin not in NOSYM_SPINS: continue
                    yield {'dim': dim, 'latt': latt, 'strain': strain, 'pos': [], 'species': 'A', 'spin': spin, 'nosym': nosym}


_pgcache = {}


def lattice_pg(L):
    k = np.asarray(L).tobytes()
    if k not in _pgcache:
        if len(_pgcache) > 4000: _pgcache.clear()
        _pgcache[k] = geom.lattice_point_group(L, TOL)
    return _pgcache[k]


def check_group(crys, nosym=False, completeness=True):
    """all C18 oracles on one real crystal.  Returns (list of (oracle, opdesc, detail), info dict)."""
    fails = []
    dim = crys.dim
    L = crys.lattice
    # canonical (hash-seed independent) order of the operations: everything below, in particular which failing
    # operation / pair is reported first, must not depend on the iteration order of the frozenset
    def _okey(g):
        try: return (0, tuple(int(x) for x in np.asarray(g.rot).reshape(-1)), tuple(np.round(np.asarray(g.trans, dtype=float), 6)))
        except Exception: return (1, (), ())
    ops = sorted(crys.G, key=_okey)
    info = {'nG': len(ops), 'phases': 0}
    # ---- shapes / types (per operation)
    good = []
    for g in ops:
        shp = (np.shape(g.rot), np.shape(g.trans), np.shape(g.cartrot))
        if shp != ((dim, dim), (dim,), (dim, dim)):
            fails.append(('rot-shape', 'shapes={}'.format(shp).replace(' ', ''),
                          'operation of a {}-dimensional crystal has rot/trans/cartrot shapes {}'.format(dim, shp)))
            continue
        if not np.issubdtype(np.asarray(g.rot).dtype, np.integer):
            fails.append(('rot-integer', geom.opdesc(L, g.rot, g.trans), 'dtype {}'.format(np.asarray(g.rot).dtype)))
            continue
        if len(g.indexmap) != len(crys.basis) or any(sorted(m) != list(range(len(a))) for m, a in zip(g.indexmap, crys.basis)):
            fails.append(('indexmap-perm', geom.opdesc(L, g.rot, g.trans), 'indexmap {}'.format(g.indexmap)))
            continue
        good.append(g)
    if len(good) != len(ops) or not ops:
        if not ops: fails.append(('identity', 'empty', 'G is empty'))
        return fails, info
    n = len(ops)
    pos, spec, sp, idx = geom.flatten(crys.basis, crys.spins)
    N = len(pos)
    rots = np.array([g.rot for g in ops])
    trans = np.array([g.trans for g in ops], dtype=float)
    carts = np.array([g.cartrot for g in ops], dtype=float)
    perms = np.array([flat_perm(crys, g) for g in ops], dtype=int)
    desc = lambda k: geom.opdesc(L, rots[k], trans[k])
    # ---- unimodular, cartrot = L rot L^-1, orthogonal
    dets = np.round(np.linalg.det(rots.astype(float))).astype(int)
    for k in np.nonzero(np.abs(dets) != 1)[0]:
        fails.append(('rot-unimodular', desc(k), 'det {}'.format(int(dets[k]))))
    Linv = np.linalg.inv(L)
    ref = np.einsum('ab,nbc,cd->nad', L, rots.astype(float), Linv)
    err = np.abs(ref - carts).reshape(n, -1).max(axis=1)
    for k in np.nonzero(err > ALG)[0]:
        fails.append(('cartrot-consistent', desc(k), 'max |L rot L^-1 - cartrot| = {:.2e}'.format(err[k])))
    orth = np.abs(np.einsum('nba,nbc->nac', carts, carts) - np.eye(dim)[None]).reshape(n, -1).max(axis=1)
    for k in np.nonzero(orth > ALG)[0]:
        fails.append(('cartrot-orthogonal', desc(k), 'max |R^T R - 1| = {:.2e}'.format(orth[k])))
    # ---- every atom lands on the atom named by indexmap (species blocks => same species by construction of flat_perm)
    img = np.einsum('nab,ib->nia', rots.astype(float), pos) + trans[:, None, :]
    diff = img - pos[perms]
    res = np.abs(diff - np.round(diff)).reshape(n, -1).max(axis=1)
    for k in np.nonzero(res > TOL)[0]:
        fails.append(('atom-map', desc(k), 'max |g.u_i - u_indexmap(i)| mod lattice = {:.2e}'.format(res[k])))
    # ---- spins: s_{p(i)} = phase * image(s_i) for one unit phase per operation
    if sp is not None:
        roots = [np.exp(2j * np.pi * m / 12) for m in range(12)]
        for k in range(n):
            okphase = None
            for ph in roots:
                ph = ph.real if abs(ph.imag) < 1e-12 else ph
                if all(np.ndim(sp[perms[k][i]]) == np.ndim(sp[i]) and
                       np.allclose(sp[perms[k][i]], ph * geom._spin_image(sp[i], ref[k]), atol=TOL, rtol=0) for i in range(N)):
                    okphase = ph; break
            if okphase is None:
                fails.append(('spin-map', desc(k), 'no unit phase maps the spins along indexmap {}'.format(perms[k].tolist())))
            elif okphase != 1: info['phases'] += 1
    # ---- group axioms modulo lattice translations, on the data
    keys = [op_key(rots[k], trans[k], perms[k]) for k in range(n)]
    keyset = {}
    for k, kk in enumerate(keys):
        if kk in keyset: fails.append(('duplicate-op', desc(k), 'two members of G agree modulo a lattice translation'))
        keyset[kk] = k
    idk = op_key(np.eye(dim, dtype=int), np.zeros(dim), range(N))
    if idk not in keyset: fails.append(('identity', 'none', 'no identity operation in G'))
    prot = np.einsum('gab,hbc->ghac', rots, rots)
    ptr = np.einsum('gab,hb->gha', rots.astype(float), trans) + trans[:, None, :]
    pperm = perms[:, perms]                    # [g, h, i] = perms[g][perms[h][i]]
    pt = np.round((ptr - np.floor(ptr + 1e-7)) * 1e6).astype(np.int64) % 1000000
    rows = np.concatenate([prot.reshape(n, n, -1).astype(np.int64), pt, pperm.astype(np.int64)], axis=2)
    grow = {np.array(list(kk[0]) + list(kk[1]) + list(kk[2]), dtype=np.int64).tobytes(): k for kk, k in keyset.items()}
    buf = np.ascontiguousarray(rows).tobytes()
    step = rows.shape[2] * 8
    table = np.empty((n, n), dtype=int)
    nclos = 0
    for a in range(n):
        for b in range(n):
            c = grow.get(buf[(a * n + b) * step:(a * n + b + 1) * step], -1)
            table[a, b] = c
            if c < 0 and nclos < 3:
                nclos += 1
                fails.append(('closure', desc(a) + '*' + desc(b), 'product (rot, trans mod lattice, atom map) is not in G'))
    # inverses on the data: some h with g*h = identity
    if idk in keyset:
        ik = keyset[idk]
        for a in range(n):
            if not np.any(table[a] == ik): fails.append(('inverse', desc(a), 'no member of G inverts this operation'))
    # ---- the real GroupOp algebra: __mul__, inv, against the data-level products
    if n <= 48:
        pairs = ((a, b) for a in range(n) for b in range(n))
    else:
        first = sorted(range(n), key=lambda k: desc(k))[:8]
        pairs = itertools.chain(((a, b) for a in range(n) for b in first), ((b, a) for a in range(n) for b in first))
    nmul = 0
    for a, b in pairs:
        gh = ops[a] * ops[b]
        nmul += 1
        ok = (np.array_equal(gh.rot, prot[a, b]) and np.allclose(gh.trans, ptr[a, b], atol=ALG, rtol=0)
              and np.allclose(gh.cartrot, np.dot(carts[a], carts[b]), atol=ALG, rtol=0)
              and flat_perm(crys, gh) == tuple(pperm[a, b]))
        if not ok:
            fails.append(('mul', desc(a) + '*' + desc(b), 'GroupOp.__mul__ disagrees with composition of the maps'))
            break
    for a in range(n):
        gi = ops[a].inv()
        e = ops[a] * gi
        ki = op_key(gi.rot, gi.trans, flat_perm(crys, gi))
        e2 = gi * ops[a]
        # exact identity as a map (not only modulo lattice translations): the inverse of x -> R x + t is x -> R^-1 x - R^-1 t
        if any(op_key(x.rot, x.trans, flat_perm(crys, x)) != idk or not np.allclose(x.cartrot, np.eye(dim), atol=ALG)
               or not np.allclose(x.trans, 0, atol=ALG) for x in (e, e2)):
            fails.append(('inv', desc(a), 'g * g.inv() or g.inv() * g is not the identity map')); break
        if ki not in keyset:
            fails.append(('inverse', desc(a), 'g.inv() is not in G modulo lattice translations')); break
    info['nmul'] = nmul
    # ---- NOSYM: exactly the identity
    if nosym and (n != 1 or idk not in keyset):
        fails.append(('nosym-group', 'n={}'.format(n), 'NOSYM crystal reports {} operations'.format(n)))
    # ---- completeness against the brute-force group (separate oracle; the property does not demand it)
    if completeness and not nosym and not fails:
        bg = geom.brute_group(L, crys.basis, crys.spins, TOL, pointgroup=lattice_pg(L))
        bkeys = {op_key(o['rot'], o['trans'], o['perm']): o for o in bg}
        info['nbrute'] = len(bg)
        for kk, o in bkeys.items():
            if kk not in keyset:
                fails.append(('incomplete-group', geom.opdesc(L, o['rot'], o['trans']),
                              'brute force finds this symmetry ({} in all), G has {} operations'.format(len(bg), n)))
                break
        for kk in keyset:
            if kk not in bkeys:
                raise RuntimeError('harness: operation {} passes every oracle but is not in the brute-force group'.format(desc(keyset[kk])))
    return fails, info


def evaluate(case):
    if 'single' in case:
        decos = [case['single']]
    elif case.get('textures'):
        decos = list(texture_decorations())
    elif case['n'] == 1:
        decos = list(n1_decorations(case['dim']))
    else:
        decos = list(decorations_of(case))
    viols, seen = [], set()
    outcomes = set()
    states = transitions = nontriv = 0
    for d in decos:
        states += 1
        try:
            crys = build_decoration(d)
        except Exception as e:
            cls = ('construct-exception', deco_class(d))
            if cls not in seen:
                seen.add(cls)
                viols.append({'oracle': 'construct-exception', 'key': coarse_key(d) + '|' + type(e).__name__,
                              'detail': '{}: {}'.format(type(e).__name__, e), 'case': {'key': deco_key(d), 'single': d}})
            outcomes.add('exc:' + type(e).__name__)
            continue
        try:
            fails, info = check_group(crys, nosym=bool(d.get('nosym')))
        except RuntimeError:
            raise
        except Exception as e:
            fails, info = [('exception', type(e).__name__, '{}: {}'.format(type(e).__name__, e))], {'nG': -1}
        transitions += info.get('nG', 0) ** 2 + info.get('nG', 0)
        hol = geom.HOLOHEDRY_ORDER[d['latt']]
        if 1 < info.get('nG', 0) and info.get('nbrute', 0) and info['nG'] != hol: nontriv += 1
        outcomes.add('{}:{}:N{}:G{}:ph{}'.format(d['latt'], d.get('strain'), crys.N, info.get('nG'), min(info.get('phases', 0), 1)))
        for orc, od, det in fails:
            cls = (orc, deco_class(d), od.split('t=')[0] if orc != 'closure' else '')
            if cls in seen: continue
            seen.add(cls)
            viols.append({'oracle': orc, 'key': (coarse_key(d) if orc == 'rot-shape' else deco_key(d)) + '|' + od, 'detail': det,
                          'case': {'key': deco_key(d), 'single': d}})
    return {'states': states, 'transitions': transitions, 'execs': states, 'outcomes': sorted(outcomes),
            'nontrivial': nontriv, 'violations': viols,
            'sample': {'case': case.get('key'), 'crystals': states, 'first': deco_key(decos[0]) if decos else None}}
