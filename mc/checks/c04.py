"""
C04 — invariance under reference choices; homogeneity in the rates.

E1 with edge oracles.  Nodes: data points (base T/G1/G2, <=1 one-class deviation) of vacancy-mediated and
interstitial calculators.  Edges (transformation moves, every move applied to every node):
  vshift c   : eneV, eneT0, eneT1, eneT2 += c           -> all tensors unchanged
  sshift c   : eneS, eneT1, eneT2 += c                  -> unchanged
  vpre f     : preV, preT0, preT1, preT2 *= f           -> unchanged
  spre f     : preS, preT1, preT2 *= f                  -> unchanged
  kT a       : every energy *= a and kT *= a            -> unchanged
  rate f     : preT0, preT1, preT2 *= f                 -> every tensor *= f
  interstitial: shift / joint prefactor / kT co-scale / rate scale likewise for Interstitial.diffusivity
  displacement: pairs of catalogue crystals that differ only by a symmetry-preserving intra-cell displacement
                (OMEGA<->ROMEGA51<->ROMEGA keeps topology? no: symmetry changes) -- only pairs with identical
                lattice-form networks and class structure are used: RECTM<->RECTM2, ROMEGA51<->ROMEGA;
                data transported by lattice-form class matching -> tensors equal to k-mesh accuracy.
"""
import numpy as np
from mc import vm, inter, catalog

PID = 'C04'
ENGINE = 'E1'
TECHNIQUE = 'bounded-exhaustive enumeration of data nodes x transformation moves (metamorphic edge oracles) on real calculators'
RULE = ('node = (calculator, base, <=1 deviation); edge = one transformation move from the stated alphabet; every move on every node; '
        'nontrivial = edges whose transformed input arrays differ from the original ones (all of them) on nodes that differ from the base')
LEVEL_TEXT = 'Every transformation move of the alphabet is applied to every enumerated node; equalities are algebraic (same mesh), tolerance 1e-9 (k-mesh accuracy for displacement edges and for crystals with origin states).'
LEVEL_NOTE = 'Moves use fixed constants (shifts +3.7/-11 and +-800 (absolute energies far beyond the range of exp()), scales 2 and 1/7, kT factors 0.5 and 3, rate scales 2, 1e-3, 1e4, 1e-13, 1e13); nothing is said about other constants.'

TOL = 1e-9
VM_QUICK = [('FCC', 0, 1), ('HCP', 0, 1), ('HONEY', 0, 1), ('OMEGA', 0, 1), ('RECTM', 0, 1), ('SQUARE', 0, 2)]
VM_THOROUGH = VM_QUICK + [('BCC', 0, 1), ('SC', 0, 1), ('DIAMOND', 0, 1), ('B2', 0, 1), ('ROMEGA', 0, 1), ('FCC', 0, 2), ('TRIA', 0, 1), ('NBO', 0, 1)]
MOVES = [('vshift', 3.7), ('vshift', -11.), ('sshift', 3.7), ('sshift', -11.), ('vshift', 800.), ('sshift', -800.), ('vpre', 2.), ('vpre', 1 / 7.), ('spre', 2.), ('spre', 1 / 7.),
         ('kT', 0.5), ('kT', 3.), ('rate', 2.), ('rate', 1e-3), ('rate', 1e4), ('rate', 1e-13), ('rate', 1e13)]
IMOVES = [('shift', 3.7), ('shift', -11.), ('shift', 800.), ('shift', -800.), ('pre', 2.), ('pre', 1 / 7.), ('rate', 2.), ('rate', 1e-3), ('rate', 1e4), ('rate', 1e-13), ('rate', 1e13)]
DISPLACED = [('RECTM', 'RECTM2', 0), ('ROMEGA51', 'ROMEGA', 0)]
CHUNK = 10


def BOUNDS(tier):
    return {'vacancy-mediated calculators': VM_QUICK if tier == 'quick' else VM_THOROUGH, 'interstitial calculators': inter.INTER_CRYSTALS,
            'moves': MOVES, 'interstitial moves': IMOVES, 'displacement pairs': DISPLACED, 'bases': ['T', 'G1', 'G2'], 'k': 1, 'tol': TOL}


def cases(tier):
    out = []
    letters = [0, 2, 3] if tier == 'quick' else list(range(len(vm.LETTERS)))
    for (name, icut, N) in (VM_QUICK if tier == 'quick' else VM_THOROUGH):
        ent = vm.calculator(name, icut, N)
        nco = len(vm.coordinates(ent))
        devs = [()] + [((c, l),) for c in range(nco) for l in letters]
        nodes = [(b, d) for b in ('T', 'G1', 'G2') for d in devs]
        for c in range(0, len(nodes), CHUNK):
            out.append({'key': 'vm/{}/{}/N{}/chunk{}'.format(name, icut, N, c // CHUNK), 'kind': 'vm', 'crystal': name, 'icut': icut, 'N': N,
                        'nodes': [[b, [list(x) for x in d]] for b, d in nodes[c:c + CHUNK]], 'cost': N})
    for (name, icut) in inter.INTER_CRYSTALS:
        out.append({'key': 'int/{}/{}'.format(name, icut), 'kind': 'int', 'crystal': name, 'icut': icut, 'cost': 0.5})
    for (a, b, icut) in DISPLACED:
        for base in ('T', 'G1', 'G2'):
            out.append({'key': 'disp/{}/{}/{}'.format(a, b, base), 'kind': 'disp', 'a': a, 'b': b, 'icut': icut, 'base': base, 'cost': 2})
    return out


def vm_move(d, kT, mv, c):
    d = {k: v.copy() for k, v in d.items()}
    factor = 1.
    if mv == 'vshift':
        for k in ('eneV', 'eneT0', 'eneT1', 'eneT2'): d[k] += c
    elif mv == 'sshift':
        for k in ('eneS', 'eneT1', 'eneT2'): d[k] += c
    elif mv == 'vpre':
        for k in ('preV', 'preT0', 'preT1', 'preT2'): d[k] *= c
    elif mv == 'spre':
        for k in ('preS', 'preT1', 'preT2'): d[k] *= c
    elif mv == 'kT':
        for k in vm.ENE.values(): d[k] *= c
        kT = kT * c
    elif mv == 'rate':
        for k in ('preT0', 'preT1', 'preT2'): d[k] *= c
        factor = c
    return d, kT, factor


def evaluate(case):
    if case['kind'] == 'vm': return eval_vm(case)
    if case['kind'] == 'int': return eval_int(case)
    return eval_disp(case)


def eval_vm(case):
    ent = vm.calculator(case['crystal'], case['icut'], case['N'])
    vb = vm.has_vb(ent)
    viols, outcomes, ntr, nontriv = [], [], 0, 0
    for base, devs in case['nodes']:
        devs = [tuple(x) for x in devs]
        d = vm.apply_devs(ent, vm.base_data(ent, base), devs)
        nkey = 'vm/{}/cut{}/N{};vb={};base={};dev={}'.format(case['crystal'], case['icut'], case['N'], int(vb), base, vm.dev_name(ent, devs))
        L = vm.package_L(ent, d)
        sc = vm.tscale(*L)
        tol = TOL
        if vb: tol = max(tol, vm.bz_tol(ent, d)[0])
        for mv, c in MOVES:
            key = nkey + ';move={}:{:g}'.format(mv, c)
            sub = dict(case, nodes=[[base, [list(x) for x in devs]]])
            try:
                d2, kT2, f = vm_move(d, 1.0, mv, c)
                L2 = vm.package_L(ent, d2, kT2)
            except Exception as e:
                viols.append({'oracle': 'exception', 'key': key, 'detail': repr(e), 'case': sub}); continue
            ntr += 1
            if devs: nontriv += 1
            for name, a, b in zip(('L0vv', 'Lss', 'Lsv', 'L1vv'), L, L2):
                e = float(np.abs(f * a - b).max()) / (sc * f)
                if not np.isfinite(e) or e > tol:
                    viols.append({'oracle': name, 'key': key, 'detail': {'relerr': e, 'before': a.tolist(), 'after': b.tolist(), 'expected factor': f}, 'case': sub})
        outcomes.append('{:.6e}'.format(float(np.trace(L[1]))))
    return {'states': len(case['nodes']), 'transitions': ntr, 'execs': ntr + len(case['nodes']), 'outcomes': outcomes, 'nontrivial': nontriv,
            'violations': viols, 'sample': {'edge': key}}


def eval_int(case):
    ent = inter.calculator(case['crystal'], case['icut'])
    nco = len(inter.coordinates(ent))
    viols, outcomes, ntr, nontriv, nst = [], [], 0, 0, 0
    for base in ('T', 'G1', 'G2', 'X'):
        for devs in [()] + [((c, l),) for c in range(nco) for l in range(len(inter.LETTERS))]:
            d = inter.apply_devs(ent, inter.base_data(ent, base), devs)
            nkey = 'int/{}/cut{};base={};dev={}'.format(case['crystal'], case['icut'], base, inter.dev_name(ent, devs))
            D0 = inter.D(ent, d); nst += 1
            sc = vm.tscale(D0)
            for mv, c in IMOVES:
                d2 = {k: v.copy() for k, v in d.items()}; f = 1.
                if mv == 'shift': d2['betaene'] += c; d2['betaeneT'] += c
                elif mv == 'pre': d2['pre'] *= c; d2['preT'] *= c
                elif mv == 'rate': d2['preT'] *= c; f = c
                key = nkey + ';move={}:{:g}'.format(mv, c)
                try:
                    D1 = inter.D(ent, d2)
                except Exception as e:
                    viols.append({'oracle': 'exception', 'key': key, 'detail': repr(e)}); continue
                ntr += 1
                if devs: nontriv += 1
                e = float(np.abs(f * D0 - D1).max()) / (sc * f)
                if not np.isfinite(e) or e > TOL:
                    viols.append({'oracle': 'D', 'key': key, 'detail': {'relerr': e, 'before': D0.tolist(), 'after': D1.tolist(), 'expected factor': f}})
            outcomes.append('{:.6e}'.format(float(np.trace(D0))))
    return {'states': nst, 'transitions': ntr, 'execs': ntr + nst, 'outcomes': outcomes, 'nontrivial': nontriv, 'violations': viols,
            'sample': {'edge': key}}


def _transport(entA, entB, dA):
    """data of calculator A transported to calculator B of the displaced crystal by lattice-form class matching:
    sites by index, pair states by (i, j, R), jumps by (i, j, R-difference)."""
    A, B = entA['calc'], entB['calc']
    kA, kB = vm.class_keys(entA), vm.class_keys(entB)
    latt = lambda ent: {'T0': [min((i, j) + tuple(int(r) for r in np.rint(ent['crys'].invlatt @ dx - ent['crys'].basis[ent['chem']][j] + ent['crys'].basis[ent['chem']][i]))
                                   for (i, j), dx in jl) for jl in ent['calc'].om0_jn]}
    lA, lB = latt(entA), latt(entB)
    dB = {}
    for kind in vm.KINDS:
        ka = lA[kind] if kind == 'T0' else [k[1:] for k in kA[kind]]
        kb = lB[kind] if kind == 'T0' else [k[1:] for k in kB[kind]]
        if sorted(ka) != sorted(kb): return None
        idx = [ka.index(k) for k in kb]
        dB[vm.ENE[kind]] = dA[vm.ENE[kind]][idx]; dB[vm.PRE[kind]] = dA[vm.PRE[kind]][idx]
    return dB


def _ilatt(ent):
    crys, chem = ent['crys'], ent['chem']
    return [min((i, j) + tuple(int(r) for r in np.rint(crys.invlatt @ dx - crys.basis[chem][j] + crys.basis[chem][i])) for (i, j), dx in jl)
            for jl in ent['jumpnetwork']]


def eval_disp(case):
    key = 'disp/{}->{};base={}'.format(case['a'], case['b'], case['base'])
    viols, outcomes = [], []
    # ---- interstitial calculator on the same pair of networks (algebraic: no k-mesh involved)
    iA, iB = inter.calculator(case['a'], case['icut']), inter.calculator(case['b'], case['icut'])
    dA = inter.base_data(iA, case['base'])
    la, lb = _ilatt(iA), _ilatt(iB)
    sa, sb = [min(w) for w in iA['sitelist']], [min(w) for w in iB['sitelist']]
    if sorted(la) == sorted(lb) and sorted(sa) == sorted(sb):
        ji = [la.index(k) for k in lb]; si = [sa.index(k) for k in sb]
        dB = {'pre': dA['pre'][si], 'betaene': dA['betaene'][si], 'preT': dA['preT'][ji], 'betaeneT': dA['betaeneT'][ji]}
        DA, DB = inter.D(iA, dA), inter.D(iB, dB)
        e = float(np.abs(DA - DB).max()) / vm.tscale(DA)
        if e > TOL: viols.append({'oracle': 'D-displacement', 'key': 'int/' + key, 'detail': {'relerr': e, 'A': DA.tolist(), 'B': DB.tolist()}})
        outcomes.append('{:.6e}'.format(float(np.trace(DA))))
        nint = 1
    else:
        nint = 0      # different class structure (symmetry changes with the displacement): not an edge of this kind
    # ---- vacancy-mediated
    entA = vm.calculator(case['a'], case['icut'], 1); entB = vm.calculator(case['b'], case['icut'], 1)
    dA = vm.base_data(entA, case['base'])
    dB = _transport(entA, entB, dA)
    nvm = 0
    if dB is not None:
        nvm = 1
        LA = vm.package_L(entA, dA); LB = vm.package_L(entB, dB)
        sc = vm.tscale(*LA)
        tol = vm.bz_tol(entA, dA)[0] + vm.bz_tol(entB, dB)[0]    # two independent k-mesh errors, one per crystal
        for name, a, b in zip(('L0vv', 'Lss', 'Lsv', 'L1vv'), LA, LB):
            e = float(np.abs(a - b).max()) / sc
            if e > tol: viols.append({'oracle': name + '-displacement', 'key': 'vm/' + key + ';vb=1', 'detail': {'relerr': e, 'tol': tol, 'A': a.tolist(), 'B': b.tolist()}})
        outcomes.append('{:.6e}'.format(float(np.trace(LA[1]))))
    if nint + nvm == 0:
        raise RuntimeError('harness: displaced pair {} has no matching class structure at all'.format(key))
    return {'states': 2 * (nint + nvm), 'transitions': nint + nvm, 'execs': 2 * (nint + nvm), 'outcomes': outcomes,
            'nontrivial': (nint + nvm) if case['base'] != 'T' else 0, 'violations': viols, 'sample': {'edge': key, 'interstitial edge': bool(nint), 'vacancy edge': bool(nvm)}}
