"""
C32 -- all cluster-expansion energy evaluators agree with the brute-force cluster sum.

E1 explorer.  A case is (supercell, cluster expansion, vacancy site or none, spectator occupation); inside the case
EVERY mobile occupation (2^n) is evaluated.  Cluster values: every unit vector (one class = 1) and the constant;
energies are linear in the values, so this decides every real value vector (one generic vector, with and without
the optional constant entry, is evaluated as well to exercise accumulation of merged interactions).

Routes compared with R-energy (mc/refmodels/energy.py: own site lookup by position, own translations):
  evalcluster                       -> count vector             (exact)
  expandcluster_matrices            -> counts from index rows   (exact)
  clusterevaluator                  -> (siteinteract, interact) evaluated by its documented meaning   (1e-12)
  MonteCarloSampler(...).start(occ).E()                                                              (1e-12)
"""
import itertools
import numpy as np
from onsager import cluster
from mc.refmodels import energy as en

PID = 'C32'
ENGINE = 'E1'
TECHNIQUE = 'every occupation of small supercells x every unit value vector; four real evaluators vs brute-force cluster sum'
RULE = ('case = supercell x expansion(cutoff interval, order) x vacancy site|none x spectator occupation; inside: all 2^n '
        'mobile occupations x all unit value vectors; non-trivial = occupations with a non-zero count in >= 2 classes')
LEVEL_TEXT = 'exhaustive in the occupation for the listed supercells; linearity closure in the values'
ASSUMPTIONS = ['site n of the supercell is the position mobilepos[n] / specpos[n] (documented indexing)',
               'a vacancy cluster counts when its first site is on the vacancy and the other sites are occupied',
               'tolerance 1e-12 absolute on energies of O(1..30): same integers summed in a different order']

TOL = 1e-12


def _sups(tier):
    return ['B2AB211sB', 'B2AB211m', 'HCP211', 'FCC2I'] if tier == 'quick' else en.SMALL3D + ['CHAINAB5']   # B2AB211m: two mobile species


def _exps(tier):
    return [(1, 2), (2, 3)] if tier == 'quick' else [(1, 2), (2, 3), (2, 4), (3, 3)]


def BOUNDS(tier):
    return {'supercells': {n: en.SUPERCELLS[n] for n in _sups(tier)}, 'expansions(cutoff interval, maxorder)': _exps(tier),
            'vacancy': 'none + every mobile site', 'spectator occupations': 'all', 'mobile occupations': 'all',
            'values': 'every unit vector + constant + one generic vector (with/without constant entry)'}


def cases(tier):
    out = []
    for name in _sups(tier):
        sup = en.build_supercell(name)
        nm, ns = len(sup.mobilepos), len(sup.specpos)
        for icut, order in _exps(tier):
            for vac in [None] + list(range(nm)):
                for sb in itertools.product((0, 1), repeat=ns):
                    out.append({'key': '{}:cut{}o{}:vac{}:s{}'.format(name, icut, order, '-' if vac is None else vac, ''.join(map(str, sb)) or '-'),
                                'sup': name, 'icut': icut, 'order': order, 'vac': vac, 'socc': list(sb),
                                'cost': 2 ** nm * (icut + order)})
    return out


def evaluate(case):
    name, vac = case['sup'], case['vac']
    sup = en.build_supercell(name, vac)
    crys = sup.crys
    classes, desc, cut = en.expansion(crys, case['icut'], case['order'], en.mobile_chems(name) if vac is not None else ())
    socc = np.array(case['socc'], dtype=int)
    model = en.SupercellModel(sup)
    prep = model.prepare(classes)
    K = len(classes)
    nm = model.nm
    base = '{}:cut{}o{}:vac{}:s{}'.format(name, case['icut'], case['order'], '-' if vac is None else vac, en.bits(socc) or '-')
    names = desc + ['constant']
    only = case.get('mocc')

    viols, seen = [], set()

    def bad(route, k, mocc, got, want):
        sig = (route, names[k] if k is not None else 'generic')
        if sig in seen: return
        seen.add(sig)
        sub = dict(case); sub['mocc'] = [int(x) for x in mocc]
        viols.append({'oracle': route, 'key': '{}:m{}:{}'.format(base, en.bits(mocc), sig[1]),
                      'detail': {'got': got, 'want': want}, 'case': sub})

    # value vectors: unit vectors over classes, constant, generic
    unit = [np.eye(K + 1)[k] for k in range(K + 1)]
    gen = en.generic_values(K + 1)
    vectors = [(k, unit[k]) for k in range(K + 1)] + [(None, gen), ('noconst', gen[:K])]
    evaluators, samplers = [], []
    execs = 0
    for k, v in vectors:
        si, inter = sup.clusterevaluator(socc, classes, v); execs += 1
        evaluators.append((si, inter))
        samplers.append(cluster.MonteCarloSampler(sup, socc, classes, v)); execs += 1
    mats = sup.expandcluster_matrices(socc, classes); execs += 1

    states, nontriv, outcomes = 0, 0, set()
    occs = [np.array(only, dtype=int)] if only is not None else list(en.all_occupations(nm, vac))
    for mocc in occs:
        states += 1
        ref = model.counts(prep, mocc, socc, vac)
        outcomes.add(tuple(ref))
        if sum(1 for c in ref[:-1] if c) >= 2: nontriv += 1
        got = [int(x) for x in sup.evalcluster(mocc, socc, classes)]; execs += 1
        for k in range(K + 1):
            if got[k] != ref[k]: bad('evalcluster', k, mocc, got[k], ref[k])
        got = en.count_matrices(mats, mocc)
        for k in range(K):
            if got[k] != ref[k]: bad('expandcluster_matrices', k, mocc, got[k], ref[k])
        for (k, v), (si, inter), smp in zip(vectors, evaluators, samplers):
            if k == 'noconst':
                want = float(np.dot(v, ref[:K])); kk = None
            else:
                want = float(np.dot(v, ref)); kk = k
            e1 = en.eval_siteinteract(si, inter, mocc)
            if abs(e1 - want) > TOL: bad('clusterevaluator' + ('-noconst' if k == 'noconst' else ''), kk, mocc, e1, want)
            smp.start(mocc.copy()); e2 = smp.E(); execs += 1
            if abs(e2 - want) > TOL: bad('MonteCarloSampler.E' + ('-noconst' if k == 'noconst' else ''), kk, mocc, e2, want)
    return {'states': states, 'transitions': states * (2 + 2 * len(vectors)), 'execs': execs, 'outcomes': [str(o) for o in outcomes],
            'nontrivial': nontriv, 'violations': viols,
            'sample': {'case': case['key'], 'cutoff': cut, 'classes': names, 'occupations': states}}
