"""
C10 — the lattice Green function solves the diffusion equation.

E1: nodes = (crystal, cutoff, base point T/G1/G2, <=1 one-class deviation in thorough).  On every node, with a
rate matrix assembled independently from the jump list:
  (a) residual  : max_{s,u} |sum_t omega(s,t) g(t,u) - delta_su| over u = every site of the cell, s = every site
                  with |R_k| <= 1 (2 in thorough); bounded, and it must shrink under mesh refinement
                  (Nmax 4 -> 6 [-> 8]); "holds to the Brillouin-zone integration accuracy" is thereby a statement
                  about convergence, not about a number chosen by the check
  (b) symmetry  : g(i,j,x) = g(j,i,-x) for all pairs and all x of (a)
  (c) invariance: g(g.i, g.j, g.x) = g(i,j,x) for all g in crys.G
  (d) far field : 3D only: g(i,j,x) -> -V sqrt(rho_i rho_j) / (4 pi sqrt(det D) |x|_D) along every lattice direction up
                  to a quarter of the mesh period (the weakest oracle of the set; catches wrong prefactors / pole terms)
  (e) scaling   : g(c * rates) = g / c for c in {2, 1e-3}; D scales with c
  (f) history   : an instance that has seen other rates before gives exactly what a fresh instance gives
"""
import itertools
import numpy as np
from onsager import GFcalc
from mc import catalog, inter, vm
from mc.refmodels import pair

PID = 'C10'
ENGINE = 'E1'
TECHNIQUE = 'bounded-exhaustive enumeration of (crystal, data node, endpoint pair, group operation, mesh size); residual of the diffusion equation against an independently assembled rate matrix, convergence under mesh refinement, symmetry, invariance, far field, scaling'
RULE = ('node = (crystal, cutoff, base, <=1 deviation); per node every endpoint pair within the stated range, every group operation, '
        'every lattice direction; nontrivial = nodes whose data differ from unit rates')
LEVEL_TEXT = 'All endpoint pairs / group operations / directions of every listed node; the residual bound is complemented by a refinement oracle so that the accuracy statement is not circular.'
LEVEL_NOTE = 'The rate matrix used in the residual is assembled from the jump list in the site basis (mc/refmodels/pair.Net), independent of the Fourier/Taylor machinery.'

QUICK = [('SC', 0), ('FCC', 0), ('BCC', 0), ('HCP', 0), ('OMEGA', 0), ('ROMEGA', 0), ('SQUARE', 0), ('HONEY', 0), ('KAGOME', 0), ('RECTM', 0), ('B2', 0),
         ('OBLIQUE', 1), ('RHOM', 1), ('MONO', 2),     # these three: principal axes of D not along the Cartesian axes
         ('OBL3', 0)]      # three sites without any symmetry: non-commuting relaxive block with linear coupling
THOROUGH = QUICK + [('PYROPE', 0), ('TET', 1), ('ORTH', 2), ('DIAMOND', 0), ('L12', 0), ('NBO', 0), ('TRIA', 0), ('CRECT', 1), ('HEXP', 1), ('TRIC', 2),
                    ('FCC', 1), ('HONEY', 1), ('WURTZ2', 0)]      # (RUMPLED2 does not percolate along z: D is singular and the GF undefined)
RBOUND = {'T': 1e-5, 'G1': 1e-5, 'G2': 1e-2}     # observed <= 4e-6 (T, G1) and <= 4e-3 (G2, oblique 2D) with Nmax = 4
RBOUND_2D_MULTISITE = {'T': 1e-4, 'G1': 1e-4, 'G2': 1e-2}   # 2D cells with >= 3 sites converge more slowly (OBL3: 3e-5 / 8e-5 at Nmax 4, halved at 6)


def BOUNDS(tier):
    return {'crystals': QUICK if tier == 'quick' else THOROUGH, 'bases': ['T', 'G1', 'G2'], 'k': '0 (+ one doubled site prefactor per Wyckoff set at G1 on multi-set crystals)' if tier == 'quick' else 1,
            'residual bound (Nmax=4)': dict(RBOUND, deviation_nodes='10 x the bound of the base; none for the +5 letter', two_dimensional_cells_with_3_or_more_sites=RBOUND_2D_MULTISITE), 'refinement': 'r(Nmax=6) <= 0.6 r(Nmax=4) + 1e-9' + ('' if tier == 'quick' else '; r(8) <= 0.6 r(6) + 1e-9'),
            'endpoint range': 1 if tier == 'quick' else 2, 'scales': [2., 1e-3],
            'far field': '3D connected networks, base nodes T and G1 only; |ratio-1| <= 5% at a quarter of the mesh period'}


def cases(tier):
    out = []
    for (name, icut) in (QUICK if tier == 'quick' else THOROUGH):
        crys, chem, sl, jn = catalog.network(name, icut)
        ent = {'sitelist': sl, 'jumpnetwork': jn, 'crys': crys, 'chem': chem}
        nco = len(inter.coordinates(ent))
        for base in ('T', 'G1', 'G2'):
            devsets = [()] + ([((c, l),) for c in range(nco) for l in (0, 2, 3)] if (tier == 'thorough' and base == 'G1') else [])
            if tier == 'quick' and base == 'G1' and len(sl) >= 2:
                # several Wyckoff sets: one node per set with its site PREFACTOR doubled (the bases have unit prefactors)
                devsets += [((c, 3),) for c, (kind, n) in enumerate(inter.coordinates(ent)) if kind == 'site']
            for devs in devsets:
                out.append({'key': '{}/{}/{}/{}'.format(name, icut, base, '+'.join('{}.{}'.format(c, l) for c, l in devs) or 'base'),
                            'crystal': name, 'icut': icut, 'base': base, 'devs': [list(x) for x in devs], 'tier': tier,
                            'refine': (not devs), 'cost': len(crys.basis[chem]) ** 2 * (3 if not devs else 1)})
    return out


def omega_rows(net, bF, bT, crys, rng):
    """[(u, (sj, sx), [(coef, (tj, x_t - ... ))...])]: rows of the symmetrised rate matrix around each target site u"""
    w = net.w
    rows = []
    for u in range(net.N):
        for sj in range(net.N):
            for R in rng:
                sx = crys.lattice @ (np.array(R) + net.u[sj] - net.u[u])
                terms = []
                for (tj, dx, c) in net.jumps[sj]:
                    terms.append((np.exp(-bT[c] + 0.5 * (bF[w[sj]] + bF[w[tj]])), tj, sx + dx))
                    terms.append((-np.exp(-bT[c] + bF[w[sj]]), sj, sx))
                rows.append((u, sj, sx, bool(sj == u and not any(R)), terms))
    return rows


def residual(gf, rows):
    worst = 0.
    for (u, sj, sx, isdiag, terms) in rows:
        tot = sum(coef * gf(tj, u, -x) for coef, tj, x in terms) - (1. if isdiag else 0.)
        worst = max(worst, abs(tot))
    return worst


def evaluate(case):
    name, icut, base = case['crystal'], case['icut'], case['base']
    crys, chem, sl, jn = catalog.network(name, icut)
    ent = {'sitelist': sl, 'jumpnetwork': jn, 'crys': crys, 'chem': chem}
    devs = [tuple(x) for x in case['devs']]
    d = inter.apply_devs(ent, inter.base_data(ent, base), devs)
    key = '{}/cut{};base={};dev={}'.format(name, icut, base, inter.dev_name(ent, devs))
    net = pair.Net(crys, chem, sl, jn)
    bF = d['betaene'] - np.log(d['pre']); bT = d['betaeneT'] - np.log(d['preT'])
    dim, N = crys.dim, net.N
    rr = 1 if case['tier'] == 'quick' else 2
    if N > 6: rr = 1
    rng = list(itertools.product(*[range(-rr, rr + 1)] * dim))
    rows = omega_rows(net, bF, bT, crys, rng)
    viols, ntr = [], 0
    gfs = {}
    for Nmax in ([4, 6] if case['refine'] else [4]) + ([8] if (case['refine'] and case['tier'] == 'thorough' and N <= 4) else []):
        gf = GFcalc.GFCrystalcalc(crys, chem, sl, jn, Nmax)
        gf.SetRates(d['pre'], d['betaene'], d['preT'], d['betaeneT'])
        gfs[Nmax] = gf
    gf = gfs[4]
    # (a) residual and refinement
    res = {Nmax: residual(g, rows) for Nmax, g in gfs.items()}
    ntr += len(rows) * len(gfs)
    # the fixed bound is calibrated on the base nodes (where the refinement oracle decides convergence); a deviation node gets
    # ten times the bound of its base, and none at all when the deviation is the +5 letter (rate ratio 150: the residual of
    # the default mesh reaches 0.4 on 2D two-site cells; without the refinement runs nothing can be decided there)
    strong = any(l == 2 for c, l in devs)
    rbound = (RBOUND_2D_MULTISITE if (dim == 2 and net.N >= 3) else RBOUND)[base] * (10. if devs else 1.)
    if not np.isfinite(res[4]) or (res[4] > rbound and not strong):
        viols.append({'oracle': 'residual', 'key': key, 'detail': {'residual': res, 'bound': rbound}})
    for a, b in ((4, 6), (6, 8)):
        if a in res and b in res and not (res[b] <= 0.6 * res[a] + 1e-9):
            viols.append({'oracle': 'refinement', 'key': key + ';Nmax={}->{}'.format(a, b), 'detail': {'residual': res}})
    tol = max(1e-9, 20 * res[4])
    # (b) endpoint symmetry  (c) group invariance
    gscale = abs(gf(0, 0, np.zeros(dim)))
    worst_b = worst_c = 0.
    G = list(crys.G)
    seen = set()
    for (u, sj, sx, isdiag, terms) in rows:
        k = (u, sj) + tuple(np.round(sx, 6))
        if k in seen: continue
        seen.add(k)
        g0 = gf(sj, u, -sx)          # from s to u: dx = x_u - x_s = -sx
        worst_b = max(worst_b, abs(g0 - gf(u, sj, sx)))
        ntr += 1
        for g in G:
            (Rs, (cs, js)) = crys.g_pos(g, np.zeros(dim, dtype=int), (chem, sj))
            (Ru, (cu, ju)) = crys.g_pos(g, np.zeros(dim, dtype=int), (chem, u))
            worst_c = max(worst_c, abs(g0 - gf(js, ju, crys.g_direc(g, -sx))))
            ntr += 1
    if worst_b > 1e-9 * gscale: viols.append({'oracle': 'endpoint-symmetry', 'key': key, 'detail': worst_b / gscale})
    if worst_c > 1e-9 * gscale: viols.append({'oracle': 'group-invariance', 'key': key, 'detail': worst_c / gscale})
    # (d) far field (3D)
    ff = None
    if dim == 3 and gf.Ndiff == 1 and base != 'G2' and not devs:      # base nodes only (deviation nodes: see the residual remark)
        # (base G2: rate ratios ~400 put the asymptotic regime beyond the quarter period of the default mesh:
        #  the property only claims the pole at separations the mesh resolves)
        D = gf.Diffusivity()
        rho = np.exp(-(bF[net.w] - bF.min())); rho /= rho.sum()
        Dinv = np.linalg.inv(D); pref = crys.volume / (4 * np.pi * np.sqrt(np.linalg.det(D)))
        ff = 0.
        for k in range(3):
            nmax = int(gf.kptgrid[k]) // 4
            errs = {}
            for n in range(1, nmax + 1):
                for i, j in ((0, 0), (0, N - 1)):
                    R = np.zeros(3); R[k] = n
                    x = crys.lattice @ (R + net.u[j] - net.u[i])
                    xD = np.sqrt(x @ Dinv @ x)
                    ratio = gf(i, j, x) / (-pref * np.sqrt(rho[i] * rho[j]) / xD)
                    errs[(n, i, j)] = abs(ratio - 1.)
                    ntr += 1
            worst_far = max(v for (n, i, j), v in errs.items() if n == nmax)
            ff = max(ff, worst_far)
            # 5%: the leading correction is O(1/|x|) when site biases exist (observed <= 1.2% at the quarter period)
            if worst_far > 0.05 + tol:
                viols.append({'oracle': 'far-field', 'key': key + ';direction={}'.format(k), 'detail': {'|ratio-1| at n={}'.format(nmax): worst_far}})
    # (f) independence of the calculator's history: the same instance after SetRates on other data must give what a
    #     fresh instance gives (bitwise: same arithmetic)
    other = inter.base_data(ent, 'G2' if base != 'G2' else 'T')
    g3 = GFcalc.GFCrystalcalc(crys, chem, sl, jn, 4)
    g3.SetRates(other['pre'], other['betaene'], other['preT'], other['betaeneT'])
    g3.SetRates(d['pre'], d['betaene'], d['preT'], d['betaeneT'])
    worst = 0.
    for (u, sj, sx, isdiag, terms) in rows[:max(30, len(rows) // 10)]:
        worst = max(worst, abs(g3(sj, u, -sx) - gf(sj, u, -sx)))
        ntr += 1
    if worst > 1e-12 * gscale or not np.array_equal(g3.Diffusivity(), gf.Diffusivity()):
        viols.append({'oracle': 'history-dependence', 'key': key, 'detail': {'max |g(reused) - g(fresh)| / scale': worst / gscale}})
    # (e) scaling
    for c in (2., 1e-3):
        g2 = GFcalc.GFCrystalcalc(crys, chem, sl, jn, 4)
        g2.SetRates(d['pre'], d['betaene'], d['preT'] * c, d['betaeneT'])
        worst = 0.
        for (u, sj, sx, isdiag, terms) in rows[:max(30, len(rows) // 10)]:
            worst = max(worst, abs(c * g2(sj, u, -sx) - gf(sj, u, -sx)))
            ntr += 1
        if worst > max(1e-9, 2 * tol) * gscale:
            viols.append({'oracle': 'rate-scaling', 'key': key + ';c={:g}'.format(c), 'detail': worst / gscale})
        eD = float(np.abs(g2.Diffusivity() - c * gf.Diffusivity()).max()) / (c * vm.tscale(gf.Diffusivity()))
        if eD > 1e-9: viols.append({'oracle': 'D-scaling', 'key': key + ';c={:g}'.format(c), 'detail': eD})
    return {'states': 1, 'transitions': ntr, 'execs': len(gfs) + 2, 'outcomes': ['{:.2e}'.format(res[4])], 'nontrivial': 0 if base == 'T' and not devs else 1,
            'violations': viols, 'sample': {'node': key, 'residual by Nmax': res, 'far-field |ratio-1| at quarter period': ff, 'disconnected networks': int(gf.Ndiff)}}
