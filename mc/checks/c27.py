"""
C27 -- Supercell symmetry operations are geometric site permutations, and equivalencemap is sound and complete.

E1 enumeration.  For every (crystal, supercell matrix) of a stated list:
  * group case: every g in sup.G is checked against geometry (brute-force position matching), the
    operations are pairwise distinct, and |G| equals (number of crystal operations whose rotation maps
    the superlattice onto itself, decided by an own float test) x (number of cells);
  * pair cases: ALL occupations with <= 2 point defects (vacancy, solute, interstitial; incl. none),
    ALL ordered pairs (A, B), and for every pair that is equivalent every reordering of B's chemorder
    from a stated menu.  Existence is decided by brute force (orbit of A.occ under the site
    permutations of sup.G, permutations verified geometrically in the group case); the returned
    (g, mapping) is replayed exactly with the documented convention.
"""
import itertools
import numpy as np
from onsager import crystal, supercell
from mc import catalog
from mc.refmodels import occ as R

PID = 'C27'
ENGINE = 'E1'
TECHNIQUE = ('exhaustive enumeration of <=2-defect occupation pairs on small supercells; brute-force orbit under sup.G '
             'as existence oracle; exact replay of returned (g, mapping); geometric verification of every group operation')
RULE = ('cases = (crystal, supercell matrix) x {group check, block of occupations A}; every A is paired with every '
        'occupation B (ordered pairs, incl. A=B and the defect-free cell); equivalent pairs are re-run for every '
        'reordering of B from the menu; nontrivial = ordered pairs with A.occ != B.occ that are equivalent (a '
        'non-identity permutation is needed)')
LEVEL_TEXT = ('bounded-exhaustive: every ordered pair of occupations with <=2 defects on the listed supercells; '
              'soundness and completeness of equivalencemap are decided, not sampled, inside these bounds')
ASSUMPTIONS = ['crys.G is the complete space group of the unit cell (C18); completeness of sup.G is relative to it',
               'Supercell.reorder / setocc behave as checked by C28 (used to build the inputs)',
               'solute name left at its default; antisites only for B2AB on cells of <= 3 unit cells (thorough tier)']

I3 = [[1, 0, 0], [0, 1, 0], [0, 0, 1]]
MATS = {
    'I': I3,
    '2I': [[2, 0, 0], [0, 2, 0], [0, 0, 2]],
    'd2rot': [[1, 1, 0], [-1, 1, 0], [0, 0, 1]],        # det 2
    'd2hnf': [[2, 1, 0], [0, 1, 0], [0, 0, 1]],         # det 2, breaks most point symmetry
    'dm2': [[1, 1, 0], [1, -1, 0], [0, 0, 1]],          # det -2 (left-handed supercell)
    'd3hex': [[2, 1, 0], [1, 2, 0], [0, 0, 1]],         # det 3 (sqrt3 x sqrt3 for hexagonal cells)
    'd3hnf': [[1, 0, 1], [0, 1, 1], [0, 0, 3]],         # det 3
    'd4cub': [[-1, 1, 1], [1, -1, 1], [1, 1, -1]],      # det 4 (conventional cube of the FCC primitive cell)
    'd4hnf': [[2, 0, 1], [0, 2, 1], [0, 0, 1]],         # det 4
}
CRYS = {  # name: interstitial tuple
    'FCC': (), 'HCP': (), 'B2AB': (), 'FCC_O': (1,),
    'B2AB+anti': (),      # B2AB with antisites (the other host species on a host site) as a fourth defect kind
    'FCC+2s': (), 'HCP+2s': (),   # TWO substitutional solute species, not named (both carry the default label '')
}
QUICK = [('FCC', 'I'), ('FCC', '2I'), ('FCC', 'd2rot'), ('FCC', 'd2hnf'), ('FCC', 'd3hnf'), ('FCC', 'd4cub'),
         ('HCP', 'I'), ('HCP', 'd2hnf'), ('HCP', 'd3hex'), ('HCP', 'dm2'),
         ('B2AB', 'I'), ('B2AB', 'd2rot'), ('B2AB', 'd3hnf'), ('B2AB', 'd4hnf'),
         ('FCC_O', 'I'), ('FCC_O', 'd2rot'), ('FCC_O', 'd3hnf'), ('FCC_O', 'd4cub'),
         ('FCC+2s', 'd3hnf'), ('FCC+2s', 'd4cub'), ('HCP+2s', 'd2hnf')]
THOROUGH = QUICK + [('FCC', 'dm2'), ('FCC', 'd3hex'), ('FCC', 'd4hnf'),
                    ('HCP', 'd2rot'), ('HCP', 'd3hnf'), ('HCP', 'd4hnf'), ('HCP', 'd4cub'),
                    ('B2AB', '2I'), ('B2AB', 'd2hnf'), ('B2AB', 'dm2'), ('B2AB', 'd4cub'),
                    ('FCC_O', '2I'), ('FCC_O', 'd2hnf'), ('FCC_O', 'dm2'), ('FCC_O', 'd4hnf'),
                    ('B2AB+anti', 'I'), ('B2AB+anti', 'd2rot'), ('B2AB+anti', 'd3hnf'), ('FCC+2s', '2I'), ('HCP+2s', 'd3hex')]
BLOCK = {'quick': 12, 'thorough': 12}
LONG_MENU = ('identity', 'reverse', 'rotate', 'swap01')   # for species lists longer than 3 entries
MAXV = 4                                                 # violations reported per oracle per case


def BOUNDS(tier):
    confs = QUICK if tier == 'quick' else THOROUGH
    return {'configs': ['{}:{}'.format(c, m) for c, m in confs], 'matrices': {m: MATS[m] for _, m in confs},
            'max_defects': 2, 'defect_kinds': ['vacancy on host site', 'solute (Nsolute=1; configs named +2s: two unnamed solute species) on host site',
                                                'interstitial species on interstitial site',
                                                'antisite (configs named +anti only)'],
            'pairs': 'all ordered pairs (A, B), no cut applied',
            'reorder_menu': 'per species list: all permutations if len<=3 else {}; full product over species, '
                            'applied to every equivalent pair; one non-identity reordering for non-equivalent pairs'
                            .format(list(LONG_MENU))}


# --------------------------------------------------------------------------- enumeration
def build(cname, mname):
    crys = catalog.get(cname.split('+')[0])
    sup = supercell.Supercell(crys, np.array(MATS[mname], dtype=int), interstitial=CRYS[cname], Nsolute=2 if cname.endswith('+2s') else 1)
    sup.antisites = cname.endswith('+anti')
    sup.nsol = 2 if cname.endswith('+2s') else 1
    return sup


def defect_alphabet(sup):
    """per site: the species that make it a defect.  Site indices are positions in sup.pos (translist x atomindices:
    independent of the hash seed)."""
    out = []
    for n in range(len(sup.pos)):
        c = sup.atomindices[n % sup.N][0]
        if c in sup.interstitial: out.append((n, c))
        else:
            out.append((n, -1))
            out.extend((n, sup.crys.Nchem + k) for k in range(getattr(sup, 'nsol', 1)))
            if getattr(sup, 'antisites', False):
                out.extend((n, c2) for c2 in range(sup.crys.Nchem) if c2 != c and c2 not in sup.interstitial)
    return out


def occupations(sup):
    """all defect sets with <= 2 defects on distinct sites, simplest first; each a list of [site, species]"""
    alpha = defect_alphabet(sup)
    occs = [[]] + [[list(d)] for d in alpha]
    for d1, d2 in itertools.combinations(alpha, 2):
        if d1[0] != d2[0]: occs.append([list(d1), list(d2)])
    return occs


def describe(sup, defects):
    if not defects: return 'perfect'
    name = lambda n, c: ('v' if c == -1 else 'i' if c in sup.interstitial else ('s' if c == sup.crys.Nchem else 's{}'.format(c - sup.crys.Nchem)) if c >= sup.crys.Nchem else 'a') + '@{}'.format(n)
    return '+'.join(name(n, c) for n, c in defects)


def realize(perfect, defects):
    s = perfect.copy()
    for n, c in defects: s.setocc(n, c)
    return s


def reorder_menu(lens):
    per = []
    for L in lens:
        if L <= 3: per.append([list(p) for p in itertools.permutations(range(L))])
        else:
            idn = list(range(L))
            per.append([idn, idn[::-1], idn[1:] + idn[:1], [1, 0] + idn[2:]])
    return [list(m) for m in itertools.product(*per)]


def cases(tier):
    confs = QUICK if tier == 'quick' else THOROUGH
    out = []
    for cname, mname in confs:
        sup = build(cname, mname)
        nocc = len(occupations(sup))
        out.append({'key': '{}:{}:group'.format(cname, mname), 'crystal': cname, 'matrix': mname, 'what': 'group',
                    'cost': 0.002 * len(sup.G) * len(sup.pos)})
        blk = max(2, min(BLOCK[tier], 1500 // max(1, nocc)))      # keep every case to a few thousand equivalencemap calls
        for a0 in range(0, nocc, blk):
            out.append({'key': '{}:{}:pairs:{}-{}'.format(cname, mname, a0, min(a0 + blk, nocc) - 1), 'crystal': cname,
                        'matrix': mname, 'what': 'pairs', 'a0': a0, 'a1': min(a0 + blk, nocc),
                        'cost': 1e-5 * blk * nocc * len(sup.G) ** 0.5})
    return out


# --------------------------------------------------------------------------- oracles
class Viol:
    def __init__(self, case):
        self.case, self.list, self.count = case, [], {}
        self.maxv = 10 ** 6 if case.get('what') == 'pair' else MAXV     # replay of one pair: report everything

    def add(self, oracle, key, detail, sub=None):
        self.count[oracle] = self.count.get(oracle, 0) + 1
        if self.count[oracle] > self.maxv: return
        v = {'oracle': oracle, 'key': key, 'detail': detail}
        if sub is not None: v['case'] = sub
        self.list.append(v)


def check_group(case):
    cname, mname = case['crystal'], case['matrix']
    pre = '{}:{}'.format(cname, mname)
    V = Viol(case)
    sup = build(cname, mname)
    labels, problems = R.site_labels(sup)
    for p in problems: V.add('sites', pre, p)
    nsites = len(sup.pos)
    # labels must agree with the documented indexing n -> atomindices[n % N]
    for n, ci in enumerate(labels):
        if ci is not None and ci != sup.atomindices[n % sup.N]:
            V.add('sites', pre + ':site{}'.format(n), 'geometry says {} but atomindices says {}'.format(ci, sup.atomindices[n % sup.N]))
    L = np.dot(sup.crys.lattice, np.array(MATS[mname], dtype=float))
    if not np.allclose(L, sup.lattice, atol=1e-12): V.add('sites', pre + ':lattice', 'sup.lattice != crys.lattice . superlatt')
    Linv = np.linalg.inv(L)
    ident, outcomes, seen = 0, set(), set()
    for g in sup.G:
        im = g.indexmap[0]
        # sort key for a stable description of the operation
        gk = 'rot={};trans={}'.format(np.array(g.rot).astype(int).tolist(), np.round(np.mod(np.round(g.trans, 9), 1.), 6).tolist())
        if len(g.indexmap) != 1 or len(im) != nsites or sorted(im) != list(range(nsites)):
            V.add('not-a-permutation', pre + ':' + gk, list(im)); continue
        gp = R.geometric_perm(sup.pos, g.rot, g.trans)
        if gp is None or list(im) != gp:
            V.add('indexmap-vs-geometry', pre + ':' + gk, {'indexmap': list(im), 'geometric': gp})
        if any(labels[im[i]] is not None and labels[i] is not None and labels[im[i]][0] != labels[i][0] for i in range(nsites)):
            V.add('chemistry-not-preserved', pre + ':' + gk, list(im))
        cr = np.dot(L, np.dot(g.rot, Linv))
        if not (np.allclose(cr, g.cartrot, atol=1e-9) and np.allclose(np.dot(cr, cr.T), np.eye(3), atol=1e-9)):
            V.add('cartrot', pre + ':' + gk, {'from rot': cr.tolist(), 'cartrot': np.array(g.cartrot).tolist()})
        fp = (tuple(np.array(g.rot).astype(int).flatten().tolist()),
              tuple(np.round(np.mod(np.round(g.trans, 7), 1.), 6).tolist()))
        if fp in seen: V.add('duplicate-op', pre + ':' + gk, 'two members of sup.G are the same operation')
        seen.add(fp)
        if list(im) == list(range(nsites)): ident += 1
        outcomes.add(tuple(im))
    ncomp = R.compatible_pointops(sup.crys, MATS[mname])
    if len(sup.G) != ncomp * sup.size:
        V.add('group-order', pre, {'len(G)': len(sup.G), 'compatible point operations': ncomp, 'size': sup.size})
    if sup.size != abs(int(round(np.linalg.det(np.array(MATS[mname], dtype=float))))):
        V.add('sites', pre + ':size', sup.size)
    return {'states': len(sup.G), 'transitions': len(sup.G) * nsites, 'execs': len(sup.G),
            'outcomes': ['{}:|G|={}:ncomp={}:perms={}'.format(pre, len(sup.G), ncomp, len(outcomes))],
            'nontrivial': len(sup.G) - ident, 'violations': V.list,
            'sample': {'config': pre, 'sites': nsites, 'len(G)': len(sup.G), 'compatible_pointops': ncomp,
                       'crystal_ops': len(sup.crys.G), 'distinct_site_permutations': len(outcomes)}}


def check_pair(sup, gperm, perfect, A, B, Adef, Bdef, Bmap, orbitA, pre, V, stats, subcase):
    """one call of A.equivalencemap(B) against the reference.  Bmap = reordering already applied to B (for the key)."""
    key = '{}:A={}:B={}'.format(pre, describe(sup, Adef), describe(sup, Bdef)) + ('' if Bmap is None else ':reorder={}'.format(Bmap))
    exists = tuple(int(x) for x in B.occ) in orbitA
    before = (R.state_of(A), R.state_of(B))
    try:
        g, mapping = A.equivalencemap(B)
    except Exception as e:
        V.add('exception', key, '{}: {} (reference: equivalent={})'.format(type(e).__name__, e, exists), subcase)
        return None
    stats['execs'] += 1
    if (R.state_of(A), R.state_of(B)) != before:
        V.add('inputs-mutated', key, 'equivalencemap changed one of its arguments', subcase)
    if g is None:
        if mapping is not None: V.add('half-none', key, 'g is None but mapping is {}'.format(mapping), subcase)
        if exists: V.add('incomplete', key, 'an operation of sup.G maps A.occ onto B.occ but (None, None) was returned', subcase)
        return False
    if not exists:
        V.add('unsound-existence', key, 'an operation was returned but no member of sup.G maps A.occ onto B.occ', subcase)
        return True
    if not any(g is h for h in sup.G) and g not in sup.G:
        V.add('foreign-op', key, 'returned operation is not a member of sup.G', subcase)
        return True
    # reference image of A under the *geometric* permutation of g
    gp = gperm.get(id(g))
    if gp is None:
        gp = R.geometric_perm(sup.pos, g.rot, g.trans); gperm[id(g)] = gp
    mA = R.ROcc.of(A)
    img = mA.permuted(gp)
    gA = g * A
    if R.state_of(gA) != img.key():
        V.add('mul-vs-model', key, {'g*A': R.state_of(gA), 'model': img.key()}, subcase)
    if img.occtuple() != tuple(int(x) for x in B.occ):
        V.add('unsound-op', key, {'(g*A).occ': img.occtuple(), 'B.occ': [int(x) for x in B.occ]}, subcase)
        return True
    # mapping convention: (g*A).chemorder[c][mapping[c][i]] == B.chemorder[c][i]
    ok = isinstance(mapping, list) and len(mapping) == len(B.chemorder)
    if ok:
        for c, (cm, bl) in enumerate(zip(mapping, B.chemorder)):
            if sorted(cm) != list(range(len(bl))): ok = False; break
            if any(img.order[c][cm[i]] != bl[i] for i in range(len(bl))): ok = False; break
    if not ok:
        V.add('mapping-wrong', key, {'mapping': mapping, '(g*A).chemorder': img.order, 'B.chemorder': [list(map(int, l)) for l in B.chemorder]}, subcase)
        return True
    try:
        gAr = gA.reorder(mapping)
        if not (gAr == B) or (gAr != B) or R.state_of(gAr) != R.state_of(B):
            V.add('replay-differs', key, {'(g*A).reorder(mapping)': R.state_of(gAr), 'B': R.state_of(B)}, subcase)
    except Exception as e:
        V.add('replay-raises', key, '{}: {}'.format(type(e).__name__, e), subcase)
    stats['outcomes'].add((len(Adef), len(Bdef), list(gp) == list(range(len(gp))), all(cm == list(range(len(cm))) for cm in mapping)))
    return True


def run_pairs(case, only=None):
    cname, mname = case['crystal'], case['matrix']
    pre = '{}:{}'.format(cname, mname)
    V = Viol(case)
    sup = build(cname, mname)
    perfect = R.make_perfect(sup)
    occs = occupations(sup)
    P = np.array([g.indexmap[0] for g in sup.G], dtype=int)      # verified against geometry in the group case
    rows = np.arange(len(P))[:, None]
    gperm = {}
    stats = {'execs': 0, 'outcomes': set()}
    pairs = nontrivial = reorders = 0
    Bs = [realize(perfect, d) for d in occs]
    Bocc = [tuple(int(x) for x in b.occ) for b in Bs]
    menus = {}
    alist = range(case['a0'], case['a1']) if only is None else [only[0]]
    for ia in alist:
        Adef = occs[ia]
        A = realize(perfect, Adef)
        img = np.empty((len(P), len(sup.pos)), dtype=int)
        img[rows, P] = np.array(A.occ, dtype=int)[None, :]
        orbitA = set(map(tuple, img.tolist()))
        blist = range(len(occs)) if only is None else [only[1]]
        for ib in blist:
            Bdef, B = occs[ib], Bs[ib]
            sub = {'key': case['key'], 'crystal': cname, 'matrix': mname, 'what': 'pair', 'pair': [ia, ib]}
            found = check_pair(sup, gperm, perfect, A, B, Adef, Bdef, None, orbitA, pre, V, stats, sub)
            pairs += 1
            if found and Bocc[ib] != tuple(int(x) for x in A.occ): nontrivial += 1
            lens = tuple(len(l) for l in B.chemorder)
            if lens not in menus: menus[lens] = reorder_menu(lens)
            menu = menus[lens][1:]                     # [0] is the identity, already done
            if found is None: menu = []                # the call raised: reported once, reorderings add nothing
            elif not found: menu = menu[-1:]           # non-equivalent: one reordering, must stay (None, None)
            for m in menu:
                B2 = B.copy().reorder(m)
                want = R.ROcc.of(B).reordered(m)
                if R.state_of(B2) != want.key(): raise RuntimeError('explorer: reorder did not build the intended B')
                check_pair(sup, gperm, perfect, A, B2, Adef, Bdef, m, orbitA, pre, V, stats, dict(sub, reorder=m))
                reorders += 1
    return {'states': len(alist), 'transitions': pairs + reorders, 'execs': stats['execs'],
            'outcomes': ['{}:{}'.format(pre, o) for o in stats['outcomes']], 'nontrivial': nontrivial,
            'violations': V.list,
            'sample': {'config': pre, 'occupations': len(occs), 'A_block': [alist[0], alist[-1]], 'ordered_pairs': pairs,
                       'equivalent_nonidentical_pairs': nontrivial, 'reordered_calls': reorders, 'len(G)': len(sup.G)}}


def evaluate(case):
    if case['what'] == 'group': return check_group(case)
    if case['what'] == 'pair':      # replay of a single pair (optionally one reordering)
        res = run_pairs(case, only=case['pair'])
        if 'reorder' in case:
            want = ':reorder={}'.format(case['reorder'])
            res['violations'] = [v for v in res['violations'] if v['key'].endswith(want)]
        else:
            res['violations'] = [v for v in res['violations'] if ':reorder=' not in v['key']]
        return res
    return run_pairs(case)
