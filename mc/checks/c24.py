"""
C24 -- star sets are complete symmetry orbits of reachable pair states.

Explorer E1 (input lattice): catalogue crystal x jump cutoff x shell count N x origin-state flag, plus every
sum S(N1)+S(N2) / S(N1)+=S(N2) with N1+N2 <= 3 and every difference set diffgenerate(S(N1),S(N2)).
Reference: mc/refmodels/pairstates.py -- literal breadth-first reachability over (solute site, vacancy site,
cell), union-find orbits under the operations of crys.G acting on plain (i,j,R) tuples.  All comparisons exact.
"""
import numpy as np
from onsager import crystalStars as stars
from mc import catalog
from mc.refmodels import pairstates as ps

PID = 'C24'
ENGINE = 'E1'
TECHNIQUE = ('exhaustive enumeration of catalogue networks x shells x origin flag; real StarSet compared state by '
             'state with an independent BFS reachability model and union-find symmetry orbits (exact)')
RULE = ('case = (crystal, cutoff index, mode); mode gen: one StarSet(N, originstates) ; mode add: all (N1,N2,flag) '
        'with N1+N2<=3 by + and by += in both operand orders; mode diff: diffgenerate(S(N1,o1),S(N2,o2)). '
        'nontrivial = star sets / sums / difference sets that have a star with >=2 states and >=2 stars')
LEVEL_TEXT = ('bounded-exhaustive: every catalogue network, every N up to the bound; reachability and orbit '
              'structure are finite combinatorial objects decided exactly per input')
LEVEL_NOTE = 'crys.G (rot, trans, indexmap) is trusted as the definition of the space group (checked by C18)'
ASSUMPTIONS = ['crys.G is the symmetry group (C18)', 'crys.jumpnetwork lists every jump in both directions (C21)',
               'sums of star sets with different origin-state flags are not prescribed and not enumerated',
               'difference sets are only required to CONTAIN the endpoint differences (extra states are not a violation)']

CAP = {'quick': 400, 'thorough': 1200}          # max number of states of the largest set built in a case
DIFFCAP = {'quick': 40000, 'thorough': 400000}  # max |S1| x |S2| for diffgenerate


def _nets(tier):
    out = []
    for name in catalog.names():
        m = catalog.meta(name)
        if m.get('disconnected') and tier == 'quick': continue
        for ic in range(len(m['cut'])): out.append((name, ic))
    return out


def _NS(tier): return (1, 2) if tier == 'quick' else (1, 2, 3)


def BOUNDS(tier):
    return {'crystals': sorted(set(n for n, _ in _nets(tier))), 'networks': len(_nets(tier)),
            'Nshells': list(_NS(tier)), 'originstates': [False, True],
            'sum_pairs': 'all (N1,N2) in 0..3 with 1<=N1+N2<=3, flags equal, by + and +=',
            'diff_pairs': 'N1,N2 in {1,2} (thorough: also 3) x origin flags (off,off),(on,on),(off,on)',
            'state_cap': CAP[tier], 'diff_pair_cap': DIFFCAP[tier],
            'not_enumerated_over_cap': _skips(tier),
            'absent_state_probes': 'zero states (if not requested), 3 states of shell N+1, one far state'}


def _skips(tier):
    """sub-cases that are outside the enumerated space because a state set exceeds the stated cap (own BFS counts)"""
    out = []
    for name, ic in _nets(tier):
        crys, chem, sl, jn = catalog.network(name, ic)
        M = ps.PairModel(crys, chem, jn)
        n = {N: len(M.reach(N, True)) for N in (1, 2, 3)}
        for N in _NS(tier):
            if n[N] > CAP[tier]: out.append('{}:c{}:gen:N{}'.format(name, ic, N))
        for N in (1, 2, 3):
            if n[N] > CAP[tier]: out.append('{}:c{}:add:N1+N2={}'.format(name, ic, N))
        for N1 in _NS(tier):
            for N2 in _NS(tier):
                if n[N1] * n[N2] > DIFFCAP[tier] or max(n[N1], n[N2]) > CAP[tier]:
                    out.append('{}:c{}:diff:N{}:N{}'.format(name, ic, N1, N2))
    return out


def cases(tier):
    out = []
    for name, ic in _nets(tier):
        for N in _NS(tier):
            for o in (0, 1):
                out.append({'key': '{}:c{}:gen:N{}:o{}'.format(name, ic, N, o), 'name': name, 'icut': ic, 'mode': 'gen',
                            'N': N, 'origin': o, 'tier': tier, 'cost': N * 3 + o})
        out.append({'key': '{}:c{}:add'.format(name, ic), 'name': name, 'icut': ic, 'mode': 'add', 'tier': tier, 'cost': 12})
        out.append({'key': '{}:c{}:diff'.format(name, ic), 'name': name, 'icut': ic, 'mode': 'diff', 'tier': tier, 'cost': 14})
    return out


# ------------------------------------------------------------------------------------------------ helpers
def snapshot(S):
    """hash-seed independent, value-only description of a StarSet (used for equality and aliasing tests)"""
    st = [ps.from_pairstate(x) for x in S.states]
    return (int(S.Nshells), tuple(st), tuple(sorted(tuple(sorted(st[i] for i in star)) for star in S.stars)),
            tuple(int(i) for i in S.index), tuple(ps.from_pairstate(x) for x in S.jumplist),
            tuple(tuple(l) for l in S.jumpnetwork_index),
            tuple(sorted((ps.from_pairstate(k), (int(v[0]), int(v[1]))) for k, v in S.indexdict.items())))


def fresh(crys, chem, s):
    return stars.PairState.fromcrys_latt(crys, chem, (s[0], s[1]), np.array(s[2], dtype=int))


class Ctx:
    def __init__(self, case):
        self.name, self.ic = case['name'], case['icut']
        self.crys, self.chem, self.sitelist, self.jn = catalog.network(self.name, self.ic)
        self.M = ps.PairModel(self.crys, self.chem, self.jn)
        self.seen, self.per = set(), {}
        self.ncmp = 0
        self.case = case
        self._reach, self._orb = {}, {}

    def reach(self, N, o):
        k = (N, bool(o))
        if k not in self._reach: self._reach[k] = self.M.reach(N, bool(o))
        return self._reach[k]

    def bad(self, oracle, sub, what, detail=None):
        key = '{}:c{}:{}:{}'.format(self.name, self.ic, sub, what)
        if (oracle, key) in self.seen: return
        self.seen.add((oracle, key))
        self.per.setdefault(oracle, []).append({'oracle': oracle, 'key': key, 'detail': detail, 'case': self.case})

    @property
    def viol(self):
        """at most 4 signatures per oracle and case: the lexicographically smallest keys (hash-seed independent choice)"""
        out = []
        for o in sorted(self.per): out += sorted(self.per[o], key=lambda v: v['key'])[:4]
        return out

    def build(self, N, o):
        return stars.StarSet(self.jn, self.crys, self.chem, N, originstates=bool(o))


def check_partition(cx, S, want, sub, closed_required=True):
    """stars of S == union-find orbits of the state set `want` (which must equal S's state set)"""
    M = cx.M
    st = [ps.from_pairstate(x) for x in S.states]
    rep, cl, escaped = M.orbits(want)
    if escaped and closed_required:
        s, t = min(escaped)
        cx.bad('not-closed', sub, 'image-outside:' + M.desc(s) + '->' + M.desc(t))
    covered = []
    for star in S.stars:
        mem = sorted(st[i] for i in star)
        covered += mem
        cx.ncmp += 1
        if not mem: cx.bad('stars', sub, 'empty-star'); continue
        if mem[0] not in rep: continue   # reported by the state-set oracle
        orb = cl[rep[mem[0]]]
        if mem != orb:
            miss = sorted(set(orb) - set(mem)); extra = sorted(set(mem) - set(orb))
            what = ('incomplete-orbit-of:' + M.desc(orb[0]) + ':lacks:' + M.desc(miss[0])) if miss else \
                   ('merged-orbits:' + M.desc(orb[0]) + ':with:' + M.desc(extra[0])) if extra else \
                   ('duplicate-member:' + M.desc(orb[0]))
            cx.bad('stars', sub, what, {'star': [M.desc(s) for s in mem], 'orbit': [M.desc(s) for s in orb]})
    if sorted(covered) != sorted(st):
        cx.bad('stars', sub, 'stars-do-not-partition-states', {'in_stars': len(covered), 'states': len(st)})
    if S.Nstars != len(S.stars) or (len(st) > 0 and len(S.stars) != len(cl)):
        cx.bad('stars', sub, 'star-count', {'Nstars': int(S.Nstars), 'len': len(S.stars), 'orbits': len(cl)})
    return cl


def check_states(cx, S, want, sub, superset_only=False):
    M = cx.M
    st = [ps.from_pairstate(x) for x in S.states]
    got = set(st)
    cx.ncmp += 1
    if len(got) != len(st): cx.bad('stateset', sub, 'duplicate-states', {'n': len(st), 'distinct': len(got)})
    if S.Nstates != len(st): cx.bad('stateset', sub, 'Nstates', {'Nstates': int(S.Nstates), 'len': len(st)})
    miss = sorted(want - got)
    if miss: cx.bad('stateset', sub, 'missing:' + M.desc(miss[0]), {'n_missing': len(miss), 'first': [M.desc(s) for s in miss[:5]]})
    extra = sorted(got - want)
    if extra and not superset_only:
        cx.bad('stateset', sub, 'extra:' + M.desc(extra[0]), {'n_extra': len(extra), 'first': [M.desc(s) for s in extra[:5]]})
    # Cartesian vector carried by every state: tolerance 1e-9 (sums of <= 4 lattice-scale vectors, round-off 1e-15)
    for x, s in zip(S.states, st):
        cx.ncmp += 1
        if np.max(np.abs(np.asarray(x.dx) - M.dx(s))) > 1e-9:
            cx.bad('state-dx', sub, M.desc(s), {'pkg': list(map(float, x.dx))}); break
    return got


def check_index(cx, S, sub, absent):
    M = cx.M
    st = [ps.from_pairstate(x) for x in S.states]
    starof = {}
    for si, star in enumerate(S.stars):
        for i in star: starof.setdefault(i, []).append(si)
    for xi, (x, s) in enumerate(zip(S.states, st)):
        cx.ncmp += 1
        y = fresh(cx.crys, cx.chem, s)    # an equal state built independently: lookups are by value
        got = (S.stateindex(x), S.starindex(x), S.stateindex(y), S.starindex(y), int(S.index[xi]), x in S, y in S)
        exp_star = starof.get(xi, [None])
        ok = (got[0] == xi and got[2] == xi and len(exp_star) == 1 and got[1] == exp_star[0] and got[3] == exp_star[0]
              and got[4] == exp_star[0] and got[5] is True and got[6] is True)
        if not ok:
            cx.bad('index', sub, 'present:' + M.desc(s), {'state_position': xi, 'stars_containing': exp_star,
                                                        'stateindex,starindex,(fresh)x2,index[],in,in': [str(g) for g in got]})
            break
    have = set(st)
    for s in absent:
        if s in have: continue
        cx.ncmp += 1
        y = fresh(cx.crys, cx.chem, s)
        got = (S.stateindex(y), S.starindex(y), y in S)
        if got != (None, None, False):
            cx.bad('index', sub, 'absent:' + M.desc(s), {'stateindex,starindex,in': [str(g) for g in got]})


def absent_probes(cx, N, o):
    M = cx.M
    out = [M.zero(i) for i in range(M.Ns)]
    out += sorted(cx.reach(N + 1, False) - cx.reach(N, False))[:3]
    out.append((0, M.Ns - 1, (7,) * M.dim))
    return out


def digest_of(S, M):
    st = [ps.from_pairstate(x) for x in S.states]
    return 'n{}:s{}:{}'.format(len(st), len(S.stars), ','.join(str(len(x)) for x in sorted(S.stars, key=len))[:60])


def nontriv(S):
    return 1 if (len(S.stars) >= 2 and max(len(x) for x in S.stars) >= 2) else 0


# ------------------------------------------------------------------------------------------------ modes
def eval_gen(cx, N, o, res):
    sub = 'gen:N{}:o{}'.format(N, o)
    want = cx.reach(N, o)
    S = cx.build(N, o)
    res['execs'] += 1
    check_states(cx, S, want, sub)
    check_partition(cx, S, want, sub)
    check_index(cx, S, sub, absent_probes(cx, N, o))
    # two-step route: empty set, then generate()
    S2 = stars.StarSet(cx.jn, cx.crys, cx.chem)
    S2.generate(N, originstates=bool(o))
    res['execs'] += 1
    if snapshot(S2)[1:4] != snapshot(S)[1:4]:
        cx.bad('route', sub, 'constructor-vs-generate', None)
    # lattice-vector form of the jump network
    S3 = stars.StarSet(cx.crys.jumpnetwork2lattice(cx.chem, cx.jn), cx.crys, cx.chem, N, originstates=bool(o), lattice=True)
    res['execs'] += 1
    check_states(cx, S3, want, sub + ':latticeform')
    # copy(): equal, and independent of the original
    before = snapshot(S)
    c = S.copy()
    res['execs'] += 1
    if snapshot(c) != before: cx.bad('copy', sub, 'copy-differs')
    c2 = S.copy()
    try:
        c2.generate(N + 1, originstates=not o)       # regenerate one copy ...
        c.states.append(c.states[0]); c.stars[0].append(0); c.stars.append([0]); c.index[0] = c.Nstars + 5
        c.indexdict.clear(); c.jumplist.pop(); c.jumpnetwork_index[0].append(99)   # ... edit the other in place
    except Exception as e:
        cx.bad('copy', sub, 'editing-copy-raised', repr(e))
    if snapshot(S) != before: cx.bad('copy', sub, 'copy-aliased')
    if len(cx.reach(N + 1, not o)) <= CAP['thorough']:
        check_states(cx, c2, cx.reach(N + 1, not o), sub + ':copy-regenerated')
    res['states'] += len(S.states)
    res['outcomes'].append(digest_of(S, cx.M))
    res['nontrivial'] += nontriv(S)


def eval_add(cx, tier, res):
    cap = CAP[tier]
    pairs = [(a, b) for a in range(4) for b in range(4) if 1 <= a + b <= 3]
    for o in (0, 1):
        ref = {}
        for (a, b) in pairs:
            n = a + b
            if len(cx.reach(n, 1)) > cap:
                res['skipped'].append('add:N{}+N{}:o{}'.format(a, b, o)); continue
            if n not in ref:
                ref[n] = cx.build(n, o); res['execs'] += 1
            G = ref[n]
            want = cx.reach(n, o)
            for how in ('+', '+='):
                sub = 'add:N{}{}N{}:o{}'.format(a, how, b, o)
                A, B = cx.build(a, o), cx.build(b, o)
                sa, sb = snapshot(A), snapshot(B)
                try:
                    if how == '+':
                        T = A + B
                        if snapshot(A) != sa or snapshot(B) != sb: cx.bad('add-aliasing', sub, 'operand-changed')
                    else:
                        T = A.copy(); T += B
                        if snapshot(A) != sa or snapshot(B) != sb: cx.bad('add-aliasing', sub, 'operand-changed')
                except Exception as e:
                    cx.bad('exception', sub, type(e).__name__, repr(e)); continue
                res['execs'] += 1
                if T.Nshells != n: cx.bad('add', sub, 'Nshells', int(T.Nshells))
                check_states(cx, T, want, sub)
                check_partition(cx, T, want, sub)
                check_index(cx, T, sub, absent_probes(cx, n, o))
                # same partition as generate(n)
                p1 = snapshot(T)[2]; p2 = snapshot(G)[2]
                cx.ncmp += 1
                if p1 != p2: cx.bad('add', sub, 'partition-differs-from-generate')
                # the sum must be usable afterwards: editing it must not reach the operands
                try:
                    T.stars[0].append(0); T.states.append(T.states[0]); T.indexdict.clear(); T.index[:] = 0
                except Exception as e:
                    cx.bad('add-aliasing', sub, 'editing-sum-raised', repr(e))
                if snapshot(A) != sa or snapshot(B) != sb: cx.bad('add-aliasing', sub, 'sum-aliased-to-operand')
                res['states'] += len(want)
                res['outcomes'].append('add:' + digest_of(G, cx.M))
                res['nontrivial'] += nontriv(G)


def eval_diff(cx, tier, res):
    M = cx.M
    Ns = (1, 2) if tier == 'quick' else (1, 2, 3)
    for N1 in Ns:
        for N2 in Ns:
            for (o1, o2) in ((0, 0), (1, 1), (0, 1)):
                sub = 'diff:N{}o{}:N{}o{}'.format(N1, o1, N2, o2)
                R1, R2 = cx.reach(N1, o1), cx.reach(N2, o2)
                if len(cx.reach(N1, 1)) * len(cx.reach(N2, 1)) > DIFFCAP[tier] or max(len(cx.reach(N1, 1)), len(cx.reach(N2, 1))) > CAP[tier]:
                    res['skipped'].append(sub); continue
                S1, S2 = cx.build(N1, o1), cx.build(N2, o2)
                s1b, s2b = snapshot(S1), snapshot(S2)
                D = S1.copy(empty=True)
                try:
                    D.diffgenerate(S1, S2)
                except Exception as e:
                    cx.bad('exception', sub, type(e).__name__, repr(e)); continue
                res['execs'] += 1
                want = set()
                for a in R1:
                    for b in R2:
                        d = M.enddiff(a, b)
                        if d is not None: want.add(d)
                got = check_states(cx, D, want, sub, superset_only=True)
                res['transitions'] += len(R1) * len(R2)
                check_partition(cx, D, got, sub)
                check_index(cx, D, sub, [(0, M.Ns - 1, (9,) * M.dim)])
                if snapshot(S1) != s1b or snapshot(S2) != s2b: cx.bad('diff-aliasing', sub, 'operand-changed')
                res['states'] += len(got)
                res['outcomes'].append('diff:' + digest_of(D, M))
                res['nontrivial'] += nontriv(D)


def evaluate(case):
    cx = Ctx(case)
    res = {'states': 0, 'transitions': 0, 'execs': 0, 'outcomes': [], 'nontrivial': 0, 'capped': False, 'skipped': []}
    tier = case.get('tier', 'quick')
    if case['mode'] == 'gen':
        N, o = case['N'], case['origin']
        if len(cx.reach(N, 1)) > CAP[tier]:
            res['skipped'].append('gen')
        else:
            eval_gen(cx, N, o, res)
    elif case['mode'] == 'add':
        eval_add(cx, tier, res)
    elif case['mode'] == 'diff':
        eval_diff(cx, tier, res)
    else:
        raise KeyError(case['mode'])
    res['transitions'] += cx.ncmp
    res['violations'] = cx.viol
    res['sample'] = {'case': case['key'], 'skipped': res.pop('skipped'), 'outcomes': res['outcomes'][:4]}
    return res
