"""
Small helpers for Interstitial-calculator nodes used by the metamorphic checks C03/C04/C05
(the exact-diffusivity oracle for interstitials lives in C02 / refmodels/chain1.py).
"""
import itertools
import numpy as np
from onsager import OnsagerCalc
from mc import catalog
from mc.vm import hval

_INT = {}
INTER_CRYSTALS = [('FCC_O', 0), ('FCC_T', 0), ('FCC_OT', 0), ('FCC_OT', 2), ('BCC_O', 0), ('BCC_T', 0), ('HCP_OT', 0), ('HCP_OT', 1),
                  ('HONEY', 0), ('ROMEGA', 0), ('RUMPLED2', 0), ('WURTZ2', 0), ('P1', 1), ('RECTM', 0), ('HEXM', 1), ('KAGOME', 0),
                  ('P1_3', 0), ('PMMM_G', 0), ('P2MM_G', 0), ('OBL3', 0), ('POLAR4', 0), ('POLAR4', 1), ('PM2D', 0), ('PM2D', 1), ('TET4I', 0)]


def calculator(name, icut):
    k = (name, icut)
    if k not in _INT:
        from mc.refmodels import chain1      # POLAR4 / PM2D live there
        crys, chem, sl, jn = chain1.network(catalog, name, icut)
        _INT[k] = {'calc': OnsagerCalc.Interstitial(crys, chem, sl, jn), 'crys': crys, 'chem': chem, 'sitelist': sl, 'jumpnetwork': jn}
    return _INT[k]


def class_keys(ent):
    rd = lambda dx: tuple(int(round(x * 1e4)) for x in dx)
    return {'site': [('site', min(w)) for w in ent['sitelist']],
            'jump': [('jump',) + min((i, j) + rd(dx) for (i, j), dx in jl) for jl in ent['jumpnetwork']]}


def coordinates(ent):
    keys = class_keys(ent)
    out = []
    for kind in ('site', 'jump'):
        out += [(kind, n) for n in sorted(range(len(keys[kind])), key=lambda n: keys[kind][n])]
    return out


def base_data(ent, base):
    keys = class_keys(ent)
    amp = {'T': 0.0, 'G1': 1.0, 'G2': 6.0, 'X': 36.0}[base]
    off = {'T': 1.0, 'G1': 1.0, 'G2': 3.0, 'X': 18.0}[base]
    # G2 carries generic prefactors exp(+-0.5) as well (the other bases have unit prefactors)
    gp = (lambda ks: np.exp(np.array([hval(k, 'G2:pre') for k in ks]))) if base == 'G2' else (lambda ks: np.ones(len(ks)))
    return {'pre': gp(keys['site']), 'betaene': np.array([amp * hval(k, base) for k in keys['site']]),
            'preT': gp(keys['jump']), 'betaeneT': np.array([amp * hval(k, base) + off for k in keys['jump']])}


LETTERS = [('ene', -np.log(2.)), ('ene', np.log(3.)), ('ene', 5.0), ('pre', 2.0), ('pre', 1. / 3.)]
LETTER_NAMES = ['E-ln2', 'E+ln3', 'E+5', 'P*2', 'P/3']


def apply_devs(ent, d, devs):
    coords = coordinates(ent)
    d = {k: v.copy() for k, v in d.items()}
    for ci, li in devs:
        kind, n = coords[ci]
        what, val = LETTERS[li]
        ene, pre = ('betaene', 'pre') if kind == 'site' else ('betaeneT', 'preT')
        if what == 'ene': d[ene][n] += val
        else: d[pre][n] *= val
    return d


def dev_name(ent, devs):
    coords = coordinates(ent); keys = class_keys(ent)
    return '+'.join('{}:{}'.format('.'.join(str(x) for x in keys[coords[c][0]][coords[c][1]]), LETTER_NAMES[l]) for c, l in devs) or 'base'


def D(ent, d):
    args = (d['pre'], d['betaene'], d['preT'], d['betaeneT'])
    before = [np.array(x, copy=True) for x in args]
    out = np.array(ent['calc'].diffusivity(*args), dtype=float)
    if any(not np.array_equal(a, np.asarray(b)) for a, b in zip(before, args)):
        # the caller's arrays were changed: a second call on 'the same arrays' must still give the same answer
        out2 = np.array(ent['calc'].diffusivity(*args), dtype=float)
        if np.abs(out - out2).max() > 1e-12 * max(np.abs(out).max(), 1e-300):
            raise AssertionError('diffusivity modified its argument arrays in place and a second call with the same arrays differs')
    return out
