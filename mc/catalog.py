"""
Crystal catalogue: the configuration alphabet (DESIGN §5.1).  Every entry is a function returning a
fresh onsager Crystal; META carries the mobile species, jump cutoffs (one per neighbour-shell
interval, smallest first) and flags.
"""
import numpy as np
from onsager import crystal

s3 = np.sqrt(3.)
HEX = np.array([[0.5, 0.5, 0.], [-s3 / 2, s3 / 2, 0.], [0., 0., 1.]])
HEX2 = np.array([[0.5, 0.5], [-s3 / 2, s3 / 2]])
FCCL = np.array([[0., 0.5, 0.5], [0.5, 0., 0.5], [0.5, 0.5, 0.]])
BCCL = np.array([[-0.5, 0.5, 0.5], [0.5, -0.5, 0.5], [0.5, 0.5, -0.5]])
A = np.array


def hexl(ca): return HEX * np.array([1., 1., ca])[None, :] if False else np.dot(HEX, np.diag([1., 1., ca]))


def _pyrope():
    alatt = BCCL.copy()
    invlatt = np.array([[0, 1, 1], [1, 0, 1], [1, 1, 0]])
    uMg = ((1 / 8, 0, 1 / 4), (3 / 8, 0, 3 / 4), (1 / 4, 1 / 8, 0), (3 / 4, 3 / 8, 0),
           (0, 1 / 4, 1 / 8), (0, 3 / 4, 3 / 8), (7 / 8, 0, 3 / 4), (5 / 8, 0, 1 / 4),
           (3 / 4, 7 / 8, 0), (1 / 4, 5 / 8, 0), (0, 3 / 4, 7 / 8), (0, 1 / 4, 5 / 8))
    return crystal.Crystal(alatt, [[np.dot(invlatt, w) for w in uMg]], ['Mg'])


# name: (constructor, dict(chem=mobile species, cut=[cutoffs], dim, flags...))
CAT = {
    # ---- 3D Bravais
    'SC': (lambda: crystal.Crystal(np.eye(3), [np.zeros(3)]), dict(chem=0, cut=[1.01, 1.45])),
    'FCC': (lambda: crystal.Crystal.FCC(1.), dict(chem=0, cut=[0.75, 1.01])),
    'BCC': (lambda: crystal.Crystal.BCC(1.), dict(chem=0, cut=[0.9, 1.01])),
    'TET': (lambda: crystal.Crystal(np.diag([1., 1., 1.2]), [np.zeros(3)]), dict(chem=0, cut=[1.01, 1.21])),
    'BCT': (lambda: crystal.Crystal(np.dot(BCCL, np.eye(3)) * A([1., 1., 1.3])[:, None], [np.zeros(3)]),
            dict(chem=0, cut=[0.97, 1.01])),
    'ORTH': (lambda: crystal.Crystal(np.diag([1., 1.1, 1.25]), [np.zeros(3)]), dict(chem=0, cut=[1.01, 1.11, 1.26])),
    'MONO': (lambda: crystal.Crystal(A([[1., 0., 1.2 * np.cos(np.radians(100.))], [0., 1.1, 0.],
                                        [0., 0., 1.2 * np.sin(np.radians(100.))]]), [np.zeros(3)]),
             dict(chem=0, cut=[1.01, 1.11, 1.21])),
    'TRIC': (lambda: crystal.Crystal(A([[1., 0.21, 0.17], [0., 1.1, 0.33], [0., 0., 1.23]]), [np.zeros(3)]),
             dict(chem=0, cut=[1.01, 1.13, 1.3], note='cut index 2 is the first that percolates in 3D')),
    'RHOM': (lambda: crystal.Crystal(A([[1., 0.3, 0.3], [0.3, 1., 0.3], [0.3, 0.3, 1.]]), [np.zeros(3)]),
             dict(chem=0, cut=[1.05, 1.15])),
    'HEXP': (lambda: crystal.Crystal(hexl(1.1), [np.zeros(3)]), dict(chem=0, cut=[1.01, 1.11])),
    # ---- 3D multi-site
    'HCP': (lambda: crystal.Crystal.HCP(1.), dict(chem=0, cut=[1.01])),
    'HCP15': (lambda: crystal.Crystal.HCP(1., 1.5), dict(chem=0, cut=[0.96, 1.01])),
    'DIAMOND': (lambda: crystal.Crystal(FCCL, [A([0., 0., 0.]), A([0.25, 0.25, 0.25])]), dict(chem=0, cut=[0.45, 0.75])),
    'OMEGA': (lambda: crystal.Crystal(hexl(np.sqrt(3 / 8)), [np.zeros(3), A([1 / 3, 2 / 3, 0.5]), A([2 / 3, 1 / 3, 0.5])]),
              dict(chem=0, cut=[0.7], multiwyckoff=True)),
    # omega with coordinates as they come out of a relaxation (good to 1e-5), symmetry threshold 1e-4, origin atom listed last:
    # the symmetry operations carry the noise in their translations, images of the atom at 0 land at -delta
    'OMEGA_N': (lambda: crystal.Crystal(hexl(np.sqrt(3 / 8)), [A([0.33334, 0.66665, 0.50001]), A([0.66667, 0.33332, 0.49999]), np.zeros(3)],
                                        threshold=1e-4),
                dict(chem=0, cut=[1.01], noisy=True)),
    'ROMEGA': (lambda: crystal.Crystal(hexl(np.sqrt(3 / 8)), [np.zeros(3), A([1 / 3, 2 / 3, 0.55]), A([2 / 3, 1 / 3, 0.45])]),
               dict(chem=0, cut=[0.7], multiwyckoff=True, vectorbasis=True)),
    'ROMEGA51': (lambda: crystal.Crystal(hexl(np.sqrt(3 / 8)), [np.zeros(3), A([1 / 3, 2 / 3, 0.51]), A([2 / 3, 1 / 3, 0.49])]),
                 dict(chem=0, cut=[0.7], multiwyckoff=True, vectorbasis=True)),
    'WURTZ': (lambda: crystal.Crystal(hexl(1.63), [A([1 / 3, 2 / 3, 0.]), A([2 / 3, 1 / 3, 0.5])]),
              dict(chem=0, cut=[1.01, 1.02 * np.sqrt(1 / 3 + 1.63 ** 2 / 4)], note='HCP-like; see WURTZ2 for polar')),
    'WURTZ2': (lambda: crystal.Crystal(hexl(1.63), [[A([1 / 3, 2 / 3, 0.]), A([2 / 3, 1 / 3, 0.5])],
                                                   [A([1 / 3, 2 / 3, 0.375]), A([2 / 3, 1 / 3, 0.875])]], ['Zn', 'S']),
               dict(chem=0, cut=[1.01, 1.02 * np.sqrt(1 / 3 + 1.63 ** 2 / 4)], vectorbasis=True, noinversion=True)),
    'B2': (lambda: crystal.Crystal(np.eye(3), [np.zeros(3), A([0.45, 0.45, 0.45])]), dict(chem=0, cut=[0.99, 1.01], multiwyckoff=True)),
    'B2AB': (lambda: crystal.Crystal(np.eye(3), [[np.zeros(3)], [0.5 * np.ones(3)]], ['A', 'B']), dict(chem=0, cut=[1.01, 1.45])),
    'L12': (lambda: crystal.Crystal(np.eye(3), [np.zeros(3), A([0.05, 0.5, 0.5]), A([0.5, 0.05, 0.5]), A([0.5, 0.5, 0.05])]),
            dict(chem=0, cut=[0.99], multiwyckoff=True, vectorbasis=True)),
    'NBO': (lambda: crystal.Crystal(np.eye(3), [[A([0, 0.5, 0.5]), A([0.5, 0, 0.5]), A([0.5, 0.5, 0])],
                                                [A([0.5, 0, 0]), A([0, 0.5, 0]), A([0, 0, 0.5])]], ['Nb', 'O']),
            dict(chem=1, cut=[0.8])),
    'PYROPE': (_pyrope, dict(chem=0, cut=[0.31], disconnected=True)),
    'P1': (lambda: crystal.Crystal(A([[1., 0.21, 0.17], [0., 1.1, 0.33], [0., 0., 1.23]]), [np.zeros(3), A([0.31, 0.43, 0.57])]),
           dict(chem=0, cut=[0.95, 1.13], vectorbasis=True, note='two like atoms: the midpoint is an inversion centre (P-1)')),
    # true P1: three like atoms in a triclinic cell, no symmetry at all (every site its own class, NV = 9)
    'P1_3': (lambda: crystal.Crystal(A([[1., 0.21, 0.17], [0., 1.1, 0.33], [0., 0., 1.23]]),
                                     [np.zeros(3), A([0.31, 0.43, 0.57]), A([0.68, 0.22, 0.29])]),
             dict(chem=0, cut=[1.01], vectorbasis=True, noinversion=True)),
    # orthorhombic Pmmm, general position: 8 sites in one class, site symmetry 1 (NV = 3), site dipoles rotated from site to site
    'PMMM_G': (lambda: crystal.Crystal(np.diag([1., 1.15, 1.3]),
                                       [A([sx * 0.11, sy * 0.17, sz * 0.23]) for sx in (1, -1) for sy in (1, -1) for sz in (1, -1)]),
               dict(chem=0, cut=[0.8], vectorbasis=True)),
    # monoclinic Pm (two species on the mirror plane), rigidly rotated so that the mirror normal is 20 degrees off z and
    # has an x component: site symmetry m with a generally oriented invariant plane
    'PM_TILT': (lambda: crystal.Crystal(np.dot(_tilt(), A([[1., 0., 0.3], [0., 1.1, 0.], [0., 0., 1.2]])),
                                        [[np.zeros(3)], [A([0.3, 0., 0.4])]], ['A', 'B']),
                dict(chem=0, cut=[1.3], vectorbasis=True, noinversion=True)),
    # a true doubling of a P1 cell (A and B both repeated), kept non-primitive: the group is {E, t = a/2}
    'TRIC2NR': (lambda: crystal.Crystal(A([[2., 0.21, 0.17], [0., 1.1, 0.33], [0., 0., 1.23]]),
                                        [[np.zeros(3), A([0.5, 0., 0.])], [A([0.1, 0.3, 0.4]), A([0.6, 0.3, 0.4])]], ['A', 'B'], noreduce=True),
                dict(chem=0, cut=[1.01, 1.3], noinversion=True, nonprimitive=True)),
    'RUMPLED2': (lambda: crystal.Crystal(A([[2., 0., 0.], [0., 1., 0.], [0., 0., 10.]]), [A([0., 0., 0.]), A([0.5, 0, 0.1])]),
                 dict(chem=0, cut=[1.5], vectorbasis=True)),
    # ---- hosts with interstitial sublattices
    'FCC_OT': (lambda: crystal.Crystal(FCCL, [[np.zeros(3)], [A([0.5, 0.5, -0.5]), A([0.25, 0.25, 0.25]), A([0.75, 0.75, 0.75])]], ['Pd', 'H']),
               dict(chem=1, cut=[0.48, 0.51, 0.72], interstitial=True)),
    # the same crystal with the interstitial species listed FIRST (chem = 0 is not the last chemistry)
    'OT_FCC': (lambda: crystal.Crystal(FCCL, [[A([0.5, 0.5, -0.5]), A([0.25, 0.25, 0.25]), A([0.75, 0.75, 0.75])], [np.zeros(3)]], ['H', 'Pd']),
               dict(chem=0, cut=[0.48, 0.51, 0.72], interstitial=True)),
    # binary host (B2) with an interstitial sublattice (face and edge centres): interstitial species last / in the middle
    'B2AB_O': (lambda: crystal.Crystal(np.eye(3), [[np.zeros(3)], [0.5 * np.ones(3)],
                                                   [A([0.5, 0.5, 0.]), A([0.5, 0., 0.5]), A([0., 0.5, 0.5]), A([0.5, 0., 0.]), A([0., 0.5, 0.]), A([0., 0., 0.5])]],
                                       ['A', 'B', 'O']),
               dict(chem=2, cut=[0.51], interstitial=True)),
    'B2AOB': (lambda: crystal.Crystal(np.eye(3), [[np.zeros(3)],
                                                  [A([0.5, 0.5, 0.]), A([0.5, 0., 0.5]), A([0., 0.5, 0.5]), A([0.5, 0., 0.]), A([0., 0.5, 0.]), A([0., 0., 0.5])],
                                                  [0.5 * np.ones(3)]], ['A', 'O', 'B']),
              dict(chem=1, cut=[0.51], interstitial=True)),
    # tetragonal host, two interstitial classes whose sites are listed INTERLEAVED (A1,B1,A2,B2): sitelist [[0,2],[1,3]]
    'TET4I': (lambda: crystal.Crystal(np.diag([1., 1., 1.3]), [[np.zeros(3)], [A([0.5, 0., 0.]), A([0.5, 0., 0.5]), A([0., 0.5, 0.]), A([0., 0.5, 0.5])]], ['H', 'i']),
              dict(chem=1, cut=[0.75], interstitial=True, note='site classes are not contiguous index ranges')),
    'FCC_O': (lambda: crystal.Crystal(FCCL, [[np.zeros(3)], [A([0.5, 0.5, -0.5])]], ['Pd', 'H']),
              dict(chem=1, cut=[0.72, 1.01], interstitial=True)),
    'FCC_T': (lambda: crystal.Crystal(FCCL, [[np.zeros(3)], [A([0.25, 0.25, 0.25]), A([0.75, 0.75, 0.75])]], ['Pd', 'H']),
              dict(chem=1, cut=[0.51, 0.72], interstitial=True)),
    'BCC_O': (lambda: crystal.Crystal(BCCL, [[np.zeros(3)], [A([0., 0.5, 0.5]), A([0.5, 0., 0.5]), A([0.5, 0.5, 0.])]], ['Fe', 'C']),
              dict(chem=1, cut=[0.6, 0.72], interstitial=True)),
    'BCC_T': (lambda: crystal.Crystal(BCCL, [[np.zeros(3)], [A([0.25, 0.5, 0.75]), A([0.75, 0.5, 0.25]), A([0.5, 0.75, 0.25]),
                                                            A([0.5, 0.25, 0.75]), A([0.75, 0.25, 0.5]), A([0.25, 0.75, 0.5])]], ['Fe', 'H']),
              dict(chem=1, cut=[0.36, 0.51], interstitial=True)),
    'HCP_OT': (lambda: crystal.Crystal(hexl(np.sqrt(8 / 3)), [[A([1 / 3, 2 / 3, 0.25]), A([2 / 3, 1 / 3, 0.75])],
                                                             [A([0., 0., 0.]), A([0., 0., 0.5]), A([1 / 3, 2 / 3, 0.625]), A([1 / 3, 2 / 3, 0.875]),
                                                              A([2 / 3, 1 / 3, 0.125]), A([2 / 3, 1 / 3, 0.375])]], ['Mg', 'O']),
               dict(chem=1, cut=[0.7, 0.85], interstitial=True)),
    # ---- 2D
    'SQUARE': (lambda: crystal.Crystal(np.eye(2), [np.zeros(2)]), dict(chem=0, cut=[1.01, 1.45])),
    'RECT': (lambda: crystal.Crystal(np.diag([1., 1.2]), [np.zeros(2)]), dict(chem=0, cut=[1.01, 1.21])),
    'CRECT': (lambda: crystal.Crystal(A([[0.5, 0.5], [-0.65, 0.65]]), [np.zeros(2)]), dict(chem=0, cut=[0.83, 1.01])),
    'TRIA': (lambda: crystal.Crystal(HEX2, [np.zeros(2)]), dict(chem=0, cut=[1.01, 1.75])),
    'OBLIQUE': (lambda: crystal.Crystal(A([[1., 0.3], [0., 1.1]]), [np.zeros(2)]), dict(chem=0, cut=[1.01, 1.15])),
    'HONEY': (lambda: crystal.Crystal(HEX2, [A([2 / 3, 1 / 3]), A([1 / 3, 2 / 3])]), dict(chem=0, cut=[0.6, 1.01])),
    'RECTM': (lambda: crystal.Crystal(A([[1., 0.], [0., s3]]), [np.zeros(2), A([0.5, 0.4])]), dict(chem=0, cut=[1.2], vectorbasis=True)),
    # RECTM with a spectator species X: the vacancy sublattice (origin states) is NOT the whole crystal (crys.N = 3, N = 2)
    'RECTMX': (lambda: crystal.Crystal(A([[1., 0.], [0., s3]]), [[np.zeros(2), A([0.5, 0.4])], [A([0., 0.7])]], ['A', 'X']),
               dict(chem=0, cut=[1.2], vectorbasis=True, spectator=True)),
    'RECTM2': (lambda: crystal.Crystal(A([[1., 0.], [0., s3]]), [np.zeros(2), A([0.5, 0.45])]), dict(chem=0, cut=[1.2], vectorbasis=True)),
    'TRIA2': (lambda: crystal.Crystal(A([[1., 0.], [0., s3]]), [np.zeros(2), A([0.5, 0.5])]), dict(chem=0, cut=[1.01])),
    'KAGOME': (lambda: crystal.Crystal(HEX2, [A([0.5, 0.]), A([0., 0.5]), A([0.5, 0.5])]), dict(chem=0, cut=[0.51, 0.9])),
    'SQ2MM': (lambda: crystal.Crystal(np.eye(2), [[np.zeros(2)], [A([0.5, 0.])] + [A([0., 0.5])]], ['A', 'B']),
              dict(chem=1, cut=[0.72, 1.01], note='B sites have 2mm symmetry')),
    # 2D p2mm general position: 4 sites in one class, trivial site symmetry (NV = 2)
    'P2MM_G': (lambda: crystal.Crystal(np.diag([1., 1.2]), [A([sx * 0.13, sy * 0.21]) for sx in (1, -1) for sy in (1, -1)]),
               dict(chem=0, cut=[0.8], vectorbasis=True)),
    # 2D p1: three like atoms in an oblique cell
    'OBL3': (lambda: crystal.Crystal(A([[1., 0.3], [0., 0.9]]), [np.zeros(2), A([0.37, 0.41]), A([0.71, 0.18])]),
             dict(chem=0, cut=[0.7], vectorbasis=True, noinversion=True)),
    'HEXM': (lambda: crystal.Crystal(HEX2, [[np.zeros(2)], [A([0.6, 0.8]), A([0.2, 0.4]), A([0.8, 0.2]), A([0.4, 0.2]), A([0.2, 0.8]), A([0.8, 0.6])]], ['A', 'B']),
             dict(chem=1, cut=[0.36, 0.45], note='B sites on mirror lines at 30,90,150 degrees', vectorbasis=True)),
}


def _tilt():
    """rotation taking the y axis to n = (sin20 cos30, sin20 sin30, cos20)"""
    t, f = np.radians(20.), np.radians(30.)
    n = np.array([np.sin(t) * np.cos(f), np.sin(t) * np.sin(f), np.cos(t)])
    y = np.array([0., 1., 0.])
    v = np.cross(y, n); c = float(np.dot(y, n))
    K = np.array([[0., -v[2], v[1]], [v[2], 0., -v[0]], [-v[1], v[0], 0.]])
    return np.eye(3) + K + np.dot(K, K) / (1. + c)


def get(name):
    return CAT[name][0]()


def meta(name):
    return CAT[name][1]


def names(dim=None, **flags):
    out = []
    for n, (f, m) in CAT.items():
        if m.get('noisy'): continue      # crystals given with a loosened symmetry threshold are used by name only (C23)
        out.append(n)
    return out


def network(name, icut=0):
    """(crys, chem, sitelist, jumpnetwork) for the icut-th cutoff of catalogue crystal `name`"""
    crys = get(name)
    m = meta(name)
    chem = m['chem']
    cut = m['cut'][min(icut, len(m['cut']) - 1)]
    return crys, chem, crys.sitelist(chem), crys.jumpnetwork(chem, cut)
