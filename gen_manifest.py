#!/venv/bin/python
"""Regenerates MANIFEST.json from the check modules present in mc/checks (keeps it valid at all times)."""
import os, sys, json, importlib, subprocess
VERIF = os.path.dirname(os.path.abspath(__file__))
sys.path.insert(0, VERIF)
os.environ.setdefault('PYTHONWARNINGS', 'ignore')
import warnings; warnings.simplefilter('ignore')

NA_REASONS = {}   # property id -> reason, for properties deliberately not claimed
READY = ['C%02d' % n for n in range(1, 37)]   # checks reviewed, silent on the unchanged tree and registered

def main():
    props = [json.loads(l) for l in open(os.path.join(VERIF, 'properties.jsonl'))]
    hooks_commits = []
    checks, na = [], []
    for p in props:
        pid = p['id']
        path = os.path.join(VERIF, 'mc', 'checks', pid.lower() + '.py')
        if not os.path.exists(path) or pid in NA_REASONS or pid not in READY:
            na.append({'property_id': pid, 'reason': NA_REASONS.get(pid, 'check not built yet (planned in DESIGN.md section 6); not claimed')})
            continue
        mod = importlib.import_module('mc.checks.' + pid.lower())
        checks.append({
            'property_id': pid,
            'quick_cmd': '/venv/bin/python run.py {} --tier quick'.format(pid),
            'thorough_cmd': '/venv/bin/python run.py {} --tier thorough'.format(pid),
            'evidence_file': 'evidence/{}.json'.format(pid),
            'replay_cmd_template': '/venv/bin/python run.py {} --replay {{path}}'.format(pid),
            'engine': getattr(mod, 'ENGINE', 'E1'),
            'level_claimed': {'category': 'model_checking',
                              'text': getattr(mod, 'LEVEL_TEXT', mod.RULE),
                              'design_ref': 'DESIGN.md section 6, ' + pid},
            'level_note': getattr(mod, 'LEVEL_NOTE', '; '.join(getattr(mod, 'ASSUMPTIONS', [])) or 'reference model as described in DESIGN.md section 3'),
            'technique': mod.TECHNIQUE,
        })
    man = {
        'version': 1,
        'setup_cmd': '/venv/bin/python -c "import numpy, scipy, h5py, numba, yaml, onsager; print(onsager.__file__)"',
        'hooks': {'guard': 'ONSAGER_VERIF', 'enable': 'no source hooks are needed: checks import /repo (editable install) and drive public API only',
                  'baseline_off_cmd': 'cd /repo && /venv/bin/python -m pytest -ra -q -p no:cacheprovider --timeout=900 --continue-on-collection-errors',
                  'source_commits': hooks_commits, 'add_only': True},
        'engines': [
            {'name': 'E1', 'path': 'mc/core.py', 'kind_free_text': 'bounded-exhaustive input-lattice explorer (all points within k deviations of base points over finite alphabets; node and edge oracles against reference models)',
             'serves_properties': [c['property_id'] for c in checks if c['engine'] == 'E1']},
            {'name': 'E2', 'path': 'mc/core.py', 'kind_free_text': 'explicit-state BFS over real objects (operation alphabets, canonical state hashing, reference model in lock-step)',
             'serves_properties': [c['property_id'] for c in checks if c['engine'] == 'E2']},
            {'name': 'E3', 'path': 'mc/core.py', 'kind_free_text': 'lock-step product exploration of two implementations of one interface',
             'serves_properties': [c['property_id'] for c in checks if c['engine'] == 'E3']},
        ],
        'checks': checks,
        'not_applicable': na,
        'notes': 'All checks: cwd=/verif, /venv/bin/python, fixed PYTHONHASHSEED per child (quick {0}; thorough {0,1,2}); VERIF_SEED only rotates evidence samples.',
    }
    with open(os.path.join(VERIF, 'MANIFEST.json'), 'w') as f:
        json.dump(man, f, indent=1)
    # validate
    r = subprocess.run(['python3-vt', '-c', 'import json,jsonschema;jsonschema.validate(json.load(open("/verif/MANIFEST.json")),json.load(open("/root/.vp/MANIFEST.schema.json")));print("MANIFEST valid:",len(json.load(open("/verif/MANIFEST.json"))["checks"]),"checks")'])
    sys.exit(r.returncode)

if __name__ == '__main__':
    main()
