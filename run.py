#!/venv/bin/python
"""
run.py <Cnn> [--tier quick|thorough] [--replay file] [--hashseeds 0,1,2]

Runs one property check against /repo's current working tree (the package is installed editable
from /repo, so importing it *is* rebuilding from the working tree).  Each exploration runs in a
child interpreter with a fixed PYTHONHASHSEED, because the hash seed permutes the iteration order of
Crystal.G and with it class indices/representatives: it is an enumerated environment choice
(quick: {0}; thorough: {0,1,2}), not a random one.
"""
import os, sys, json, subprocess, argparse, tempfile, time

VERIF = os.path.dirname(os.path.abspath(__file__))
sys.path.insert(0, VERIF)
PY = '/venv/bin/python'


def main():
    ap = argparse.ArgumentParser()
    ap.add_argument('pid')
    ap.add_argument('--tier', default=os.environ.get('VERIF_TIER', 'quick'), choices=['quick', 'thorough'])
    ap.add_argument('--replay', default=None)
    ap.add_argument('--hashseeds', default=None)
    ap.add_argument('--child', default=None)
    a = ap.parse_args()
    pid = a.pid.upper()
    seed = int(os.environ.get('VERIF_SEED', '0') or 0)
    modname = 'mc.checks.' + pid.lower()

    if a.child or a.replay:
        if a.replay and os.environ.get('_VERIF_REEXEC') != '1':
            # replays re-exec with the hash seed recorded in the replay file
            with open(a.replay) as f: hs = str(json.load(f).get('hashseed') or '0')
            env = dict(os.environ, PYTHONHASHSEED=hs, _VERIF_REEXEC='1')
            sys.exit(subprocess.call([PY, os.path.abspath(__file__)] + sys.argv[1:], env=env, cwd=VERIF))
        from mc import core
        if a.replay:
            sys.exit(core.run_check(modname, a.tier, seed, replay=a.replay))
        ev, lines, rc = core.run_check(modname, a.tier, seed)
        with open(a.child, 'w') as f:
            json.dump({'ev': ev, 'lines': lines, 'rc': rc}, f)
        sys.exit(0)

    hashseeds = a.hashseeds.split(',') if a.hashseeds else (['0'] if a.tier == 'quick' else ['0', '1', '2'])
    if not a.hashseeds and a.tier != 'quick':
        # a module may restrict the thorough tier to fewer interpreter hash seeds (stated in its BOUNDS) when one pass is very long
        import importlib
        hashseeds = list(getattr(importlib.import_module('mc.checks.' + pid.lower()), 'THOROUGH_HASHSEEDS', hashseeds))
    evs, rc, alllines = [], 0, []
    if os.environ.get('VERIF_SCRATCH'): os.makedirs(os.environ['VERIF_SCRATCH'], exist_ok=True)
    # replays of earlier runs are stale: the directory only holds the violations of this run
    repdir = os.path.join(os.environ.get('VERIF_SCRATCH') or os.path.join(VERIF, 'replays'), pid)
    if os.path.isdir(repdir):
        for fn in os.listdir(repdir):
            if fn.endswith('.json'): os.remove(os.path.join(repdir, fn))
    for hs in hashseeds:
        fd, out = tempfile.mkstemp(prefix='verif_' + pid + '_', suffix='.json', dir=os.environ.get('VERIF_SCRATCH') or os.path.join(VERIF, 'evidence'))
        os.close(fd)
        try:
            env = dict(os.environ, PYTHONHASHSEED=hs, OMP_NUM_THREADS='1', OPENBLAS_NUM_THREADS='1',
                       MKL_NUM_THREADS='1', NUMBA_NUM_THREADS='1', PYTHONWARNINGS='ignore')
            p = subprocess.run([PY, os.path.abspath(__file__), pid, '--tier', a.tier, '--child', out],
                               env=env, cwd=VERIF)
            try:
                with open(out) as f: res = json.load(f)
            except Exception:
                res = None
            if p.returncode != 0 or res is None:
                print('EXPLORER-ERROR property={} hashseed={} child exit {}'.format(pid, hs, p.returncode))
                sys.exit(2)
        finally:
            if os.path.exists(out): os.remove(out)
        evs.append(res['ev']); rc = max(rc, res['rc'])
        for l in res['lines']:
            if l not in alllines: alllines.append(l)
    from mc import core
    ev = core.merge_evidence(evs)
    # seeded-change trials (seeded/try_wt.sh) set VERIF_SCRATCH so that evidence/ only ever holds runs against /repo
    evdir = os.environ.get('VERIF_SCRATCH') or os.path.join(VERIF, 'evidence')
    os.makedirs(evdir, exist_ok=True)
    with open(os.path.join(evdir, pid + '.json'), 'w') as f:
        json.dump(ev, f, indent=1, sort_keys=True)
    for l in alllines: print(l)
    c = ev['coverage']
    print('{} tier={} hashseeds={} cases={}/{} states={} transitions={} execs={} outcomes={} nontrivial={} '
          'exhaustive={} violations={} wall={:.1f}s'.format(
        pid, a.tier, c['hashseed'], c['cases_completed'], c['cases_enumerated'], c['states'], c['transitions'],
        c['traces_validated_against_impl'], c['distinct_outcomes'], c['distinct_nontrivial'],
        c['exhaustive'], ev['violations'], ev['wall_s']))
    sys.exit(1 if rc else 0)


if __name__ == '__main__':
    main()
